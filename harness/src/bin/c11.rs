//! C11 explorer: one query + one tree, many cursor configurations, all through the Rust API of /repo.
//! usage: c11 <ops-file> [--spec <file>] [lang...]
//!
//! For every (language, document, query) it records the match stream and the capture stream of
//! the *real* cursor under: no restriction, byte/point ranges (intersecting and containing),
//! max-start-depths, match limits, re-execution on a used cursor, removal of a match mid-stream,
//! and the predicate-filtering Rust iterators.  The Lean driver `tsv-c11` decides every `chk` line.
//!
//! spec / corpus line: `<lang> <texthex> <q0hex> <qhex> <caseseed>`; q0 = the query without text
//! predicates, q = the same patterns with predicates (may be equal).
use std::collections::HashMap;
use std::fmt::Write as _;
use std::io::Write;
use tree_sitter::{Language, Node, Parser, Point, Query, QueryCursor, StreamingIterator, Tree};
use tsv_harness::*;

#[derive(Clone)]
struct Cap {
    idx: u32,
    node: usize,
    r: [usize; 6],
}

struct M {
    id: u32,
    pat: usize,
    root: [usize; 6],
    depth: usize,
    haspar: bool,
    hasroot: bool,
    par: [usize; 6],
    caps: Vec<Cap>,
}

struct C {
    id: u32,
    pat: usize,
    k: usize,
    cap: Cap,
}

#[derive(Clone, Default)]
struct Cfg {
    byte: Option<(usize, usize)>,
    point: Option<(Point, Point)>,
    cbyte: Option<(usize, usize)>,
    cpoint: Option<(Point, Point)>,
    depth: Option<u32>,
    limit: Option<u32>,
}

fn rng6(n: &Node) -> [usize; 6] {
    [n.start_byte(), n.end_byte(), n.start_position().row, n.start_position().column, n.end_position().row, n.end_position().column]
}

struct NodeIds {
    map: HashMap<(usize, usize, usize, u16), usize>,
}

impl NodeIds {
    fn new(tree: &Tree) -> Self {
        let mut map = HashMap::new();
        let mut c = tree.walk();
        let mut n = 0usize;
        'outer: loop {
            let nd = c.node();
            map.entry((nd.id(), nd.start_byte(), nd.end_byte(), nd.kind_id())).or_insert(n);
            n += 1;
            if c.goto_first_child() {
                continue;
            }
            loop {
                if c.goto_next_sibling() {
                    break;
                }
                if !c.goto_parent() {
                    break 'outer;
                }
            }
        }
        NodeIds { map }
    }
    fn get(&mut self, nd: &Node) -> usize {
        let n = self.map.len() + 100000;
        *self.map.entry((nd.id(), nd.start_byte(), nd.end_byte(), nd.kind_id())).or_insert(n)
    }
}

fn depth_of(n: &Node) -> usize {
    let mut d = 0;
    let mut cur = *n;
    while let Some(p) = cur.parent() {
        d += 1;
        cur = p;
    }
    d
}

fn apply_cfg(cursor: &mut QueryCursor, cfg: &Cfg) {
    // always reset everything first: a cursor keeps its settings across exec calls
    cursor.set_byte_range(0..(u32::MAX as usize));
    cursor.set_point_range(Point::new(0, 0)..Point::new(u32::MAX as usize, u32::MAX as usize));
    cursor.set_containing_byte_range(0..(u32::MAX as usize));
    cursor.set_containing_point_range(Point::new(0, 0)..Point::new(u32::MAX as usize, u32::MAX as usize));
    cursor.set_max_start_depth(cfg.depth);
    cursor.set_match_limit(cfg.limit.unwrap_or(u32::MAX));
    if let Some((s, e)) = cfg.byte {
        cursor.set_byte_range(s..e);
    }
    if let Some((s, e)) = cfg.point {
        cursor.set_point_range(s..e);
    }
    if let Some((s, e)) = cfg.cbyte {
        cursor.set_containing_byte_range(s..e);
    }
    if let Some((s, e)) = cfg.cpoint {
        cursor.set_containing_point_range(s..e);
    }
}

fn root_cap(q: &Query) -> Option<u32> {
    q.capture_names().iter().position(|n| *n == "r").map(|i| i as u32)
}

fn run_matches(cursor: &mut QueryCursor, q: &Query, tree: &Tree, text: &[u8], cfg: &Cfg, ids: &mut NodeIds, take: Option<usize>) -> (Vec<M>, bool) {
    apply_cfg(cursor, cfg);
    let rc = root_cap(q);
    let mut out = Vec::new();
    {
        let mut it = cursor.matches(q, tree.root_node(), text);
        while let Some(m) = it.next() {
            let caps: Vec<Cap> = m.captures.iter().map(|c| Cap { idx: c.index, node: ids.get(&c.node), r: rng6(&c.node) }).collect();
            let rootn = m.captures.iter().find(|c| Some(c.index) == rc).map(|c| c.node);
            let (root, depth, haspar, par) = match rootn {
                Some(n) => match n.parent() {
                    Some(p) => (rng6(&n), depth_of(&n), true, rng6(&p)),
                    None => (rng6(&n), 0, false, [0; 6]),
                },
                None => ([0; 6], 0, false, [0; 6]),
            };
            let hasroot = rootn.is_some();
            out.push(M { id: m.id(), pat: m.pattern_index, root, depth, haspar, hasroot, par, caps });
            if let Some(t) = take {
                if out.len() >= t {
                    break;
                }
            }
        }
    }
    let ex = cursor.did_exceed_match_limit();
    (out, ex)
}

fn run_captures(cursor: &mut QueryCursor, q: &Query, tree: &Tree, text: &[u8], cfg: &Cfg, ids: &mut NodeIds, remove_at: Option<usize>, take: Option<usize>) -> (Vec<C>, bool) {
    apply_cfg(cursor, cfg);
    let mut out = Vec::new();
    {
        let mut it = cursor.captures(q, tree.root_node(), text);
        while let Some((m, k)) = it.next() {
            let c = &m.captures[*k];
            out.push(C { id: m.id(), pat: m.pattern_index, k: *k, cap: Cap { idx: c.index, node: ids.get(&c.node), r: rng6(&c.node) } });
            if remove_at == Some(out.len() - 1) {
                m.remove();
            }
            if let Some(t) = take {
                if out.len() >= t {
                    break;
                }
            }
        }
    }
    let ex = cursor.did_exceed_match_limit();
    (out, ex)
}

/// The same as run_matches, but the text is handed to the predicates in several chunks per node
/// (closure text provider), cut at positions derived from the node: exercises the chunk
/// concatenation of `satisfies_text_predicates`.
fn run_matches_chunked(cursor: &mut QueryCursor, q: &Query, tree: &Tree, text: &[u8], ids: &mut NodeIds) -> Vec<M> {
    apply_cfg(cursor, &Cfg::default());
    let rc = root_cap(q);
    let mut out = Vec::new();
    let provider = |n: Node| {
        let t = &text[n.start_byte()..n.end_byte()];
        let k = if t.len() >= 2 { 1 + (n.start_byte() % (t.len() - 1)) } else { t.len() };
        let m = if t.len() - k >= 2 { k + 1 } else { t.len() };
        vec![&t[..k], &t[k..m], &t[m..]].into_iter()
    };
    let mut it = cursor.matches(q, tree.root_node(), provider);
    while let Some(m) = it.next() {
        let caps: Vec<Cap> = m.captures.iter().map(|c| Cap { idx: c.index, node: ids.get(&c.node), r: rng6(&c.node) }).collect();
        let rootn = m.captures.iter().find(|c| Some(c.index) == rc).map(|c| c.node);
        let (root, depth, haspar, par) = match rootn {
            Some(n) => match n.parent() {
                Some(p) => (rng6(&n), depth_of(&n), true, rng6(&p)),
                None => (rng6(&n), 0, false, [0; 6]),
            },
            None => ([0; 6], 0, false, [0; 6]),
        };
        out.push(M { id: m.id(), pat: m.pattern_index, root, depth, haspar, hasroot: rootn.is_some(), par, caps });
    }
    out
}

fn w6(s: &mut String, r: &[usize; 6]) {
    write!(s, " {} {} {} {} {} {}", r[0], r[1], r[2], r[3], r[4], r[5]).unwrap();
}

fn emit_m(out: &mut impl Write, name: &str, ms: &[M]) {
    writeln!(out, "stream {name}").unwrap();
    for m in ms {
        let mut s = format!("m {} {}", m.id, m.pat);
        w6(&mut s, &m.root);
        write!(s, " {} {}", m.depth, if !m.hasroot { 2 } else if m.haspar { 1 } else { 0 }).unwrap();
        w6(&mut s, &m.par);
        write!(s, " {}", m.caps.len()).unwrap();
        for c in &m.caps {
            write!(s, " {} {}", c.idx, c.node).unwrap();
            w6(&mut s, &c.r);
        }
        writeln!(out, "{s}").unwrap();
    }
    writeln!(out, "end").unwrap();
}

fn emit_c(out: &mut impl Write, name: &str, cs: &[C]) {
    writeln!(out, "stream {name}").unwrap();
    for c in cs {
        let mut s = format!("c {} {} {} {} {}", c.id, c.pat, c.k, c.cap.idx, c.cap.node);
        w6(&mut s, &c.cap.r);
        writeln!(out, "{s}").unwrap();
    }
    writeln!(out, "end").unwrap();
}

// ---------------------------------------------------------------- query generation

struct QGen<'a> {
    text: &'a [u8],
    lang: &'a Language,
    named_kinds: Vec<String>,
    fields: Vec<String>,
    ncap: usize,
    used_caps: Vec<String>,
}

fn quote(s: &str) -> String {
    let mut o = String::from("\"");
    for ch in s.chars() {
        match ch {
            '"' => o.push_str("\\\""),
            '\\' => o.push_str("\\\\"),
            '\n' => o.push_str("\\n"),
            '\r' => o.push_str("\\r"),
            '\t' => o.push_str("\\t"),
            '\0' => o.push_str("\\0"),
            c => o.push(c),
        }
    }
    o.push('"');
    o
}

impl<'a> QGen<'a> {
    fn new(lang: &'a Language, text: &'a [u8]) -> Self {
        let mut named_kinds = Vec::new();
        for id in 0..lang.node_kind_count() as u16 {
            if lang.node_kind_is_named(id) && lang.node_kind_is_visible(id) {
                if let Some(k) = lang.node_kind_for_id(id) {
                    if k != "ERROR" && !k.starts_with('_') && !named_kinds.contains(&k.to_string()) {
                        named_kinds.push(k.to_string());
                    }
                }
            }
        }
        let mut fields = Vec::new();
        for f in 1..=lang.field_count() as u16 {
            if let Some(n) = lang.field_name_for_id(f) {
                fields.push(n.to_string());
            }
        }
        QGen { text, lang, named_kinds, fields, ncap: 0, used_caps: Vec::new() }
    }

    fn capture(&mut self, rng: &mut Rng) -> String {
        // a small pool of names so that one capture name often binds several nodes
        let k = rng.below(3);
        let name = format!("c{k}");
        if !self.used_caps.contains(&name) {
            self.used_caps.push(name.clone());
        }
        self.ncap += 1;
        format!(" @{name}")
    }

    fn head(&self, node: &Node) -> Option<String> {
        if node.is_error() {
            return Some("(ERROR".to_string());
        }
        if node.is_missing() {
            return None;
        }
        if node.is_named() {
            Some(format!("({}", node.kind()))
        } else {
            None
        }
    }

    /// Pattern for one node (no capture suffix). Returns None when the node cannot be expressed.
    fn pat(&mut self, rng: &mut Rng, node: &Node, depth: usize) -> Option<String> {
        if node.is_missing() {
            return Some(if node.is_named() { format!("(MISSING {})", node.kind()) } else { format!("(MISSING {})", quote(node.kind())) });
        }
        if !node.is_named() {
            return Some(if rng.chance(1, 6) { "_".to_string() } else { quote(node.kind()) });
        }
        if rng.chance(1, 10) && !node.is_error() {
            // named wildcard, possibly with children
            if depth == 0 || rng.chance(1, 2) {
                return Some("(_)".to_string());
            }
        }
        if rng.chance(1, 12) && !node.is_error() && !self.named_kinds.is_empty() {
            // alternation between this node's kind and another kind
            let other = rng.pick(&self.named_kinds).clone();
            let a = format!("({})", node.kind());
            let b = format!("({other})");
            return Some(if rng.chance(1, 2) { format!("[{a} {b}]") } else { format!("[{b} {a}]") });
        }
        let mut s = self.head(node)?;
        if rng.chance(1, 14) && !node.is_error() {
            s = "(_".to_string();
        }
        if depth > 0 && !node.is_error() {
            let mut cur = node.walk();
            let mut kids: Vec<(Node, Option<String>)> = Vec::new();
            if cur.goto_first_child() {
                loop {
                    kids.push((cur.node(), cur.field_name().map(|s| s.to_string())));
                    if !cur.goto_next_sibling() {
                        break;
                    }
                }
            }
            let mut chosen = 0;
            let mut first = true;
            let nk = kids.len();
            for (i, (k, f)) in kids.iter().enumerate() {
                if chosen >= 3 {
                    break;
                }
                let p = if k.is_named() { 2 } else { 6 };
                if k.is_extra() && !rng.chance(1, 4) {
                    continue;
                }
                if !rng.chance(1, p) {
                    continue;
                }
                let sub = match self.pat(rng, k, depth - 1) {
                    Some(x) => x,
                    None => continue,
                };
                if first && i == 0 && rng.chance(1, 8) {
                    s.push_str(" .");
                } else if !first && rng.chance(1, 10) {
                    s.push_str(" .");
                }
                first = false;
                s.push(' ');
                if let Some(f) = f {
                    if rng.chance(2, 3) {
                        s.push_str(f.as_str());
                        s.push_str(": ");
                    }
                }
                s.push_str(&sub);
                if rng.chance(1, 4) {
                    s.push_str(*rng.pick(&["+", "*", "?"]));
                }
                if rng.chance(1, 2) {
                    let c = self.capture(rng);
                    s.push_str(&c);
                }
                chosen += 1;
                if i + 1 == nk && rng.chance(1, 8) {
                    s.push_str(" .");
                }
            }
            if !self.fields.is_empty() && rng.chance(1, 12) {
                let f = rng.pick(&self.fields).clone();
                s.push_str(&format!(" !{f}"));
            }
        }
        s.push(')');
        Some(s)
    }
}

fn all_nodes<'t>(tree: &'t Tree) -> Vec<Node<'t>> {
    let mut v = Vec::new();
    let mut c = tree.walk();
    'outer: loop {
        v.push(c.node());
        if c.goto_first_child() {
            continue;
        }
        loop {
            if c.goto_next_sibling() {
                break;
            }
            if !c.goto_parent() {
                break 'outer;
            }
        }
    }
    v
}

fn ascii_ok(b: &[u8]) -> bool {
    !b.is_empty() && b.len() <= 10 && b.iter().all(|c| (0x20..0x7f).contains(c))
}

/// Generate (q0, q): patterns without / with text predicates.
fn gen_query(rng: &mut Rng, lang: &Language, tree: &Tree, text: &[u8]) -> Option<(String, String)> {
    let nodes = all_nodes(tree);
    let named: Vec<&Node> = nodes.iter().filter(|n| n.is_named() && !n.is_missing()).collect();
    if named.is_empty() {
        return None;
    }
    let leaf_texts: Vec<String> = nodes
        .iter()
        .filter(|n| n.child_count() == 0 && ascii_ok(&text[n.start_byte()..n.end_byte()]))
        .map(|n| String::from_utf8_lossy(&text[n.start_byte()..n.end_byte()]).into_owned())
        .collect();
    let npat = 1 + rng.below(3);
    let mut q0 = String::new();
    let mut q = String::new();
    for _ in 0..npat {
        let mut g = QGen::new(lang, text);
        let node = **rng.pick(&named);
        // bias towards inner nodes
        let node = if node.child_count() == 0 && rng.chance(2, 3) { node.parent().unwrap_or(node) } else { node };
        let depth = rng.below(3);
        // "late partner": an early, captured, unspecific sibling paired with a specific pattern for
        // one of the last siblings of a wide parent — many matches stay in progress at once, which
        // is what makes small match limits steal capture lists.
        let wide: Vec<&&Node> = named.iter().filter(|n| n.named_child_count() >= 4 && !n.is_error()).collect();
        let zw: Vec<&Node> = nodes.iter().filter(|n| n.start_byte() == n.end_byte() && !n.is_error()).collect();
        let body = if !zw.is_empty() && rng.chance(1, 4) {
            // a pattern rooted at a zero-width node (MISSING token, empty rule or external token)
            let z = **rng.pick(&zw);
            if z.is_missing() {
                match rng.below(3) {
                    0 => "(MISSING)".to_string(),
                    1 if !z.is_named() => quote(z.kind()),
                    _ => if z.is_named() { format!("(MISSING {})", z.kind()) } else { format!("(MISSING {})", quote(z.kind())) },
                }
            } else if z.is_named() {
                format!("({})", z.kind())
            } else {
                quote(z.kind())
            }
        } else if !wide.is_empty() && rng.chance(1, 4) {
            let p = **rng.pick(&wide);
            let mut cur = p.walk();
            let kids: Vec<Node> = p.named_children(&mut cur).collect();
            let early = &kids[rng.below(kids.len() / 2)];
            let late = &kids[kids.len() - 1 - rng.below(2)];
            let a = if early.is_error() { "(ERROR)".to_string() } else if early.is_missing() { "(_)".to_string() } else { format!("({})", early.kind()) };
            let bd = 1 + rng.below(2);
            let b = match g.pat(rng, late, bd) {
                Some(b) => b,
                None => "(_)".to_string(),
            };
            g.used_caps.push("c0".to_string());
            g.used_caps.push("c1".to_string());
            g.used_caps.dedup();
            format!("({} {a} @c0 {b} @c1)", p.kind())
        } else {
            g.pat(rng, &node, depth.max(if node.child_count() > 0 { 1 } else { 0 }))?
        };
        // "cross-capture predicate": two captured children of one real parent (in many grammars the
        // second one is guaranteed once the first has matched) and predicates that name the captures in
        // EVERY order of their ids — descending, ascending, repeated, mixed with strings, split over
        // two predicates
        let mut forced_preds: Option<String> = None;
        let two: Vec<&&Node> = named.iter().filter(|n| n.child_count() >= 2 && !n.is_error()).collect();
        let body = if !two.is_empty() && rng.chance(1, 6) {
            let p = **rng.pick(&two);
            let mut cur = p.walk();
            let kids: Vec<(Node, Option<String>)> = {
                let mut v = Vec::new();
                if cur.goto_first_child() {
                    loop {
                        let k = cur.node();
                        if !k.is_error() && !k.is_missing() && !k.is_extra() {
                            v.push((k, cur.field_name().map(|s| s.to_string())));
                        }
                        if !cur.goto_next_sibling() {
                            break;
                        }
                    }
                }
                v
            };
            if kids.len() >= 2 {
                let i = rng.below(kids.len() - 1);
                let j = if rng.chance(3, 4) { kids.len() - 1 } else { rng.range(i + 1, kids.len() - 1) };
                let one = |k: &(Node, Option<String>), rng: &mut Rng| {
                    let base = if k.0.is_named() { format!("({})", k.0.kind()) } else { quote(k.0.kind()) };
                    match &k.1 {
                        Some(f) if rng.chance(1, 2) => format!("{f}: {base}"),
                        _ => base,
                    }
                };
                let a = one(&kids[i], rng);
                let b = one(&kids[j], rng);
                g.used_caps = vec!["c0".to_string(), "c1".to_string()];
                let s = if !leaf_texts.is_empty() { rng.pick(&leaf_texts).clone() } else { "zzz".to_string() };
                let op2 = *rng.pick(&["not-eq?", "not-eq?", "eq?", "any-not-eq?", "any-eq?"]);
                let op1 = *rng.pick(&["not-eq?", "not-eq?", "eq?", "any-not-eq?", "not-match?"]);
                let sq = if op1 == "not-match?" { quote("^zzz$") } else { quote(&s) };
                forced_preds = Some(match rng.below(8) {
                    0 | 1 => format!(" (#{op2} @c1 @c0)"),
                    2 => format!(" (#{op2} @c0 @c1)"),
                    3 => format!(" (#{op2} @r @c0)"),
                    4 => format!(" (#{op2} @c1 @c1) (#{op1} @c0 {sq})"),
                    5 => format!(" (#{op1} @c1 {sq}) (#{op1} @c0 {sq})"),
                    6 => format!(" (#{op1} @c1 {sq}) (#{op2} @c1 @c0)"),
                    _ => format!(" (#{op2} @r @c1) (#{op1} @c0 {sq})"),
                });
                format!("({} {a} @c0 {b} @c1)", p.kind())
            } else {
                body
            }
        } else {
            body
        };
        // a ROOT-LEVEL alternation `[A B] @r`: every branch is a root, the pattern is rooted; the real
        // node's pattern in either position (erroneous documents put such nodes directly under ERROR)
        let body = if rng.chance(1, 8) {
            let other = **rng.pick(&named);
            let ob = if other.is_error() { "(ERROR)".to_string() } else if other.is_missing() { "(_)".to_string() } else { format!("({})", other.kind()) };
            match rng.below(3) {
                0 => format!("[{body} {ob}]"),
                1 => format!("[{ob} {body}]"),
                _ => format!("[{ob} {body} {ob}]"),
            }
        } else {
            body
        };
        // non-rooted (top-level sibling group) patterns: `((A) @r [.] (B) @c1)` — they start on every
        // node whose PARENT intersects the range; @r is on the first sibling
        let pairs: Vec<&&Node> = named.iter().filter(|n| n.named_child_count() >= 2 && !n.is_error()).collect();
        let body = if !pairs.is_empty() && rng.chance(1, 6) {
            let p = **rng.pick(&pairs);
            let mut cur = p.walk();
            let kids: Vec<Node> = p.named_children(&mut cur).filter(|k| !k.is_error() && !k.is_missing()).collect();
            if kids.len() >= 2 {
                let i = rng.below(kids.len() - 1);
                let j = if rng.chance(2, 3) { i + 1 } else { rng.range(i + 1, kids.len() - 1) };
                g.used_caps.push("c1".to_string());
                g.used_caps.dedup();
                // sometimes with an alternation INSIDE the first sibling (dead-end steps before the second root)
                let first = if kids[i].named_child_count() > 0 && rng.chance(1, 3) {
                    let ck = kids[i].named_child(0).map(|c| c.kind().to_string()).unwrap_or_else(|| "_".to_string());
                    if rng.chance(1, 2) { format!("({} [({ck}) (_)])", kids[i].kind()) } else { format!("({} [(_) ({ck})])", kids[i].kind()) }
                } else {
                    format!("({})", kids[i].kind())
                };
                format!("{first} @r{} ({}) @c1", if rng.chance(1, 2) { " ." } else { "" }, kids[j].kind())
            } else {
                format!("{body} @r")
            }
        } else {
            format!("{body} @r")
        };
        // predicates
        let mut preds = String::new();
        let mut caps = g.used_caps.clone();
        caps.push("r".to_string());
        if let Some(fp) = &forced_preds {
            if body.contains("@c0") && body.contains("@c1") {
                preds.push_str(fp);
            }
        } else if rng.chance(3, 5) {
            let np = 1 + rng.below(2);
            for _ in 0..np {
                let c = rng.pick(&caps).clone();
                let s = if !leaf_texts.is_empty() && rng.chance(4, 5) { rng.pick(&leaf_texts).clone() } else { "zzz".to_string() };
                match rng.below(12) {
                    0 => preds.push_str(&format!(" (#eq? @{c} {})", quote(&s))),
                    1 => preds.push_str(&format!(" (#not-eq? @{c} {})", quote(&s))),
                    2 | 3 => preds.push_str(&format!(" (#any-eq? @{c} {})", quote(&s))),
                    4 => preds.push_str(&format!(" (#any-not-eq? @{c} {})", quote(&s))),
                    5 => {
                        let c2 = rng.pick(&caps).clone();
                        let op = *rng.pick(&["eq?", "not-eq?", "any-eq?", "any-not-eq?"]);
                        preds.push_str(&format!(" (#{op} @{c} @{c2})"));
                    }
                    9 | 10 if caps.len() >= 2 => {
                        // two DIFFERENT captures of the pattern, in ascending or descending order of
                        // their ids (= of their first occurrence in the text), `not-` forms twice as often
                        // (they hold for most real matches, so a lost match is visible)
                        let i = rng.below(caps.len());
                        let mut j = rng.below(caps.len() - 1);
                        if j >= i {
                            j += 1;
                        }
                        let op = *rng.pick(&["eq?", "not-eq?", "not-eq?", "any-eq?", "any-not-eq?", "any-not-eq?"]);
                        preds.push_str(&format!(" (#{op} @{} @{})", caps[i], caps[j]));
                    }
                    6 | 7 | 8 => {
                        let op = *rng.pick(&["match?", "not-match?", "any-match?", "any-not-match?"]);
                        let alnum: String = s.chars().filter(|ch| ch.is_ascii_alphanumeric()).take(3).collect();
                        let re = match rng.below(7) {
                            0 => "^[a-z]+$".to_string(),
                            1 => "[0-9]".to_string(),
                            2 => "^[a-c]".to_string(),
                            3 if !alnum.is_empty() => format!("^{alnum}"),
                            4 if !alnum.is_empty() => format!("{alnum}$"),
                            5 if !alnum.is_empty() => format!("^{alnum}$"),
                            _ => if alnum.is_empty() { "a*b?c+".to_string() } else { alnum.clone() },
                        };
                        preds.push_str(&format!(" (#{op} @{c} {})", quote(&re)));
                    }
                    _ => {
                        let op = *rng.pick(&["any-of?", "not-any-of?"]);
                        let mut args = String::new();
                        for _ in 0..(1 + rng.below(3)) {
                            let s2 = if !leaf_texts.is_empty() && rng.chance(3, 4) { rng.pick(&leaf_texts).clone() } else { "zzz".to_string() };
                            args.push(' ');
                            args.push_str(&quote(&s2));
                        }
                        preds.push_str(&format!(" (#{op} @{c}{args})"));
                    }
                }
            }
        }
        q0.push_str(&format!("({body})\n"));
        q.push_str(&format!("({body}{preds})\n"));
    }
    Some((q0, q))
}

// ---------------------------------------------------------------- predicate description for Lean

/// Re-tokenise the predicates of the generated query text (the generator's own output format):
/// emits `pred <pattern> <op> <capidx> (s <hex>)* | (c <capidx>)`.
fn emit_preds(out: &mut impl Write, q: &Query, qtext: &str) {
    let names = q.capture_names();
    for (p, line) in qtext.lines().enumerate() {
        let mut rest = line;
        while let Some(i) = rest.find("(#") {
            let tail = &rest[i + 2..];
            // scan to the matching ')', honouring strings
            let b = tail.as_bytes();
            let mut j = 0;
            let mut instr = false;
            while j < b.len() {
                if instr {
                    if b[j] == b'\\' {
                        j += 1;
                    } else if b[j] == b'"' {
                        instr = false;
                    }
                } else if b[j] == b'"' {
                    instr = true;
                } else if b[j] == b')' {
                    break;
                }
                j += 1;
            }
            let body = &tail[..j.min(tail.len())];
            rest = &tail[j.min(tail.len())..];
            // tokens
            let mut toks: Vec<(char, String)> = Vec::new();
            let cb: Vec<char> = body.chars().collect();
            let mut k = 0;
            while k < cb.len() {
                if cb[k].is_whitespace() {
                    k += 1;
                } else if cb[k] == '"' {
                    let mut s = String::new();
                    k += 1;
                    while k < cb.len() && cb[k] != '"' {
                        if cb[k] == '\\' && k + 1 < cb.len() {
                            k += 1;
                            s.push(match cb[k] {
                                'n' => '\n',
                                'r' => '\r',
                                't' => '\t',
                                '0' => '\0',
                                c => c,
                            });
                        } else {
                            s.push(cb[k]);
                        }
                        k += 1;
                    }
                    k += 1;
                    toks.push(('s', s));
                } else {
                    let mut s = String::new();
                    while k < cb.len() && !cb[k].is_whitespace() {
                        s.push(cb[k]);
                        k += 1;
                    }
                    if let Some(n) = s.strip_prefix('@') {
                        toks.push(('c', n.to_string()));
                    } else {
                        toks.push(('o', s));
                    }
                }
            }
            if toks.is_empty() {
                continue;
            }
            let mut l = format!("pred {} {}", p, toks[0].1);
            for (k, v) in &toks[1..] {
                match k {
                    'c' => write!(l, " c {}", names.iter().position(|n| n == v).map(|x| x as i64).unwrap_or(-1)).unwrap(),
                    _ => write!(l, " s {}", if v.is_empty() { "-".to_string() } else { hex(v.as_bytes()) }).unwrap(),
                }
            }
            writeln!(out, "{l}").unwrap();
        }
    }
}

// ---------------------------------------------------------------- one case

fn rand_point_range(rng: &mut Rng, text: &[u8], bounds: &[usize], zero_width: &[usize]) -> (usize, usize) {
    let n = text.len();
    let pos = |rng: &mut Rng| -> usize {
        // positions of zero-width nodes (MISSING tokens, empty rules / external tokens) exactly:
        // the range conventions for them are the delicate part of range_intersects / range_within
        if !zero_width.is_empty() && rng.chance(2, 5) {
            return *rng.pick(zero_width);
        }
        match rng.below(5) {
            0 => rng.below(n + 3),
            _ if !bounds.is_empty() => (*rng.pick(bounds) + rng.below(3)).saturating_sub(1),
            _ => rng.below(n + 1),
        }
    };
    let a = pos(rng);
    let b = match rng.below(6) {
        0 => a, // empty
        1 => a + 1,
        _ => pos(rng),
    };
    if a <= b {
        (a, b)
    } else {
        (b, a)
    }
}

fn pt_at(text: &[u8], i: usize) -> Point {
    if i <= text.len() {
        point_at(text, i)
    } else {
        let p = point_at(text, text.len());
        Point::new(p.row, p.column + (i - text.len()))
    }
}

struct Stats {
    cases: usize,
    compile_fail: usize,
    with_match: usize,
    with_preds: usize,
    checks: usize,
}

/// Rootedness read off the query text (one pattern per line, wrapped in one pair of parentheses):
/// a pattern is rooted iff it has exactly ONE top-level node pattern (a node, a literal, `_` or an
/// alternation); captures, anchors and predicates do not count.
fn expected_rooted(q: &str) -> Vec<bool> {
    let mut res = Vec::new();
    for line in q.lines() {
        let b = line.trim().as_bytes();
        if b.is_empty() {
            continue;
        }
        let mut depth = 0i32;
        let mut count = 0;
        let mut i = 0;
        let mut in_str = false;
        let wrapped = b[0] == b'(' && {
            // is the first `(` a wrapper (followed by a node / group / alternation start)?
            let mut j = 1;
            while j < b.len() && b[j] == b' ' {
                j += 1;
            }
            j < b.len() && (b[j] == b'(' || b[j] == b'[' || b[j] == b'"' || b[j] == b'_')
        };
        let base = if wrapped { 1 } else { 0 };
        while i < b.len() {
            let c = b[i];
            if in_str {
                if c == b'\\' {
                    i += 1;
                } else if c == b'"' {
                    in_str = false;
                }
            } else {
                match c {
                    b'"' => {
                        in_str = true;
                        if depth == base {
                            count += 1;
                        }
                    }
                    b'(' | b'[' => {
                        if depth == base && !(c == b'(' && i + 1 < b.len() && b[i + 1] == b'#') {
                            count += 1;
                        }
                        depth += 1;
                    }
                    b')' | b']' => depth -= 1,
                    b'_' if depth == base && (i == 0 || b[i - 1] == b' ' || b[i - 1] == b'(') && (i + 1 >= b.len() || b[i + 1] == b' ' || b[i + 1] == b')') => count += 1,
                    _ => {}
                }
            }
            i += 1;
        }
        res.push(count == 1);
    }
    res
}

fn emit_case(out: &mut impl Write, cid: &str, lang_id: &str, lang: &Language, parser: &mut Parser, text: &[u8], q0t: &str, qt: &str, caseseed: u64, st: &mut Stats) -> bool {
    let tree = match parser.parse(text, None) {
        Some(t) => t,
        None => return false,
    };
    let q0 = match Query::new(lang, q0t) {
        Ok(q) => q,
        Err(_) => {
            st.compile_fail += 1;
            return false;
        }
    };
    let q = match Query::new(lang, qt) {
        Ok(q) => q,
        Err(_) => {
            st.compile_fail += 1;
            return false;
        }
    };
    let thorough = tier_is_thorough();
    let mut rng = Rng::new(caseseed);
    let mut ids = NodeIds::new(&tree);
    let nodes = all_nodes(&tree);
    let mut bounds: Vec<usize> = nodes.iter().flat_map(|n| [n.start_byte(), n.end_byte()]).collect();
    bounds.sort();
    bounds.dedup();
    let mut zero_width: Vec<usize> = nodes.iter().filter(|n| n.start_byte() == n.end_byte()).map(|n| n.start_byte()).collect();
    zero_width.sort();
    zero_width.dedup();
    writeln!(out, "spec {cid} {lang_id} {} {} {} {caseseed}", if text.is_empty() { "-".into() } else { hex(text) }, hex(q0t.as_bytes()), hex(qt.as_bytes())).unwrap();
    writeln!(out, "case {cid}").unwrap();
    writeln!(out, "text {}", hex(text)).unwrap();
    writeln!(out, "query {}", hex(q0t.as_bytes())).unwrap();
    let expected = expected_rooted(q0t);
    for p in 0..q0.pattern_count() {
        // `pat <i> <is_pattern_rooted says> <the pattern text says: exactly one top-level node>`
        let exp = expected.get(p).copied().unwrap_or(true);
        writeln!(out, "pat {p} {} {}", if q0.is_pattern_rooted(p) { 1 } else { 0 }, if exp { 1 } else { 0 }).unwrap();
    }
    let none = Cfg::default();
    let mut cur = QueryCursor::new();
    let (u, _) = run_matches(&mut cur, &q0, &tree, text, &none, &mut ids, None);
    let mut cur2 = QueryCursor::new();
    let (uc, _) = run_captures(&mut cur2, &q0, &tree, text, &none, &mut ids, None, None);
    emit_m(out, "U", &u);
    emit_c(out, "UC", &uc);
    writeln!(out, "chk a U UC n 0 0 0 0 0 0").unwrap();
    st.checks += 1;
    if !u.is_empty() {
        st.with_match += 1;
    }
    // (c) re-exec on used cursors (after partial consumption) and histories
    {
        let take = if u.len() > 1 { Some(rng.range(1, u.len())) } else { None };
        let _ = run_matches(&mut cur2, &q0, &tree, text, &none, &mut ids, take);
        let (x, _) = run_matches(&mut cur2, &q0, &tree, text, &none, &mut ids, None);
        emit_m(out, "X", &x);
        writeln!(out, "chk c U X").unwrap();
        let takec = if uc.len() > 1 { Some(rng.range(1, uc.len())) } else { None };
        let _ = run_captures(&mut cur, &q0, &tree, text, &none, &mut ids, None, takec);
        let (xc, _) = run_captures(&mut cur, &q0, &tree, text, &none, &mut ids, None, None);
        emit_c(out, "XC", &xc);
        writeln!(out, "chk c UC XC").unwrap();
        st.checks += 2;
    }
    // (b) ranges; the cursor `cur` is reused for all of them (history), then checked against U again
    let nr = if thorough { 8 } else { 4 };
    for i in 0..nr {
        let (mut a, mut b) = rand_point_range(&mut rng, text, &bounds, &zero_width);
        let mut mode_contain = rng.chance(1, 3);
        let mut use_point = rng.chance(1, 2);
        if let Ok(o) = std::env::var("C11_RANGE") {
            // debugging aid: "<i|w> <b|p> <start> <end>" overrides every generated range
            let f: Vec<&str> = o.split_whitespace().collect();
            if f.len() == 4 {
                mode_contain = f[0] == "w";
                use_point = f[1] == "p";
                a = f[2].parse().unwrap_or(a);
                b = f[3].parse().unwrap_or(b);
            }
        }
        let mut cfg = Cfg::default();
        let (pa, pb) = (pt_at(text, a), pt_at(text, b));
        let kind;
        let rdesc;
        match (mode_contain, use_point) {
            (false, false) => {
                cfg.byte = Some((a, b));
                kind = "i b";
                rdesc = format!("{a} {b} 0 0 0 0");
            }
            (false, true) => {
                cfg.point = Some((pa, pb));
                kind = "i p";
                rdesc = format!("0 0 {} {} {} {}", pa.row, pa.column, pb.row, pb.column);
            }
            (true, false) => {
                cfg.cbyte = Some((a, b));
                kind = "w b";
                rdesc = format!("{a} {b} 0 0 0 0");
            }
            (true, true) => {
                cfg.cpoint = Some((pa, pb));
                kind = "w p";
                rdesc = format!("0 0 {} {} {} {}", pa.row, pa.column, pb.row, pb.column);
            }
        }
        let (r, _) = run_matches(&mut cur, &q0, &tree, text, &cfg, &mut ids, None);
        let (rc, _) = run_captures(&mut cur2, &q0, &tree, text, &cfg, &mut ids, None, None);
        emit_m(out, &format!("R{i}"), &r);
        emit_c(out, &format!("RC{i}"), &rc);
        {
            // (p) the same restriction expressed in the other unit (bytes <-> points of the same
            // positions) must select the same matches and captures
            let mut other = Cfg::default();
            match (mode_contain, use_point) {
                (false, false) => other.point = Some((pa, pb)),
                (false, true) => other.byte = Some((a, b)),
                (true, false) => other.cpoint = Some((pa, pb)),
                (true, true) => other.cbyte = Some((a, b)),
            }
            let (q, _) = run_matches(&mut cur, &q0, &tree, text, &other, &mut ids, None);
            let (qc, _) = run_captures(&mut cur2, &q0, &tree, text, &other, &mut ids, None, None);
            emit_m(out, &format!("Q{i}"), &q);
            emit_c(out, &format!("QC{i}"), &qc);
            writeln!(out, "chk p R{i} Q{i} {kind} {a} {b}").unwrap();
            writeln!(out, "chk p RC{i} QC{i} {kind} {a} {b}").unwrap();
            st.checks += 2;
        }
        writeln!(out, "chk b U R{i} {kind} {rdesc}").unwrap();
        if mode_contain {
            writeln!(out, "chk a R{i} RC{i} n 0 0 0 0 0 0").unwrap();
        } else {
            writeln!(out, "chk a R{i} RC{i} {} {rdesc}", if use_point { "p" } else { "b" }).unwrap();
        }
        st.checks += 2;
    }
    {
        let (x, _) = run_matches(&mut cur, &q0, &tree, text, &none, &mut ids, None);
        emit_m(out, "X2", &x);
        writeln!(out, "chk c U X2").unwrap();
        st.checks += 1;
    }
    // (g) max start depth
    {
        let d = rng.below(5) as u32;
        let cfg = Cfg { depth: Some(d), ..Cfg::default() };
        let (dm, _) = run_matches(&mut cur, &q0, &tree, text, &cfg, &mut ids, None);
        let (dc, _) = run_captures(&mut cur2, &q0, &tree, text, &cfg, &mut ids, None, None);
        emit_m(out, "D", &dm);
        emit_c(out, "DC", &dc);
        writeln!(out, "chk g U D {d}").unwrap();
        writeln!(out, "chk a D DC n 0 0 0 0 0 0").unwrap();
        st.checks += 2;
    }
    // (d) match limits
    let nl = if thorough { 5 } else { 3 };
    for i in 0..nl {
        let k = *rng.pick(&[1u32, 1, 2, 2, 3, 3, 4, 4, 8, 16, 64]);
        let cfg = Cfg { limit: Some(k), ..Cfg::default() };
        let (l, ex, lc, exc) = if i % 2 == 0 {
            let mut fc = QueryCursor::new();
            let mut fc2 = QueryCursor::new();
            let (l, ex) = run_matches(&mut fc, &q0, &tree, text, &cfg, &mut ids, None);
            let (lc, exc) = run_captures(&mut fc2, &q0, &tree, text, &cfg, &mut ids, None, None);
            (l, ex, lc, exc)
        } else {
            let (l, ex) = run_matches(&mut cur, &q0, &tree, text, &cfg, &mut ids, None);
            let (lc, exc) = run_captures(&mut cur2, &q0, &tree, text, &cfg, &mut ids, None, None);
            // the same limit on a fresh cursor must give the same stream as on the reused one
            let mut fc = QueryCursor::new();
            let (lf, _) = run_matches(&mut fc, &q0, &tree, text, &cfg, &mut ids, None);
            emit_m(out, &format!("LF{i}"), &lf);
            emit_m(out, &format!("LR{i}"), &l);
            writeln!(out, "chk cl LF{i} LR{i} {k}").unwrap();
            st.checks += 1;
            (l, ex, lc, exc)
        };
        emit_m(out, &format!("L{i}"), &l);
        emit_c(out, &format!("LC{i}"), &lc);
        writeln!(out, "chk d U L{i} {} {k} m", if ex { 1 } else { 0 }).unwrap();
        writeln!(out, "chk d UC LC{i} {} {k} c", if exc { 1 } else { 0 }).unwrap();
        st.checks += 2;
    }
    // (d') the same patterns WITHOUT the root capture @r: when every state carries the root capture,
    // all pending states tie on their earliest capture and a state that needs a capture list mostly
    // finds itself as the steal victim; without it the earliest-capturing *other* state is the victim,
    // which is the ordinary stealing path of the cursor.
    let q0nr_text = q0t.replace(" @r)", ")");
    if let Ok(qn) = Query::new(lang, &q0nr_text) {
        let (v, _) = run_matches(&mut cur, &qn, &tree, text, &none, &mut ids, None);
        let (vc, _) = run_captures(&mut cur2, &qn, &tree, text, &none, &mut ids, None, None);
        emit_m(out, "V", &v);
        emit_c(out, "VC", &vc);
        for i in 0..nl {
            let k = *rng.pick(&[1u32, 2, 2, 3, 3, 4, 4, 5, 6, 8]);
            let cfg = Cfg { limit: Some(k), ..Cfg::default() };
            // fresh cursors: a cursor that already allocated more capture lists in an earlier run
            // keeps using them, so a lower limit set afterwards never bites (see notes/C11.md)
            let mut fc = QueryCursor::new();
            let mut fc2 = QueryCursor::new();
            let (l, ex) = run_matches(&mut fc, &qn, &tree, text, &cfg, &mut ids, None);
            let (lc, exc) = run_captures(&mut fc2, &qn, &tree, text, &cfg, &mut ids, None, None);
            emit_m(out, &format!("W{i}"), &l);
            emit_c(out, &format!("WC{i}"), &lc);
            writeln!(out, "chk d V W{i} {} {k} m", if ex { 1 } else { 0 }).unwrap();
            writeln!(out, "chk d VC WC{i} {} {k} c", if exc { 1 } else { 0 }).unwrap();
            st.checks += 2;
        }
    }
    // (c') after runs with small limits: an unlimited run on the same cursor equals the fresh one,
    // and the limit flag of the earlier runs is gone
    {
        let (z, exz) = run_matches(&mut cur, &q0, &tree, text, &none, &mut ids, None);
        emit_m(out, "Z", &z);
        writeln!(out, "chk c U Z").unwrap();
        writeln!(out, "chk fl 0 {}", if exz { 1 } else { 0 }).unwrap();
        st.checks += 2;
    }
    // (e) removal mid-stream
    if !uc.is_empty() {
        let pos = rng.below(uc.len());
        let (e, _) = run_captures(&mut cur2, &q0, &tree, text, &none, &mut ids, Some(pos), None);
        emit_c(out, "E", &e);
        writeln!(out, "chk e UC E {pos}").unwrap();
        st.checks += 1;
    }
    // (f) predicates
    if qt != q0t {
        st.with_preds += 1;
        emit_preds(out, &q, qt);
        let (p, _) = run_matches(&mut cur, &q, &tree, text, &none, &mut ids, None);
        let (pc, _) = run_captures(&mut cur2, &q, &tree, text, &none, &mut ids, None, None);
        emit_m(out, "P", &p);
        emit_c(out, "PC", &pc);
        writeln!(out, "chk f U P").unwrap();
        writeln!(out, "chk h P PC").unwrap();
        // predicates UNDER A RANGE whose start falls between the captures of a match (the first
        // capture ends at / before the range start, a later one lies inside): the predicate-filtered
        // match stream is the filter of the raw stream under the same range (f), and the filtered
        // capture stream agrees with the filtered match stream (hr)
        let npr = if thorough { 4 } else { 2 };
        for k in 0..npr {
            let multi: Vec<&M> = u.iter().filter(|m| m.caps.len() >= 2).collect();
            let (a, b) = if !multi.is_empty() && rng.chance(3, 4) {
                let m = *rng.pick(&multi);
                let mut starts: Vec<usize> = m.caps.iter().map(|c| c.r[0]).collect();
                let mut ends: Vec<usize> = m.caps.iter().map(|c| c.r[1]).collect();
                starts.sort();
                ends.sort();
                // at / after the end of the earliest-ending capture, at most at the start of the last one
                let lo = ends[0];
                let hi = *starts.last().unwrap();
                let a = if lo <= hi { rng.range(lo, hi) } else { lo };
                let b = if rng.chance(1, 2) { text.len() } else { rng.range(a, text.len()) };
                (a, b.max(a))
            } else {
                rand_point_range(&mut rng, text, &bounds, &zero_width)
            };
            let use_point = rng.chance(1, 3);
            let mut cfg = Cfg::default();
            let (pa, pb) = (pt_at(text, a), pt_at(text, b));
            let (kind, rdesc) = if use_point {
                cfg.point = Some((pa, pb));
                ("p", format!("0 0 {} {} {} {}", pa.row, pa.column, pb.row, pb.column))
            } else {
                cfg.byte = Some((a, b));
                ("b", format!("{a} {b} 0 0 0 0"))
            };
            let mut c3 = QueryCursor::new();
            let (rm, _) = run_matches(&mut c3, &q0, &tree, text, &cfg, &mut ids, None);
            let (pr, _) = run_matches(&mut c3, &q, &tree, text, &cfg, &mut ids, None);
            let mut c4 = QueryCursor::new();
            let (prc, _) = run_captures(&mut c4, &q, &tree, text, &cfg, &mut ids, None, None);
            emit_m(out, &format!("RM{k}"), &rm);
            emit_m(out, &format!("PR{k}"), &pr);
            emit_c(out, &format!("PRC{k}"), &prc);
            writeln!(out, "chk f RM{k} PR{k}").unwrap();
            writeln!(out, "chk hr PR{k} PRC{k} RM{k} {kind} {rdesc}").unwrap();
            st.checks += 2;
        }
        // the text provider may hand out a node's text in pieces: same result
        let mut fc = QueryCursor::new();
        let pk = run_matches_chunked(&mut fc, &q, &tree, text, &mut ids);
        emit_m(out, "PK", &pk);
        writeln!(out, "chk c P PK").unwrap();
        st.checks += 3;
    }
    writeln!(out, "endcase").unwrap();
    st.cases += 1;
    true
}

fn parse_spec(line: &str) -> Option<(String, Vec<u8>, String, String, u64)> {
    let line = line.split('#').next().unwrap_or("");
    let parts: Vec<&str> = line.split_whitespace().collect();
    let parts = if parts.len() == 6 { &parts[1..] } else { &parts[..] };
    if parts.len() != 5 {
        return None;
    }
    let text = if parts[1] == "-" { vec![] } else { unhex(parts[1]) };
    let q0 = String::from_utf8(unhex(parts[2])).ok()?;
    let q = String::from_utf8(unhex(parts[3])).ok()?;
    Some((parts[0].to_string(), text, q0, q, parts[4].parse().ok()?))
}

fn main() {
    limit_resources();
    let args: Vec<String> = std::env::args().collect();
    let out_path = args.get(1).expect("usage: c11 <ops-file> [--spec file] [lang...]").clone();
    let mut out = std::io::BufWriter::new(std::fs::File::create(&out_path).unwrap());
    let mut st = Stats { cases: 0, compile_fail: 0, with_match: 0, with_preds: 0, checks: 0 };
    let mut langs_cache: HashMap<String, zoo::Built> = HashMap::new();
    let mut run_specs = |out: &mut std::io::BufWriter<std::fs::File>, src: &str, tag: &str, st: &mut Stats| {
        for (i, line) in src.lines().enumerate() {
            if let Some((lang, text, q0, q, seed)) = parse_spec(line) {
                if !langs_cache.contains_key(&lang) {
                    match zoo::load(&lang) {
                        Ok(b) => {
                            langs_cache.insert(lang.clone(), b);
                        }
                        Err(e) => {
                            eprintln!("skip {lang}: {e}");
                            continue;
                        }
                    }
                }
                let b = &langs_cache[&lang];
                let mut parser = Parser::new();
                parser.set_language(&b.language).unwrap();
                emit_case(out, &format!("{lang}-{tag}{i}"), &lang, &b.language, &mut parser, &text, &q0, &q, seed, st);
            }
        }
    };
    // Behavioural probe (replaces a source anchor): which range test does the cursor under test
    // implement for captures?  A zero-width root at the start of the (default) range is reported by
    // captures() since commit 5d2fccd and was dropped before.  The driver selects the matching port.
    {
        let probe = (|| -> Option<bool> {
            let b = zoo::load("lst").ok()?;
            let mut parser = Parser::new();
            parser.set_language(&b.language).ok()?;
            let tree = parser.parse(b"", None)?;
            let q = Query::new(&b.language, "((program) @r)").ok()?;
            let mut cur = QueryCursor::new();
            let mut n = 0;
            let mut it = cur.captures(&q, tree.root_node(), &b""[..]);
            while let Some(_) = it.next() {
                n += 1;
            }
            Some(n >= 1)
        })();
        match probe {
            Some(true) => writeln!(out, "probe node_precedes_range new").unwrap(),
            Some(false) => writeln!(out, "probe node_precedes_range old").unwrap(),
            None => writeln!(out, "probe node_precedes_range unknown").unwrap(),
        }
    }
    if args.get(2).map(|s| s == "--spec").unwrap_or(false) {
        let specs = std::fs::read_to_string(&args[3]).unwrap();
        run_specs(&mut out, &specs, "r", &mut st);
        out.flush().unwrap();
        eprintln!("c11: replayed {} cases", st.cases);
        return;
    }
    if let Some(corpus) = zoo_corpus("c11") {
        run_specs(&mut out, &corpus, "c", &mut st);
    }
    let only: Vec<String> = args[2..].to_vec();
    let mut rng = Rng::new(seed_from_env());
    let thorough = tier_is_thorough();
    let default_langs = ["lst", "arith", "jsonish", "stmt", "fx_readme_grammar", "fx_aliased_rules", "fx_inline_rules", "fx_extra_non_terminals", "fx_immediate_tokens"];
    let langs: Vec<String> = if !only.is_empty() {
        only
    } else if thorough {
        // a fixed list (the zoo grows while other properties are built; a check must not change with it)
        let allow: &[&str] = &["arith","fx_aliased_inlined_rules","fx_aliased_rules","fx_aliased_token_rules","fx_aliased_unit_reductions","fx_anonymous_error","fx_associativity_left","fx_associativity_right","fx_depends_on_column","fx_dynamic_precedence","fx_epsilon_external_tokens","fx_external_and_internal_tokens","fx_external_tokens","fx_external_unicode_column_alignment","fx_extra_non_terminals","fx_extra_non_terminals_with_shared_rules","fx_immediate_tokens","fx_inline_rules","fx_inlined_aliased_rules","fx_lexical_conflicts_due_to_state_merging","fx_named_rule_aliased_as_anonymous","fx_nested_inlined_rules","fx_next_sibling_from_zwt","fx_precedence_on_subsequence","fx_readme_grammar","fx_reserved_words","fx_unicode_classes","jsonish","lst","stmt"];
        zoo::list().into_iter().filter(|l| allow.contains(&l.as_str())).collect()
    } else {
        default_langs.iter().map(|s| s.to_string()).filter(|s| zoo::zoo_dir(s).join("grammar.json").exists()).collect()
    };
    let (docs_per_lang, q_per_doc) = if thorough { (30, 20) } else { (6, 7) };
    let mut n = 0usize;
    for id in langs {
        let b = match zoo::load(&id) {
            Ok(b) => b,
            Err(e) => {
                eprintln!("skip {id}: {e}");
                continue;
            }
        };
        let gg = gen::GrammarGen::new(&b.grammar_json, zoo::read_zoo_file(&id, "samples.json").as_deref());
        let mut parser = Parser::new();
        parser.set_language(&b.language).unwrap();
        for d in 0..docs_per_lang {
            let budget = [6, 15, 30, 60][d % 4];
            let toks = gg.sentence(&mut rng, budget);
            let (mut text, _bounds) = gg.render(&toks, &mut rng);
            if d % 3 == 2 {
                text = gen::mutate_bytes(&mut rng, &text);
            } else if d % 3 == 1 && text.len() > 4 {
                // truncated at a random position: dropped closers / operands make the parser insert
                // MISSING (zero-width) tokens
                let cut = rng.range(text.len() / 2, text.len() - 1);
                text.truncate(cut);
            }
            if text.len() > 600 {
                text.truncate(600);
            }
            let tree = match parser.parse(&text, None) {
                Some(t) => t,
                None => continue,
            };
            for _ in 0..q_per_doc {
                let mut qr = rng.fork();
                let caseseed = rng.next() >> 1;
                if let Some((q0, q)) = gen_query(&mut qr, &b.language, &tree, &text) {
                    n += 1;
                    emit_case(&mut out, &format!("{id}-{n}"), &id, &b.language, &mut parser, &text, &q0, &q, caseseed, &mut st);
                }
            }
        }
    }
    out.flush().unwrap();
    eprintln!(
        "c11: wrote {} cases ({} with >=1 match, {} with predicates, {} query compile failures skipped, {} checks) to {out_path}",
        st.cases, st.with_match, st.with_preds, st.compile_fail, st.checks
    );
}
