//! C10 explorer: real trees, real `ts_tree_edit`, full subtree dumps before/after each edit.
//! usage: c10 <ops-file> [--spec <file>] [lang...]
//! A history is `spec <case-prefix> <lang> <texthex|-> <start,old_end,inshex|...>`; every step of a
//! history becomes one case `<prefix>.<k>` for the Lean driver `tsv-c10`.
use std::io::Write;
use tree_sitter::Parser;
use tsv_harness::*;

fn emit_history(out: &mut impl Write, prefix: &str, lang: &str, parser: &mut Parser, text: &[u8], edits: &[TextEdit]) -> usize {
    let mut tree = match parser.parse(text, None) {
        Some(t) => t,
        None => return 0,
    };
    let mut cur = text.to_vec();
    let spec_edits: Vec<String> = edits.iter().map(|e| format!("{},{},{}", e.start, e.old_end, if e.ins.is_empty() { "-".to_string() } else { hex(&e.ins) })).collect();
    let mut n = 0;
    for (k, te) in edits.iter().enumerate() {
        if te.start > te.old_end || te.old_end > cur.len() {
            break;
        }
        let new = te.apply(&cur);
        let ie = te.input_edit(&cur, &new);
        let before = dump_tree(&tree);
        // stand-alone helpers (ts_node_edit, ts_point_edit, ts_range_edit) on the same edit
        let mut helper_lines: Vec<String> = Vec::new();
        {
            let mut cursor = tree.walk();
            let mut seen = 0;
            'walk: loop {
                let node = cursor.node();
                if seen < 48 {
                    let mut n2 = node;
                    n2.edit(&ie);
                    helper_lines.push(format!("hn {} {} {} {} {} {}", node.start_byte(), node.start_position().row, node.start_position().column,
                        n2.start_byte(), n2.start_position().row, n2.start_position().column));
                    let mut r = node.range();
                    ie.edit_range(&mut r);
                    helper_lines.push(format!("hr {} {} {} {} {} {} {} {} {} {} {} {}", node.start_byte(), node.end_byte(),
                        node.start_position().row, node.start_position().column, node.end_position().row, node.end_position().column,
                        r.start_byte, r.end_byte, r.start_point.row, r.start_point.column, r.end_point.row, r.end_point.column));
                    seen += 1;
                }
                if cursor.goto_first_child() { continue; }
                loop {
                    if cursor.goto_next_sibling() { break; }
                    if !cursor.goto_parent() { break 'walk; }
                }
            }
            // stand-alone range edits on synthetic ranges around the 32-bit sentinels (open end, ends that
            // the shift pushes past 2^32): judged against range_edit_sat
            {
                let m = u32::MAX as usize;
                let d = ie.new_end_byte.saturating_sub(ie.old_end_byte);
                let pt = |b: usize| tree_sitter::Point { row: 0, column: b.min(1000) };
                let cands: Vec<(usize, usize)> = vec![
                    (0, m), (ie.old_end_byte, m), (6.min(cur.len()), m - 3), (0, m - 1), (m - 10, m - 2),
                    (0, m - d), (0, (m - d).saturating_sub(1)), (1, m.saturating_sub(d / 2 + 1)), (m - 1, m), (m - d.min(m), m - d.min(m)),
                ];
                for (sb, eb) in cands {
                    if sb > eb { continue; }
                    let mut r = tree_sitter::Range { start_byte: sb, end_byte: eb, start_point: pt(sb), end_point: if eb == m { tree_sitter::Point { row: m, column: m } } else { pt(eb) } };
                    let r0 = r;
                    ie.edit_range(&mut r);
                    helper_lines.push(format!("hr {} {} {} {} {} {} {} {} {} {} {} {}", r0.start_byte, r0.end_byte,
                        r0.start_point.row, r0.start_point.column, r0.end_point.row, r0.end_point.column,
                        r.start_byte, r.end_byte, r.start_point.row, r.start_point.column, r.end_point.row, r.end_point.column));
                }
            }
            for k in 0..6 {
                let b = (cur.len() * k) / 5;
                let mut p = point_at(&cur, b);
                let mut bb = b;
                ie.edit_point(&mut p, &mut bb);
                let p0 = point_at(&cur, b);
                helper_lines.push(format!("hp {} {} {} {} {} {}", b, p0.row, p0.column, bb, p.row, p.column));
            }
        }
        tree.edit(&ie);
        let after = dump_tree(&tree);
        let cid = format!("{prefix}.{k}");
        writeln!(out, "spec {cid} {lang} {} {}", if text.is_empty() { "-".to_string() } else { hex(text) }, spec_edits[..=k].join("|")).unwrap();
        writeln!(out, "case {cid}").unwrap();
        writeln!(out, "text {}", hex(&cur)).unwrap();
        writeln!(out, "text2 {}", hex(&new)).unwrap();
        writeln!(out, "edit {}", fmt_edit(&ie)).unwrap();
        writeln!(out, "before\n{before}").unwrap();
        writeln!(out, "after\n{after}").unwrap();
        for h in &helper_lines {
            writeln!(out, "{h}").unwrap();
        }
        writeln!(out, "run").unwrap();
        cur = new;
        n += 1;
    }
    n
}

fn parse_spec(line: &str) -> Option<(String, Vec<u8>, Vec<TextEdit>)> {
    // "<lang> <texthex|-> <edits>"  (an optional leading case id is tolerated)
    let parts: Vec<&str> = line.split_whitespace().collect();
    let parts = if parts.len() == 4 { &parts[1..] } else { &parts[..] };
    if parts.len() != 3 {
        return None;
    }
    let text = if parts[1] == "-" { vec![] } else { unhex(parts[1]) };
    let mut edits = Vec::new();
    for e in parts[2].split('|') {
        let f: Vec<&str> = e.split(',').collect();
        edits.push(TextEdit { start: f[0].parse().ok()?, old_end: f[1].parse().ok()?, ins: if f[2] == "-" { vec![] } else { unhex(f[2]) } });
    }
    Some((parts[0].to_string(), text, edits))
}

fn main() {
    limit_resources();
    let args: Vec<String> = std::env::args().collect();
    let out_path = args.get(1).expect("usage: c10 <ops-file> [--spec file] [lang...]").clone();
    let mut out = std::io::BufWriter::new(std::fs::File::create(&out_path).unwrap());
    let mut case_no = 0usize;
    if args.get(2).map(|s| s == "--spec").unwrap_or(false) {
        let specs = std::fs::read_to_string(&args[3]).unwrap();
        for (i, line) in specs.lines().enumerate() {
            if let Some((lang, text, edits)) = parse_spec(line) {
                let b = zoo::load(&lang).expect("language");
                let mut parser = Parser::new();
                parser.set_language(&b.language).unwrap();
                case_no += emit_history(&mut out, &format!("{lang}-r{i}"), &lang, &mut parser, &text, &edits);
            }
        }
        out.flush().unwrap();
        eprintln!("c10: replayed {case_no} cases");
        return;
    }
    let only: Vec<String> = args[2..].to_vec();
    let mut rng = Rng::new(seed_from_env());
    let thorough = tier_is_thorough();
    let (docs_per_lang, hist_per_doc) = if thorough { (60, 25) } else { (10, 8) };
    // corpus of past failures / hand-picked boundary cases first
    if let Some(corpus) = zoo_corpus("c10") {
        for (i, line) in corpus.lines().enumerate() {
            if let Some((lang, text, edits)) = parse_spec(line) {
                if let Ok(b) = zoo::load(&lang) {
                    let mut parser = Parser::new();
                    parser.set_language(&b.language).unwrap();
                    case_no += emit_history(&mut out, &format!("{lang}-c{i}"), &lang, &mut parser, &text, &edits);
                }
            }
        }
    }
    let langs: Vec<String> = if only.is_empty() { zoo::list() } else { only };
    let mut hist_no = 0usize;
    for id in langs {
        let b = match zoo::load(&id) {
            Ok(b) => b,
            Err(e) => {
                eprintln!("skip {id}: {e}");
                continue;
            }
        };
        let gg = gen::GrammarGen::new(&b.grammar_json, zoo::read_zoo_file(&id, "samples.json").as_deref());
        let mut parser = Parser::new();
        parser.set_language(&b.language).unwrap();
        for d in 0..docs_per_lang {
            let budget = [5, 20, 60, 200][d % 4];
            let toks = gg.sentence(&mut rng, budget);
            let (mut text, bounds) = gg.render(&toks, &mut rng);
            if d % 5 == 4 {
                text = gen::mutate_bytes(&mut rng, &text);
            }
            let mut alphabet: Vec<Vec<u8>> = toks.iter().take(12).map(|t| t.text.clone().into_bytes()).collect();
            alphabet.extend([b" ".to_vec(), b"\n".to_vec(), b"x".to_vec(), b"(".to_vec(), "é".as_bytes().to_vec(), b"\n\n".to_vec()]);
            let alpha_refs: Vec<&[u8]> = alphabet.iter().map(|v| v.as_slice()).collect();
            // targeted families: inline-leaf limits (padding rows 15/16, padding/size bytes 254/255),
            // then an ordinary edit on top, so that promotion inline -> heap and its aftermath are exercised
            if !bounds.is_empty() && d % 2 == 0 {
                for fam in 0..3 {
                    let at = *rng.pick(&bounds);
                    let ins: Vec<u8> = match fam {
                        0 => vec![b'\n'; rng.range(14, 17)],
                        1 => vec![b' '; rng.range(253, 257)],
                        _ => toks.iter().find(|t| !t.text.is_empty()).map(|t| t.text.as_bytes()[..1].repeat(rng.range(253, 257))).unwrap_or_else(|| vec![b'x'; 255]),
                    };
                    let e1 = TextEdit { start: at.min(text.len()), old_end: at.min(text.len()), ins };
                    let t1 = e1.apply(&text);
                    let e2 = random_edit(&mut rng, &t1, &bounds, &alpha_refs);
                    hist_no += 1;
                    case_no += emit_history(&mut out, &format!("{id}-{hist_no}"), &id, &mut parser, &text, &[e1, e2]);
                }
            }
            // family: trees parsed with included ranges (stored ranges must move with ts_range_edit,
            // incl. ranges ending at UINT32_MAX and edits inside / between / before ranges)
            if bounds.len() >= 4 && d % 3 == 1 {
                for _ in 0..2 {
                    let mut cuts: Vec<usize> = (0..4).map(|_| *rng.pick(&bounds)).collect();
                    cuts.sort();
                    cuts.dedup();
                    let mut ranges = Vec::new();
                    let mut k = 0;
                    while k + 1 < cuts.len() {
                        let (a, b) = (cuts[k].min(text.len()), cuts[k + 1].min(text.len()));
                        if a < b {
                            ranges.push(tree_sitter::Range { start_byte: a, end_byte: b, start_point: point_at(&text, a), end_point: point_at(&text, b) });
                        }
                        k += 2;
                    }
                    if rng.chance(1, 3) {
                        if let Some(last) = ranges.last_mut() {
                            last.end_byte = u32::MAX as usize;
                            last.end_point = tree_sitter::Point { row: u32::MAX as usize, column: u32::MAX as usize };
                        }
                    }
                    if ranges.is_empty() || parser.set_included_ranges(&ranges).is_err() {
                        continue;
                    }
                    let steps = rng.range(1, 3);
                    let mut cur = text.clone();
                    let mut edits = Vec::new();
                    for _ in 0..steps {
                        let te = random_edit(&mut rng, &cur, &bounds, &alpha_refs);
                        cur = te.apply(&cur);
                        edits.push(te);
                    }
                    hist_no += 1;
                    // note: histories with ranges are not replayable through --spec (ranges are not part of the spec);
                    // they are marked with an `R` prefix
                    case_no += emit_history(&mut out, &format!("{id}-R{hist_no}"), &id, &mut parser, &text, &edits);
                    parser.set_included_ranges(&[]).unwrap();
                }
            }
            for _h in 0..hist_per_doc {
                let steps = rng.range(1, 4);
                let mut cur = text.clone();
                let mut edits = Vec::new();
                for _ in 0..steps {
                    let te = random_edit(&mut rng, &cur, &bounds, &alpha_refs);
                    cur = te.apply(&cur);
                    edits.push(te);
                }
                hist_no += 1;
                case_no += emit_history(&mut out, &format!("{id}-{hist_no}"), &id, &mut parser, &text, &edits);
            }
        }
    }
    out.flush().unwrap();
    eprintln!("c10: wrote {case_no} cases to {out_path}");
}
