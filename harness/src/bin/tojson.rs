// Convert grammar.js files to grammar.json with the repo's own loader (QuickJS, in-process).
use std::path::Path;
fn main() {
    let args: Vec<String> = std::env::args().collect();
    for p in &args[1..] {
        let path = Path::new(p);
        match tree_sitter_generate::load_grammar_file(path, None) {
            Ok(json) => {
                let out = path.with_file_name("grammar.json");
                std::fs::write(&out, json).unwrap();
                println!("ok {}", out.display());
            }
            Err(e) => println!("ERR {p}: {e}"),
        }
    }
}
