//! C04 explorer: (1) function-level cases for the range-array functions (`F …` lines, answered by
//! the unity build `cunit_c04` and by the Lean ports), (2) real histories: parse, 1-4 edits,
//! optional change of the included ranges, re-parse with the edited old tree,
//! `Tree::changed_ranges`; every step is one case with full dumps of both trees.
//! usage: c04 <ops-file> [--spec <file>] [lang...]
//! A history is `spec <case-prefix> <lang> <texthex|-> <ranges0> <step> <step> …` with
//! ranges = `-` (whole document) or `a-b,c-d` (bytes; `M` = UINT32_MAX), step = `<edits>@<ranges>`,
//! edits = `start,old_end,inshex|…`.  Step k of a history is case `<prefix>.<k>`.
use std::io::Write;
use tree_sitter::{Language, Parser, Point, Range, Tree};
use tsv_harness::*;

const UMAX: usize = u32::MAX as usize;

#[repr(C)]
struct LangPrefix {
    abi_version: u32,
    symbol_count: u32,
    alias_count: u32,
    token_count: u32,
    external_token_count: u32,
    state_count: u32,
    large_state_count: u32,
    production_id_count: u32,
    field_count: u32,
    max_alias_sequence_length: u16,
    parse_table: *const u16,
    small_parse_table: *const u16,
    small_parse_table_map: *const u32,
    parse_actions: *const u8,
    symbol_names: *const *const u8,
    field_names: *const *const u8,
    field_map_slices: *const u8,
    field_map_entries: *const u8,
    symbol_metadata: *const u8,
    public_symbol_map: *const u16,
    alias_map: *const u16,
    alias_sequences: *const u16,
}

/// `aliases <max_alias_sequence_length> <alias_sequences[0 .. production_id_count*max]>` read from the
/// `TSLanguage` struct (layout of lib/src/parser.h, the ABI every generated parser is compiled against).
fn alias_line(lang: &Language) -> String {
    unsafe {
        let raw: *const LangPrefix = *(lang as *const Language as *const *const LangPrefix);
        let l = &*raw;
        assert!(l.abi_version >= 13 && l.abi_version <= 15, "unexpected ABI {}", l.abi_version);
        assert_eq!(l.symbol_count as usize + l.alias_count as usize, lang.node_kind_count());
        let n = l.production_id_count as usize * l.max_alias_sequence_length as usize;
        let mut s = format!("aliases {}", l.max_alias_sequence_length);
        for i in 0..n {
            s.push_str(&format!(" {}", *l.alias_sequences.add(i)));
        }
        s
    }
}

fn fmt_range(r: &Range) -> String {
    format!("{} {} {} {} {} {}", r.start_byte, r.start_point.row, r.start_point.column, r.end_byte, r.end_point.row, r.end_point.column)
}

fn mk_ranges(text: &[u8], bs: &[(usize, usize)]) -> Vec<Range> {
    bs.iter()
        .map(|&(a, b)| {
            let pa = if a >= UMAX { Point { row: UMAX, column: UMAX } } else { point_at(text, a.min(text.len())) };
            let pb = if b >= UMAX { Point { row: UMAX, column: UMAX } } else { point_at(text, b.min(text.len())) };
            // positions beyond the text: same row, column extended
            let fix = |p: Point, x: usize| if x < UMAX && x > text.len() { Point { row: p.row, column: p.column + (x - text.len()) } } else { p };
            Range { start_byte: a, end_byte: b, start_point: fix(pa, a), end_point: fix(pb, b) }
        })
        .collect()
}

fn fmt_bs(bs: &[(usize, usize)]) -> String {
    if bs.is_empty() {
        return "-".into();
    }
    let f = |x: usize| if x >= UMAX { "M".to_string() } else { x.to_string() };
    bs.iter().map(|&(a, b)| format!("{}-{}", f(a), f(b))).collect::<Vec<_>>().join(",")
}

fn parse_bs(s: &str) -> Option<Vec<(usize, usize)>> {
    if s == "-" {
        return Some(vec![]);
    }
    let g = |x: &str| if x == "M" { Some(UMAX) } else { x.parse().ok() };
    s.split(',').map(|p| { let (a, b) = p.split_once('-')?; Some((g(a)?, g(b)?)) }).collect()
}

#[derive(Clone)]
struct Step {
    edits: Vec<TextEdit>,
    ranges: Vec<(usize, usize)>,
}

fn fmt_step(s: &Step) -> String {
    let e: Vec<String> = s.edits.iter().map(|e| format!("{},{},{}", e.start, e.old_end, if e.ins.is_empty() { "-".to_string() } else { hex(&e.ins) })).collect();
    format!("{}@{}", if e.is_empty() { "-".to_string() } else { e.join("|") }, fmt_bs(&s.ranges))
}

fn parse_step(s: &str) -> Option<Step> {
    let (e, r) = s.split_once('@')?;
    let mut edits = Vec::new();
    if e != "-" {
        for x in e.split('|') {
            let f: Vec<&str> = x.split(',').collect();
            if f.len() != 3 {
                return None;
            }
            edits.push(TextEdit { start: f[0].parse().ok()?, old_end: f[1].parse().ok()?, ins: if f[2] == "-" { vec![] } else { unhex(f[2]) } });
        }
    }
    Some(Step { edits, ranges: parse_bs(r)? })
}

fn bounded_parse(parser: &mut Parser, text: &[u8], old: Option<&Tree>) -> Option<Tree> {
    if text.len() > 20_000 {
        return None;
    }
    parser.parse(text, old)
}

struct Stats {
    cases: usize,
    range_changes: usize,
    edits: usize,
    rejected_ranges: usize,
}

fn emit_history(out: &mut impl Write, prefix: &str, lang: &str, parser: &mut Parser, text0: &[u8], ranges0: &[(usize, usize)], steps: &[Step], st: &mut Stats) {
    let mut text = text0.to_vec();
    if parser.set_included_ranges(&mk_ranges(&text, ranges0)).is_err() {
        st.rejected_ranges += 1;
        parser.set_included_ranges(&[]).unwrap();
    }
    let mut tree = match bounded_parse(parser, &text, None) {
        Some(t) => t,
        None => return,
    };
    let mut prev_ranges = ranges0.to_vec();
    let mut done: Vec<String> = Vec::new();
    for (k, step) in steps.iter().enumerate() {
        let mut ok = true;
        for te in &step.edits {
            if te.start > te.old_end || te.old_end > text.len() {
                ok = false;
                break;
            }
            let new = te.apply(&text);
            let ie = te.input_edit(&text, &new);
            tree.edit(&ie);
            text = new;
            st.edits += 1;
        }
        if !ok {
            break;
        }
        if parser.set_included_ranges(&mk_ranges(&text, &step.ranges)).is_err() {
            st.rejected_ranges += 1;
            parser.set_included_ranges(&[]).unwrap();
        }
        let new_tree = match bounded_parse(parser, &text, Some(&tree)) {
            Some(t) => t,
            None => break,
        };
        // every other step goes through Tree::clone (ts_tree_copy) on both sides: the copies must carry the same
        // subtrees and the same included ranges (the dumps below are then those of the copies)
        let use_clone = k % 2 == 1;
        let (old_for_cmp, new_for_cmp) = if use_clone { (tree.clone(), new_tree.clone()) } else { (tree.clone(), new_tree.clone()) };
        let (old_ref, new_ref) = if use_clone { (&old_for_cmp, &new_for_cmp) } else { (&tree, &new_tree) };
        let changed: Vec<Range> = old_ref.changed_ranges(new_ref).collect();
        if step.ranges != prev_ranges {
            st.range_changes += 1;
        }
        prev_ranges = step.ranges.clone();
        done.push(fmt_step(step));
        let cid = format!("{prefix}.{k}");
        writeln!(out, "spec {cid} {lang} {} {} {}", if text0.is_empty() { "-".to_string() } else { hex(text0) }, fmt_bs(ranges0), done.join(" ")).unwrap();
        writeln!(out, "case {cid} {lang}").unwrap();
        writeln!(out, "len {}", text.len()).unwrap();
        // dumps are taken from the ORIGINAL trees: a copy that lost ranges/subtrees makes port != implementation
        writeln!(out, "old\n{}", dump_tree(&tree).trim_end()).unwrap();
        writeln!(out, "new\n{}", dump_tree(&new_tree).trim_end()).unwrap();
        let rs: Vec<String> = changed.iter().map(fmt_range).collect();
        writeln!(out, "reported {} {}", changed.len(), rs.join(" ")).unwrap();
        writeln!(out, "run").unwrap();
        st.cases += 1;
        tree = new_tree;
    }
    parser.set_included_ranges(&[]).unwrap();
}

fn parse_spec(line: &str) -> Option<(String, Vec<u8>, Vec<(usize, usize)>, Vec<Step>)> {
    let mut parts: Vec<&str> = line.split_whitespace().collect();
    if parts.first() == Some(&"spec") {
        parts.remove(0);
    }
    // an optional leading case id: the language is the first token that names a zoo entry
    if parts.len() >= 2 && !zoo::zoo_dir(parts[0]).join("grammar.json").exists() {
        parts.remove(0);
    }
    if parts.len() < 3 {
        return None;
    }
    let text = if parts[1] == "-" { vec![] } else { unhex(parts[1]) };
    let r0 = parse_bs(parts[2])?;
    let steps: Option<Vec<Step>> = parts[3..].iter().map(|s| parse_step(s)).collect();
    Some((parts[0].to_string(), text, r0, steps?))
}

fn random_ranges(rng: &mut Rng, n: usize, bounds: &[usize]) -> Vec<(usize, usize)> {
    if rng.chance(1, 3) {
        return vec![];
    }
    let k = rng.range(1, 4);
    let mut cuts: Vec<usize> = (0..2 * k)
        .map(|_| if !bounds.is_empty() && rng.chance(1, 2) { (*rng.pick(bounds)).min(n) } else { rng.below(n + 1) })
        .collect();
    cuts.sort();
    let mut v: Vec<(usize, usize)> = (0..k).map(|i| (cuts[2 * i], cuts[2 * i + 1])).collect();
    match rng.below(5) {
        0 => v.last_mut().unwrap().1 = UMAX,
        1 => v.last_mut().unwrap().1 = n + rng.below(4),
        2 => v[0].0 = 0,
        _ => {}
    }
    v
}

fn emit_lang(out: &mut impl Write, id: &str, lang: &Language) {
    writeln!(out, "lang {id}").unwrap();
    write!(out, "{}", dump_symbols(lang)).unwrap();
    writeln!(out, "{}", alias_line(lang)).unwrap();
    writeln!(out, "endlang").unwrap();
}

// ---------------------------------------------------------------- function level
fn small(rng: &mut Rng) -> usize {
    match rng.below(12) {
        0 => UMAX - 1 - rng.below(3),
        1 => 65535 + rng.below(3),
        _ => rng.below(14),
    }
}

fn frange(rng: &mut Rng, a: usize, b: usize) -> String {
    let pt = |rng: &mut Rng, x: usize| if x >= UMAX { (UMAX, UMAX) } else { (rng.below(3), rng.below(9)) };
    let (r1, c1) = pt(rng, a);
    let (r2, c2) = pt(rng, b);
    format!("{a} {r1} {c1} {b} {r2} {c2}")
}

/// A list accepted by the range setter (sorted, empty ranges allowed); `umax_end`: last end = UINT32_MAX.
fn sorted_list(rng: &mut Rng, k: usize, umax_end: bool) -> Vec<(usize, usize)> {
    let mut cuts: Vec<usize> = (0..2 * k).map(|_| rng.below(16)).collect();
    cuts.sort();
    let mut v: Vec<(usize, usize)> = (0..k).map(|i| (cuts[2 * i], cuts[2 * i + 1])).collect();
    if umax_end && k > 0 {
        v[k - 1].1 = UMAX;
    }
    v
}

fn emit_function_cases(out: &mut impl Write, rng: &mut Rng, n: usize) -> usize {
    // lists with a range that STARTS at UINT32_MAX while the other list is exhausted: defined since /repo 958e7c7
    // (before, the loop stepped the exhausted list back "into" a range and read ranges[count])
    let m = UMAX;
    writeln!(out, "F fsx0 symdiff 2 0 0 0 {m} {m} {m} {m} {m} {m} {m} {m} {m} 1 0 0 0 5 0 5").unwrap();
    writeln!(out, "F fsx1 symdiff 1 0 0 0 5 0 5 2 0 0 0 {m} {m} {m} {m} {m} {m} {m} {m} {m}").unwrap();
    writeln!(out, "F fsx2 symdiff 2 3 0 3 {m} {m} {m} {m} {m} {m} {m} {m} {m} 0").unwrap();
    for i in 0..n {
        match i % 3 {
            0 => {
                // add: call sequences; half of them monotone (the discipline of the callers)
                let k = rng.range(1, 6);
                let mut s = format!("F fa{i} add {k}");
                let mono = rng.chance(1, 2);
                let mut cur = rng.below(4);
                for _ in 0..k {
                    let (a, b) = if mono {
                        let a = cur + [0, 0, 1, 3][rng.below(4)];
                        let b = a + rng.below(4);
                        cur = b;
                        (a, b)
                    } else {
                        (small(rng), small(rng))
                    };
                    s.push(' ');
                    s.push_str(&frange(rng, a, b));
                }
                writeln!(out, "{s}").unwrap();
            }
            1 => {
                let k = rng.below(5);
                let um = rng.chance(1, 4);
                let list = if rng.chance(3, 4) { sorted_list(rng, k, um) } else { (0..k).map(|_| (small(rng), small(rng))).collect() };
                let mut s = format!("F fi{i} isect {k}");
                for &(a, b) in &list {
                    s.push(' ');
                    s.push_str(&frange(rng, a, b));
                }
                let (a, b) = (rng.below(16), rng.below(18));
                s.push_str(&format!(" {} {} {}", rng.below(k + 2), a, if rng.chance(1, 6) { UMAX } else { b }));
                writeln!(out, "{s}").unwrap();
            }
            _ => {
                // symdiff: valid lists (UINT32_MAX only as the last end), or arbitrary lists of small numbers
                let valid = rng.chance(3, 4);
                let mut s = format!("F fs{i} symdiff");
                for _ in 0..2 {
                    let k = rng.below(5);
                    let um = rng.chance(1, 3);
                    let list: Vec<(usize, usize)> = if valid { sorted_list(rng, k, um) } else { (0..k).map(|_| (rng.below(14), rng.below(14))).collect() };
                    s.push_str(&format!(" {k}"));
                    for &(a, b) in &list {
                        s.push(' ');
                        s.push_str(&frange(rng, a, b));
                    }
                }
                writeln!(out, "{s}").unwrap();
            }
        }
    }
    n
}

fn main() {
    limit_resources();
    // watchdog: a mutated runtime that loops forever must not hang the check (SIGALRM kills the explorer)
    extern "C" {
        fn alarm(seconds: u32) -> u32;
    }
    unsafe {
        alarm(if tier_is_thorough() { 1500 } else { 240 });
    }
    let args: Vec<String> = std::env::args().collect();
    let out_path = args.get(1).expect("usage: c04 <ops-file> [--spec file] [lang...]").clone();
    let mut out = std::io::BufWriter::new(std::fs::File::create(&out_path).unwrap());
    let mut st = Stats { cases: 0, range_changes: 0, edits: 0, rejected_ranges: 0 };
    let mut emitted: std::collections::HashSet<String> = Default::default();
    let run_specs = |src: &str, tag: &str, out: &mut std::io::BufWriter<std::fs::File>, st: &mut Stats, emitted: &mut std::collections::HashSet<String>| {
        for (i, line) in src.lines().enumerate() {
            if line.trim().is_empty() || line.starts_with('#') {
                continue;
            }
            if let Some((lang, text, r0, steps)) = parse_spec(line) {
                if let Ok(b) = zoo::load(&lang) {
                    if emitted.insert(lang.clone()) {
                        emit_lang(out, &lang, &b.language);
                    }
                    let mut parser = Parser::new();
                    parser.set_language(&b.language).unwrap();
                    emit_history(out, &format!("{lang}-{tag}{i}"), &lang, &mut parser, &text, &r0, &steps, st);
                }
            }
        }
    };
    if args.get(2).map(|s| s == "--spec").unwrap_or(false) {
        let specs = std::fs::read_to_string(&args[3]).unwrap();
        run_specs(&specs, "r", &mut out, &mut st, &mut emitted);
        out.flush().unwrap();
        eprintln!("c04: replayed {} cases", st.cases);
        return;
    }
    let only: Vec<String> = args[2..].to_vec();
    let mut rng = Rng::new(seed_from_env());
    let thorough = tier_is_thorough();
    let nf = emit_function_cases(&mut out, &mut rng.fork(), if thorough { 60_000 } else { 6_000 });
    if let Some(corpus) = zoo_corpus("c04") {
        run_specs(&corpus, "c", &mut out, &mut st, &mut emitted);
    }
    let (docs_per_lang, hist_per_doc) = if thorough { (40, 12) } else { (8, 3) };
    let island_per_doc = if thorough { 6 } else { 2 };
    // `c04quote` is a PRIVATE zoo grammar (quote-delimited strings next to identifiers), named explicitly
    let langs: Vec<String> = if only.is_empty() { let mut l = zoo::list(); l.push("c04quote".into()); l } else { only };
    let mut hist_no = 0usize;
    for id in langs {
        let b = match zoo::load(&id) {
            Ok(b) => b,
            Err(e) => {
                eprintln!("skip {id}: {e}");
                continue;
            }
        };
        if emitted.insert(id.clone()) {
            emit_lang(&mut out, &id, &b.language);
        }
        let gg = gen::GrammarGen::new(&b.grammar_json, zoo::read_zoo_file(&id, "samples.json").as_deref());
        let mut parser = Parser::new();
        parser.set_language(&b.language).unwrap();
        for d in 0..docs_per_lang {
            let budget = [5, 20, 60, 150][d % 4];
            let toks = gg.sentence(&mut rng, budget);
            let (mut text, bounds) = gg.render(&toks, &mut rng);
            if d % 4 == 3 {
                text = gen::mutate_bytes(&mut rng, &text);
            }
            if text.len() > 4000 {
                text.truncate(4000);
            }
            let mut alphabet: Vec<Vec<u8>> = toks.iter().take(12).map(|t| t.text.clone().into_bytes()).collect();
            alphabet.extend([b" ".to_vec(), b"\n".to_vec(), b"x".to_vec(), b"(".to_vec(), "é".as_bytes().to_vec(), b"\n\n".to_vec()]);
            let alpha_refs: Vec<&[u8]> = alphabet.iter().map(|v| v.as_slice()).collect();
            // "moving island" histories: the text stays the same, the NUMBER of ranges stays the same, only the
            // excluded islands move / grow / shrink; the first and last token stay included, so the enclosing
            // nodes (root, lists) look identical from outside and only the included-range differences can make
            // the walk look inside them
            for _h in 0..(if bounds.len() >= 4 { island_per_doc } else { 0 }) {
                let n = text.len();
                let gaps = rng.range(1, 2);
                let pick_islands = |rng: &mut Rng| -> Vec<(usize, usize)> {
                    // `gaps` disjoint islands strictly inside (first bound, last bound), cut at token bounds, sometimes nudged by a byte
                    let inner: Vec<usize> = bounds.iter().copied().filter(|&b| b > bounds[0] && b < n).collect();
                    let mut cuts: Vec<usize> = (0..2 * gaps).map(|_| if inner.is_empty() { n / 2 } else { *rng.pick(&inner) }).collect();
                    cuts.sort();
                    let mut ranges = Vec::new();
                    let mut start = 0usize;
                    for g in 0..gaps {
                        let (mut a, mut b) = (cuts[2 * g], cuts[2 * g + 1]);
                        if rng.chance(1, 5) && b < n { b += 1; }
                        if rng.chance(1, 5) && a > start + 1 { a -= 1; }
                        ranges.push((start, a.max(start)));
                        start = b.max(a);
                    }
                    ranges.push((start, if rng.chance(1, 3) { UMAX } else { n }));
                    ranges
                };
                let r0 = pick_islands(&mut rng);
                let nsteps = rng.range(2, 4);
                let mut steps = Vec::new();
                for _ in 0..nsteps {
                    steps.push(Step { edits: vec![], ranges: pick_islands(&mut rng) });
                }
                hist_no += 1;
                emit_history(&mut out, &format!("{id}-{hist_no}"), &id, &mut parser, &text, &r0, &steps, &mut st);
            }
            for _h in 0..hist_per_doc {
                let with_ranges = rng.chance(1, 2);
                let r0 = if with_ranges { random_ranges(&mut rng, text.len(), &bounds) } else { vec![] };
                let nsteps = rng.range(2, 5);
                let mut cur = text.clone();
                let mut cur_ranges = r0.clone();
                let mut steps = Vec::new();
                for _ in 0..nsteps {
                    let ne = if with_ranges && rng.chance(1, 3) { 0 } else { rng.range(1, 4) };
                    let mut edits = Vec::new();
                    for _ in 0..ne {
                        // one edit in three replaces the last character before a token boundary by a token of the
                        // document's alphabet (punctuation flips such as `?` -> `!` re-reduce the enclosing node with a
                        // sibling production while everything before the edit is reused)
                        // (wave 9) delimiter moves: delete one quote / bracket character (alone or with the character behind
                        // it), or insert a copy of one elsewhere — the delimiters behind the edit pair up differently, so
                        // untouched tokens meet new tokens of the same type and size at SHIFTED offsets
                        let delims: Vec<usize> = (0..cur.len()).filter(|&i| matches!(cur[i], b'"' | b'\'' | b'`' | b'(' | b')' | b'[' | b']' | b'{' | b'}')).collect();
                        if !delims.is_empty() && rng.chance(1, 4) {
                            let p = *rng.pick(&delims);
                            let te = match rng.below(3) {
                                0 => TextEdit { start: p, old_end: p + 1, ins: vec![] },
                                1 => TextEdit { start: p, old_end: (p + 2).min(cur.len()), ins: vec![] },
                                _ => {
                                    let at = rng.below(cur.len() + 1);
                                    TextEdit { start: at, old_end: at, ins: vec![cur[p]] }
                                }
                            };
                            cur = te.apply(&cur);
                            edits.push(te);
                            continue;
                        }
                        if rng.chance(1, 3) && !bounds.is_empty() {
                            let b = (*rng.pick(&bounds)).min(cur.len());
                            if b >= 1 {
                                let a: &[u8] = alpha_refs[rng.below(alpha_refs.len())];
                                let te = TextEdit { start: b - 1, old_end: b, ins: a.to_vec() };
                                cur = te.apply(&cur);
                                edits.push(te);
                                continue;
                            }
                        }
                        let te = random_edit(&mut rng, &cur, &bounds, &alpha_refs);
                        cur = te.apply(&cur);
                        edits.push(te);
                    }
                    if with_ranges && rng.chance(1, 2) {
                        cur_ranges = random_ranges(&mut rng, cur.len(), &bounds);
                    }
                    // a range list kept across edits is clamped so that no range STARTS beyond the new
                    // text (then the tree itself would lie outside the document); ends may exceed it
                    let n = cur.len();
                    let last = cur_ranges.len().saturating_sub(1);
                    for (i, r) in cur_ranges.iter_mut().enumerate() {
                        r.0 = r.0.min(n);
                        if r.1 != UMAX {
                            r.1 = r.1.min(if i == last { n + 3 } else { n });
                        }
                    }
                    steps.push(Step { edits, ranges: cur_ranges.clone() });
                }
                hist_no += 1;
                emit_history(&mut out, &format!("{id}-{hist_no}"), &id, &mut parser, &text, &r0, &steps, &mut st);
            }
        }
    }
    out.flush().unwrap();
    eprintln!(
        "c04: wrote {} function cases and {} history cases ({} edits, {} steps with changed range lists, {} rejected range lists) to {}",
        nf, st.cases, st.edits, st.range_changes, st.rejected_ranges, out_path
    );
}
