//! C08 explorer: histories of copy / edit / re-parse / query / walk / delete over a family of tree
//! handles through the Rust API of the REAL library; after every operation every live handle is
//! dumped (dump_tree: all fields, ref_count, addresses).  Threaded runs: N threads, each with its
//! own copy, vs the sequential run of the same per-thread sequences.  A counting allocator
//! (tree_sitter::set_allocator -> ts_set_allocator) must balance to zero at the end.
//!
//! usage: c08 <ops-file> [--spec <file>]
//! spec line: `seq <lang> <fresh|persist> <seed> <nops>`  or  `thr <lang> <seed> <threads> <nops>`
use std::io::Write;
use std::os::raw::c_void;
use std::sync::atomic::{AtomicI64, AtomicU64, Ordering};
use streaming_iterator::StreamingIterator;
use tree_sitter::{Language, Parser, Query, QueryCursor, Tree};
use tsv_harness::*;

static LIVE: AtomicI64 = AtomicI64::new(0);
static ALLOCS: AtomicU64 = AtomicU64::new(0);

extern "C" {
    fn malloc(n: usize) -> *mut c_void;
    fn free(p: *mut c_void);
    fn memset(p: *mut c_void, c: i32, n: usize) -> *mut c_void;
}
/// Counting AND poisoning allocator (same as C07's explorer): freed memory is filled with 0xA5 before it goes
/// back to libc, realloc always moves, the size lives in a 16-byte header; a free/realloc of a block that is
/// not live (double free, foreign pointer) aborts.  A read through a dangling subtree pointer therefore sees
/// poison (the dump differs / the process dies) instead of the old content "by luck".
const HDR: usize = 16;
/// guard bytes behind every block: a write past the end is detected when the block is freed / reallocated
const TAIL: usize = 8;
const TAIL_BYTE: u8 = 0xC3;
unsafe fn blk_new(n: usize, fill: u8) -> *mut c_void {
    let base = malloc(n + HDR + TAIL);
    if base.is_null() {
        return base;
    }
    *(base as *mut usize) = n;
    *(base as *mut usize).add(1) = 0x7573_6564;
    let p = (base as *mut u8).add(HDR) as *mut c_void;
    memset(p, fill as i32, n);
    memset((p as *mut u8).add(n) as *mut c_void, TAIL_BYTE as i32, TAIL);
    p
}
unsafe fn blk_size(p: *mut c_void) -> usize {
    let base = (p as *mut u8).sub(HDR) as *mut usize;
    if *base.add(1) != 0x7573_6564 {
        eprintln!("c08: free/realloc of a block that is not live (double free or foreign pointer)");
        std::process::abort();
    }
    let n = *base;
    if !(0..TAIL).all(|i| *(p as *mut u8).add(n + i) == TAIL_BYTE) {
        eprintln!("c08: heap overrun: the guard bytes behind a block of {n} bytes were overwritten");
        std::process::abort();
    }
    n
}
unsafe fn blk_drop(p: *mut c_void) {
    let n = blk_size(p);
    let base = (p as *mut u8).sub(HDR);
    *(base as *mut usize).add(1) = 0x6672_6565;
    memset(p, 0xA5, n);
    free(base as *mut c_void);
}
unsafe extern "C" fn c_malloc(n: usize) -> *mut c_void {
    LIVE.fetch_add(1, Ordering::SeqCst);
    ALLOCS.fetch_add(1, Ordering::Relaxed);
    blk_new(n, 0xA5)
}
unsafe extern "C" fn c_calloc(n: usize, s: usize) -> *mut c_void {
    LIVE.fetch_add(1, Ordering::SeqCst);
    ALLOCS.fetch_add(1, Ordering::Relaxed);
    blk_new(n.saturating_mul(s), 0)
}
unsafe extern "C" fn c_realloc(p: *mut c_void, n: usize) -> *mut c_void {
    if p.is_null() {
        return c_malloc(n);
    }
    let old = blk_size(p);
    let q = blk_new(n, 0xA5);
    if q.is_null() {
        return q;
    }
    std::ptr::copy_nonoverlapping(p as *const u8, q as *mut u8, old.min(n));
    blk_drop(p);
    q
}
unsafe extern "C" fn c_free(p: *mut c_void) {
    if !p.is_null() {
        LIVE.fetch_sub(1, Ordering::SeqCst);
        blk_drop(p);
    }
}

/// A parse that the progress callback cancels at its `cancel_at`-th check (1-based); `None` if cancelled.
fn cancellable_parse(parser: &mut Parser, text: &[u8], old: Option<&Tree>, cancel_at: u32) -> Option<Tree> {
    let mut calls = 0u32;
    let mut cb = |_: &tree_sitter::ParseState| {
        calls += 1;
        if calls >= cancel_at {
            std::ops::ControlFlow::Break(())
        } else {
            std::ops::ControlFlow::Continue(())
        }
    };
    let opts = tree_sitter::ParseOptions::new().progress_callback(&mut cb);
    let len = text.len();
    parser.parse_with_options(&mut |i, _| if i < len { &text[i..] } else { &[] }, old, Some(opts))
}

/// Cancelled (re-)parses, the clause "every shared node is freed exactly once after the last handle goes
/// away" under cancellation: a document of some hundred items, a copy edited in many places, then re-parses
/// WITH THE COPY AS OLD TREE cancelled at the 1st, 2nd, 3rd … progress check (the parser holds a lookahead
/// at that moment — a freshly lexed token or a subtree REUSED from the old tree, i.e. a node shared with
/// every copy), each followed by `reset` or by resuming the parse; every intermediate state is dumped and
/// judged; at the end parser and handles are dropped in turn and the allocator must be back at its level
/// (`histend`).  Returns the number of steps.
fn cancel_history(out: &mut impl Write, cid: &str, lang_id: &str, b: &zoo::Built, seed: u64) -> usize {
    let mut rng = Rng::new(seed);
    let live0 = LIVE.load(Ordering::SeqCst);
    writeln!(out, "spec {cid} cancel {lang_id} {seed}").unwrap();
    out.flush().unwrap();
    let gg = gen::GrammarGen::new(&b.grammar_json, zoo::read_zoo_file(lang_id, "samples.json").as_deref());
    // a few hundred items: the same short sentences over and over (more than 100 parse operations
    // between two progress checks are needed for a check to happen at all)
    let mut text: Vec<u8> = Vec::new();
    let units: Vec<Vec<u8>> = (0..4).map(|_| { let t = gg.sentence(&mut rng, 3); gg.render(&t, &mut rng).0 }).collect();
    let reps = rng.range(110, 220);
    for i in 0..reps {
        text.extend_from_slice(&units[i % units.len()]);
        text.push(if i % 7 == 0 { b'\n' } else { b' ' });
    }
    let mut steps = 0usize;
    {
        let mut parser = Parser::new();
        parser.set_language(&b.language).unwrap();
        let Some(t0) = progress_parse(&mut parser, &text, None) else {
            writeln!(out, "histend {cid} live_delta=0 cancels=0 note=unparsed").unwrap();
            return 0;
        };
        let mut fam = Fam { trees: vec![Some(t0)], texts: vec![text.clone()], dirty: vec![false] };
        writeln!(out, "case {cid} mode=persist").unwrap();
        emit_state(out, &fam);
        writeln!(out, "run").unwrap();
        steps += 1;
        // copy, then many small edits of the copy
        let c = fam.trees[0].as_ref().unwrap().clone();
        fam.trees.push(Some(c));
        fam.texts.push(text.clone());
        fam.dirty.push(false);
        writeln!(out, "op copy 0 1").unwrap();
        emit_state(out, &fam);
        writeln!(out, "run").unwrap();
        steps += 1;
        let nedits = rng.range(5, 40);
        for _ in 0..nedits {
            let cur = fam.texts[1].clone();
            let alpha = alphabet_for(&cur);
            let refs: Vec<&[u8]> = alpha.iter().map(|v| v.as_slice()).collect();
            let te = random_edit(&mut rng, &cur, &boundaries(&cur), &refs);
            let new_text = te.apply(&cur);
            let ie = te.input_edit(&cur, &new_text);
            fam.trees[1].as_mut().unwrap().edit(&ie);
            fam.texts[1] = new_text;
            fam.dirty[1] = true;
        }
        // one dumped state after all edits (no per-edit model prediction: `multi` is not an edit the driver parses)
        writeln!(out, "op edit 1 multi {nedits}").unwrap();
        emit_state(out, &fam);
        writeln!(out, "run").unwrap();
        steps += 1;
        // cancelled re-parses with the edited copy as old tree
        let new_text = fam.texts[1].clone();
        let mut cancels = 0usize;
        let mut k = 1u32;
        while k <= 40 {
            let old = fam.trees[1].as_ref().unwrap();
            match cancellable_parse(&mut parser, &new_text, Some(old), k) {
                Some(t) => {
                    // the parse needs fewer than k checks: finished
                    let new = fam.trees.len();
                    fam.trees.push(Some(t));
                    fam.texts.push(new_text.clone());
                    fam.dirty.push(false);
                    writeln!(out, "op reparse 1 {new}").unwrap();
                    emit_state(out, &fam);
                    writeln!(out, "run").unwrap();
                    steps += 1;
                    break;
                }
                None => {
                    cancels += 1;
                    // nothing observable through any handle may have changed
                    writeln!(out, "op query 1").unwrap();
                    emit_state(out, &fam);
                    writeln!(out, "run").unwrap();
                    steps += 1;
                    if rng.chance(1, 2) {
                        parser.reset();
                        // the parser gave up what it held: a fresh snapshot for the next comparison
                        writeln!(out, "op query 1").unwrap();
                        emit_state(out, &fam);
                        writeln!(out, "run").unwrap();
                        steps += 1;
                    } else {
                        // resume: same arguments, no cancellation
                        let old = fam.trees[1].as_ref().unwrap();
                        if let Some(t) = progress_parse(&mut parser, &new_text, Some(old)) {
                            let new = fam.trees.len();
                            fam.trees.push(Some(t));
                            fam.texts.push(new_text.clone());
                            fam.dirty.push(false);
                            writeln!(out, "op reparse 1 {new}").unwrap();
                            emit_state(out, &fam);
                            writeln!(out, "run").unwrap();
                            steps += 1;
                            if fam.trees.len() > 5 {
                                let h = fam.trees.len() - 2;
                                fam.trees[h] = None;
                                writeln!(out, "op delete {h}").unwrap();
                                emit_state(out, &fam);
                                writeln!(out, "run").unwrap();
                                steps += 1;
                            }
                        }
                    }
                }
            }
            k += if k < 6 { 1 } else { rng.range(1, 5) as u32 };
        }
        // a last cancelled parse that is neither reset nor resumed: the parser is dropped in that state
        if rng.chance(1, 2) {
            let old = fam.trees[1].as_ref().unwrap();
            if cancellable_parse(&mut parser, &new_text, Some(old), 1 + rng.below(3) as u32).is_none() {
                cancels += 1;
            }
        }
        // drop in turn: parser first or last, handles in either order
        let parser_first = rng.chance(1, 2);
        if parser_first {
            drop(parser);
            writeln!(out, "op query 0").unwrap();
            emit_state(out, &fam);
            writeln!(out, "run").unwrap();
            steps += 1;
            let order: Vec<usize> = if rng.chance(1, 2) { (0..fam.trees.len()).collect() } else { (0..fam.trees.len()).rev().collect() };
            for h in order {
                if fam.trees[h].is_some() {
                    fam.trees[h] = None;
                    writeln!(out, "op delete {h}").unwrap();
                    emit_state(out, &fam);
                    writeln!(out, "run").unwrap();
                    steps += 1;
                }
            }
        } else {
            drop(fam);
            drop(parser);
        }
        writeln!(out, "cancels {cid} {cancels}").unwrap();
    }
    drop(gg);
    let delta = LIVE.load(Ordering::SeqCst) - live0;
    writeln!(out, "histend {cid} live_delta={delta}").unwrap();
    out.flush().unwrap();
    steps
}

fn progress_parse(parser: &mut Parser, text: &[u8], old: Option<&Tree>) -> Option<Tree> {
    // bounded inputs (< 4 KiB); the parser is additionally guarded by a progress callback
    let mut calls = 0u32;
    let mut cb = |_: &tree_sitter::ParseState| {
        calls += 1;
        if calls > 200_000 {
            std::ops::ControlFlow::Break(())
        } else {
            std::ops::ControlFlow::Continue(())
        }
    };
    let opts = tree_sitter::ParseOptions::new().progress_callback(&mut cb);
    let len = text.len();
    parser.parse_with_options(&mut |i, _| if i < len { &text[i..] } else { &[] }, old, Some(opts))
}

struct Fam {
    trees: Vec<Option<Tree>>,
    texts: Vec<Vec<u8>>,
    dirty: Vec<bool>,
}

fn emit_state(out: &mut impl Write, fam: &Fam) {
    writeln!(out, "state {}", fam.trees.len()).unwrap();
    for (h, t) in fam.trees.iter().enumerate() {
        if let Some(t) = t {
            writeln!(out, "handle {h}").unwrap();
            write!(out, "{}", dump_tree(t)).unwrap();
        }
    }
    writeln!(out, "endstate").unwrap();
}

fn alphabet_for(text: &[u8]) -> Vec<Vec<u8>> {
    let mut a: Vec<Vec<u8>> = String::from_utf8_lossy(text).split_whitespace().take(10).map(|s| s.as_bytes().to_vec()).collect();
    a.extend([b" ".to_vec(), b"\n".to_vec(), b"x".to_vec(), b"(".to_vec(), b")".to_vec(), b"1".to_vec(), "é".as_bytes().to_vec()]);
    a
}

fn boundaries(text: &[u8]) -> Vec<usize> {
    let mut b = Vec::new();
    for i in 1..text.len() {
        if text[i].is_ascii_whitespace() != text[i - 1].is_ascii_whitespace() {
            b.push(i);
        }
    }
    b
}

/// Directed documents and scripts for zoo/c08blk.  Returns the document and a script of
/// `(op, handle, explicit edit)` with op 0 = copy, 2 = edit, 5 = re-parse, 9 = delete.
///  shape A (ts_parser__breakdown_lookahead): calls whose FIRST LEAF is a heap leaf (a word of 260 bytes, or
///    a word after 18 blank lines), then the copy is wrapped into `{ … }` (two edits) and re-parsed: the reused
///    `call` nodes are in another parse state, the parser descends to their first leaf;
///  shape B (ts_parser__breakdown_top_of_stack): `let a <heap comment(s)> let b`, then `;` is inserted after
///    the comments: the reused `decl` with the comments pushed on top of it has to be broken down again.
/// Afterwards the three handles are deleted new-first or old-first (or left to the random operations).
fn blk_plan(rng: &mut Rng, seed: u64, noise: &[u8]) -> (Vec<u8>, Vec<(usize, usize, Option<TextEdit>)>) {
    let long_word = "q".repeat(260);
    let blank = "\n".repeat(18);
    let long_comment = format!("/* {}*/", "lorem ipsum dolor sit amet ".repeat(12));
    let mut text: Vec<u8> = Vec::new();
    let mut script: Vec<(usize, usize, Option<TextEdit>)> = vec![(0, 0, None)];
    if seed % 2 == 0 {
        let n = 1 + rng.below(4);
        for i in 0..n {
            match (seed / 2 + i as u64) % 3 {
                0 => text.extend_from_slice(format!("{long_word} ( a b ) ").as_bytes()),
                1 => text.extend_from_slice(format!("{blank}f ( x ) ").as_bytes()),
                _ => text.extend_from_slice(format!("{blank}{long_word} ( ) ").as_bytes()),
            }
        }
        if rng.chance(1, 2) {
            text.extend_from_slice(noise);
        }
        let len = text.len();
        script.push((2, 1, Some(TextEdit { start: 0, old_end: 0, ins: b"{ ".to_vec() })));
        script.push((2, 1, Some(TextEdit { start: len + 2, old_end: len + 2, ins: b" }".to_vec() })));
    } else {
        let comments: Vec<String> = (0..1 + rng.below(3)).map(|i| match (seed / 2 + i as u64) % 3 {
            0 => "/* one\n   two */".to_string(),
            1 => long_comment.clone(),
            _ => format!("{blank}/* c */"),
        }).collect();
        let head = format!("let a {} ", comments.join(" "));
        text.extend_from_slice(head.as_bytes());
        let at = text.len();
        text.extend_from_slice(b"let b ");
        if rng.chance(1, 2) {
            text.extend_from_slice(noise);
        }
        script.push((2, 1, Some(TextEdit { start: at, old_end: at, ins: if rng.chance(1, 2) { b"; ".to_vec() } else { b";".to_vec() } })));
    }
    script.push((5, 1, None));
    match (seed / 2) % 3 {
        0 => script.extend([(9, 2, None), (9, 1, None), (9, 0, None)]), // new tree first
        1 => script.extend([(9, 0, None), (9, 1, None), (9, 2, None)]), // old trees first
        _ => {}
    }
    (text, script)
}

/// An edit that changes the ROLE of a token without touching the token itself: delete the complete
/// token in front of it, or insert a copy of some other token of the document in front of it.  For
/// grammars with `#`-prefixed constructs (zoo/c08role: `pragma: '#' comment`, comment also an extra)
/// half of these toggle the `#` in front of a comment.
fn role_edit(rng: &mut Rng, text: &[u8], toggle: bool) -> Option<TextEdit> {
    let find_all = |pat: &[u8]| -> Vec<usize> { (0..text.len().saturating_sub(pat.len() - 1)).filter(|&i| text[i..].starts_with(pat)).collect() };
    let comments = find_all(b"/*");
    if !comments.is_empty() && (toggle || rng.chance(1, 2)) {
        let c = if toggle { comments[0] } else { *rng.pick(&comments) };
        // the non-blank byte in front of the comment
        let mut j = c;
        while j > 0 && text[j - 1].is_ascii_whitespace() {
            j -= 1;
        }
        if j > 0 && text[j - 1] == b'#' {
            return Some(TextEdit { start: j - 1, old_end: j, ins: if toggle || rng.chance(1, 2) { Vec::new() } else { b" ".to_vec() } });
        }
        return Some(TextEdit { start: c, old_end: c, ins: if rng.chance(1, 2) { b"#".to_vec() } else { b"# ".to_vec() } });
    }
    // token starts / ends (whitespace separated)
    let mut toks: Vec<(usize, usize)> = Vec::new();
    let mut i = 0;
    while i < text.len() {
        if text[i].is_ascii_whitespace() {
            i += 1;
            continue;
        }
        let st = i;
        while i < text.len() && !text[i].is_ascii_whitespace() {
            i += 1;
        }
        toks.push((st, i));
    }
    if toks.is_empty() {
        return None;
    }
    let (st, en) = *rng.pick(&toks);
    if rng.chance(1, 2) {
        Some(TextEdit { start: st, old_end: en, ins: Vec::new() })
    } else {
        let (a, b) = *rng.pick(&toks);
        let mut ins = text[a..b].to_vec();
        ins.push(b' ');
        Some(TextEdit { start: st, old_end: st, ins })
    }
}

fn count_query(lang: &Language, tree: &Tree, text: &[u8]) -> usize {
    let q = match Query::new(lang, "(_) @n") {
        Ok(q) => q,
        Err(_) => return 0,
    };
    let mut qc = QueryCursor::new();
    qc.set_match_limit(64);
    let mut n = 0;
    let mut it = qc.matches(&q, tree.root_node(), text);
    while let Some(_m) = it.next() {
        n += 1;
        if n > 20000 {
            break;
        }
    }
    n
}

fn walk_count(tree: &Tree) -> usize {
    let mut c = tree.walk();
    let mut n = 0usize;
    loop {
        n += 1;
        if n > 200000 {
            break;
        }
        if c.goto_first_child() {
            continue;
        }
        loop {
            if c.goto_next_sibling() {
                break;
            }
            if !c.goto_parent() {
                return n;
            }
        }
    }
    n
}

fn gen_doc(b: &zoo::Built, id: &str, rng: &mut Rng) -> Vec<u8> {
    let gg = gen::GrammarGen::new(&b.grammar_json, zoo::read_zoo_file(id, "samples.json").as_deref());
    let budget = [4, 12, 40, 120][rng.below(4)];
    let toks = gg.sentence(rng, budget);
    let (mut text, _) = gg.render(&toks, rng);
    if rng.chance(1, 6) {
        text = gen::mutate_bytes(rng, &text);
    }
    text.truncate(4000);
    text
}

/// One sequential history; returns number of steps emitted.
fn seq_history(out: &mut impl Write, cid: &str, lang_id: &str, b: &zoo::Built, persist: bool, seed: u64, nops: usize, kinds: &mut [usize; 7]) -> usize {
    let live0 = LIVE.load(Ordering::SeqCst);
    let mut rng = Rng::new(seed);
    // `role` histories (mode suffix "+role") prefer edits that change a neighbouring token's role
    let role = lang_id == "c08role";
    let mut text = gen_doc(b, lang_id, &mut rng);
    if role {
        // make sure there is a token that is NOT stored inline, in either role
        let long = format!("/* {}*/", "lorem ipsum dolor sit amet ".repeat(12));
        let c = *rng.pick(&["/* one\n   two */", "/* a\n b\n c */", long.as_str(), "/* c */"]);
        // three of four role histories are the directed shape: the document STARTS with `# <heap comment>`
        // and the scripted edit deletes exactly that `#` (the comment is then reusable as an extra)
        let directed = seed % 4 != 3;
        let snippet = if directed {
            format!("{}{} ab\n", ["# ", "#\n", "#  "][(seed / 4 % 3) as usize], [c, "/* one\n   two */", long.as_str()][(seed / 12 % 3) as usize])
        } else {
            format!("{}{}{} ab\n", if rng.chance(1, 2) { "\n" } else { " " }, ["# ", "#", ""][rng.below(3)], c)
        };
        if !directed && rng.chance(1, 2) {
            text.extend_from_slice(snippet.as_bytes());
        } else {
            let mut t = snippet.into_bytes();
            t.extend_from_slice(&text);
            text = t;
        }
    }
    if let Ok(t) = std::env::var("C08_DEBUG_TEXT") {
        text = t.replace("\\n", "\n").into_bytes(); // test knob: fixed document
    }
    // a role history starts with: copy 0 -> 1, role-changing edit of the copy, re-parse with the copy as old tree
    let mut script: Vec<(usize, usize)> = if role { vec![(0, 0), (2, 1), (5, 1)] } else { Vec::new() };
    // explicit edits for scripted edit operations (None: role_edit chooses)
    let mut script_edits: Vec<Option<TextEdit>> = vec![None; script.len()];
    if lang_id == "c08blk" {
        // HEAP leaves where the parser breaks reused nodes down; the trees are deleted in both orders
        let (t, sc) = blk_plan(&mut rng, seed, &text);
        text = t;
        script = sc.iter().map(|(k, h, _)| (*k, *h)).collect();
        script_edits = sc.into_iter().map(|(_, _, e)| e).collect();
        if let Ok(t) = std::env::var("C08_DEBUG_TEXT") {
            text = t.replace("\\n", "\n").into_bytes();
        }
    }
    let mut shared_parser = Parser::new();
    shared_parser.set_language(&b.language).unwrap();
    let parse = |shared: &mut Parser, text: &[u8], old: Option<&Tree>| -> Option<Tree> {
        if persist {
            progress_parse(shared, text, old)
        } else {
            let mut p = Parser::new();
            p.set_language(&b.language).unwrap();
            progress_parse(&mut p, text, old)
        }
    };
    writeln!(out, "spec {cid} seq {lang_id} {} {seed} {nops}", if persist { "persist" } else { "fresh" }).unwrap();
    out.flush().unwrap();
    let Some(t0) = parse(&mut shared_parser, &text, None) else { return 0 };
    let mut fam = Fam { trees: vec![Some(t0)], texts: vec![text], dirty: vec![false] };
    writeln!(out, "case {cid} mode={}", if persist { "persist" } else { "fresh" }).unwrap();
    emit_state(out, &fam);
    writeln!(out, "run").unwrap();
    let mut steps = 1;
    for opi in 0..nops {
        let live: Vec<usize> = (0..fam.trees.len()).filter(|&h| fam.trees[h].is_some()).collect();
        if live.is_empty() {
            break;
        }
        let mut h = *rng.pick(&live);
        let mut k = rng.below(10);
        if live.len() <= 1 && k >= 8 {
            k = 0; // keep at least one handle
        }
        if live.len() >= 6 && (k <= 1) {
            k = 9;
        }
        if let Some(&(sk, sh)) = script.get(opi) {
            if fam.trees.get(sh).map(|t| t.is_some()).unwrap_or(false) {
                k = sk;
                h = sh;
            }
        }
        match k {
            0 | 1 => {
                let t = fam.trees[h].as_ref().unwrap().clone();
                let new = fam.trees.len();
                fam.trees.push(Some(t));
                fam.texts.push(fam.texts[h].clone());
                fam.dirty.push(fam.dirty[h]);
                writeln!(out, "op copy {h} {new}").unwrap();
                kinds[0] += 1;
            }
            2 | 3 | 4 => {
                let text = fam.texts[h].clone();
                let alpha = alphabet_for(&text);
                let refs: Vec<&[u8]> = alpha.iter().map(|v| v.as_slice()).collect();
                let scripted = script_edits.get(opi).cloned().flatten().filter(|e| e.old_end <= text.len());
                let te = match scripted.or_else(|| if role && (opi < script.len() || rng.chance(2, 3)) { role_edit(&mut rng, &text, opi < script.len()) } else { None }) {
                    Some(te) => te,
                    None => random_edit(&mut rng, &text, &boundaries(&text), &refs),
                };
                let new_text = te.apply(&text);
                let ie = te.input_edit(&text, &new_text);
                fam.trees[h].as_mut().unwrap().edit(&ie);
                fam.texts[h] = new_text;
                fam.dirty[h] = true;
                writeln!(out, "op edit {h} {}", fmt_edit(&ie)).unwrap();
                kinds[1] += 1;
            }
            5 | 6 => {
                let text = fam.texts[h].clone();
                let old = fam.trees[h].as_ref().unwrap();
                match parse(&mut shared_parser, &text, Some(old)) {
                    Some(t) => {
                        let new = fam.trees.len();
                        fam.trees.push(Some(t));
                        fam.texts.push(text);
                        fam.dirty.push(false);
                        writeln!(out, "op reparse {h} {new}").unwrap();
                        kinds[2] += 1;
                    }
                    None => {
                        writeln!(out, "op query {h}").unwrap();
                    }
                }
            }
            7 => {
                if rng.chance(1, 2) {
                    let _ = count_query(&b.language, fam.trees[h].as_ref().unwrap(), &fam.texts[h]);
                    writeln!(out, "op query {h}").unwrap();
                    kinds[3] += 1;
                } else {
                    let _ = walk_count(fam.trees[h].as_ref().unwrap());
                    writeln!(out, "op walk {h}").unwrap();
                    kinds[4] += 1;
                }
            }
            _ => {
                fam.trees[h] = None;
                writeln!(out, "op delete {h}").unwrap();
                kinds[5] += 1;
            }
        }
        emit_state(out, &fam);
        writeln!(out, "run").unwrap();
        steps += 1;
    }
    drop(fam);
    drop(shared_parser);
    // every history ends with nothing live: allocator back at the level it started from
    writeln!(out, "histend {cid} live_delta={}", LIVE.load(Ordering::SeqCst) - live0).unwrap();
    steps
}

/// The per-thread work: a deterministic sequence of operations on the thread's own copy.
fn thread_work(lang: &Language, mut tree: Tree, mut text: Vec<u8>, seed: u64, nops: usize) -> (Tree, Vec<u8>, Vec<usize>) {
    let mut rng = Rng::new(seed);
    let mut parser = Parser::new();
    parser.set_language(lang).unwrap();
    let mut obs = Vec::new();
    for _ in 0..nops {
        match rng.below(8) {
            0 | 1 | 2 => {
                let alpha = alphabet_for(&text);
                let refs: Vec<&[u8]> = alpha.iter().map(|v| v.as_slice()).collect();
                let te = random_edit(&mut rng, &text, &boundaries(&text), &refs);
                let new_text = te.apply(&text);
                let ie = te.input_edit(&text, &new_text);
                tree.edit(&ie);
                text = new_text;
            }
            3 | 4 => {
                if let Some(t) = progress_parse(&mut parser, &text, Some(&tree)) {
                    tree = t; // drops the old handle: delete
                }
            }
            5 => obs.push(count_query(lang, &tree, &text)),
            6 => obs.push(walk_count(&tree)),
            _ => {
                let c = tree.clone();
                obs.push(c.root_node().descendant_count());
                drop(c);
            }
        }
    }
    (tree, text, obs)
}

fn thr_case(out: &mut impl Write, cid: &str, lang_id: &str, b: &zoo::Built, seed: u64, nthreads: usize, nops: usize) -> bool {
    let mut rng = Rng::new(seed);
    let text = gen_doc(b, lang_id, &mut rng);
    let mut p = Parser::new();
    p.set_language(&b.language).unwrap();
    writeln!(out, "spec {cid} thr {lang_id} {seed} {nthreads} {nops}").unwrap();
    out.flush().unwrap();
    let Some(base) = progress_parse(&mut p, &text, None) else { return false };
    drop(p);
    let seeds: Vec<u64> = (0..nthreads).map(|_| rng.next()).collect();
    // sequential reference: each sequence on its own copy of the base tree, one after the other
    let mut seq_res = Vec::new();
    for s in &seeds {
        seq_res.push(thread_work(&b.language, base.clone(), text.clone(), *s, nops));
    }
    writeln!(out, "case {cid} mode=fresh").unwrap();
    // state 0: base + the sequential results; then the base + threaded results; `same` = all handles equal
    let seq_obs: Vec<(Vec<u8>, Vec<usize>)> = seq_res.iter().map(|r| (r.1.clone(), r.2.clone())).collect();
    let mut fam_seq = Fam { trees: std::iter::once(Some(base)).chain(seq_res.into_iter().map(|r| Some(r.0))).collect(), texts: vec![], dirty: vec![] };
    emit_state(out, &fam_seq);
    writeln!(out, "run").unwrap();
    let base = fam_seq.trees[0].take().unwrap();
    drop(fam_seq);
    // threaded: the same sequences concurrently
    let thr_res: Vec<(Tree, Vec<u8>, Vec<usize>)> = std::thread::scope(|sc| {
        let hs: Vec<_> = seeds
            .iter()
            .map(|s| {
                let copy = base.clone();
                let text = text.clone();
                let lang = b.language.clone();
                let s = *s;
                sc.spawn(move || thread_work(&lang, copy, text, s, nops))
            })
            .collect();
        hs.into_iter().map(|h| h.join().unwrap()).collect()
    });
    let mut obs_equal = true;
    for (a, t) in seq_obs.iter().zip(thr_res.iter()) {
        obs_equal &= a.1 == t.2 && a.0 == t.1;
    }
    let fam_thr = Fam { trees: std::iter::once(Some(base)).chain(thr_res.into_iter().map(|r| Some(r.0))).collect(), texts: vec![], dirty: vec![] };
    writeln!(out, "op same 0").unwrap();
    emit_state(out, &fam_thr);
    writeln!(out, "run").unwrap();
    writeln!(out, "threads {cid} n={nthreads} nops={nops} obs_equal={}", obs_equal as u8).unwrap();
    obs_equal
}

fn main() {
    limit_resources();
    unsafe {
        tree_sitter::set_allocator(Some(tree_sitter::Allocator { malloc: c_malloc, calloc: c_calloc, realloc: c_realloc, free: c_free }));
    }
    let args: Vec<String> = std::env::args().collect();
    let out_path = args.get(1).expect("usage: c08 <ops-file> [--spec file]").clone();
    let mut out = std::io::BufWriter::new(std::fs::File::create(&out_path).unwrap());
    let thorough = tier_is_thorough();
    let mut kinds = [0usize; 7];
    let mut langs_cache: std::collections::HashMap<String, zoo::Built> = std::collections::HashMap::new();
    let mut get = |id: &str| -> Option<zoo::Built> {
        if !langs_cache.contains_key(id) {
            match zoo::load(id) {
                Ok(b) => {
                    langs_cache.insert(id.to_string(), b);
                }
                Err(e) => {
                    eprintln!("skip {id}: {e}");
                    return None;
                }
            }
        }
        let b = &langs_cache[id];
        Some(zoo::Built { name: b.name.clone(), language: b.language.clone(), grammar_json: b.grammar_json.clone(), parser_c: String::new(), dir: b.dir.clone() })
    };
    let mut specs: Vec<String> = Vec::new();
    if args.get(2).map(|s| s == "--spec").unwrap_or(false) {
        specs = std::fs::read_to_string(&args[3]).unwrap().lines().map(|s| s.to_string()).collect();
    } else {
        if let Some(c) = zoo_corpus("c08") {
            specs.extend(c.lines().filter(|l| !l.trim().is_empty() && !l.starts_with('#')).map(|s| s.to_string()));
        }
        let mut rng = Rng::new(seed_from_env());
        let langs = ["arith", "lst", "stmt", "jsonish", "fx_external_tokens", "c08scan", "fx_inline_rules", "fx_aliased_rules", "fx_external_and_internal_tokens", "c08scan"];
        let (nseq, nthr) = if thorough { (160, 48) } else { (28, 10) };
        for i in 0..nseq {
            let lang = langs[i % langs.len()];
            let mode = if i % 4 == 3 { "persist" } else { "fresh" };
            specs.push(format!("seq {lang} {mode} {} {}", rng.next() % 1_000_000_007, rng.range(5, 40)));
        }
        for i in 0..nthr {
            let lang = langs[i % 4];
            let n = [2, 3, 4, 8, 16][i % 5];
            specs.push(format!("thr {lang} {} {n} {}", rng.next() % 1_000_000_007, rng.range(10, if thorough { 200 } else { 60 })));
        }
        // cancelled re-parses with an old tree, then reset / resume, then everything dropped (wave 7)
        for i in 0..(if thorough { 40 } else { 6 }) {
            let lang = ["stmt", "lst", "c08blk", "arith", "c08scan", "jsonish"][i % 6];
            specs.push(format!("cancel {lang} {}", rng.next() % 1_000_000_007));
        }
        // heap leaves at breakdown positions, both delete orders (wave 6)
        for i in 0..(if thorough { 60 } else { 12 }) {
            let mode = if i % 3 == 2 { "persist" } else { "fresh" };
            specs.push(format!("seq c08blk {mode} {} {}", rng.next() % 1_000_000_007, rng.range(8, 30)));
        }
        // one token as extra AND as rule member, role-switching edits of copies (wave 5)
        for i in 0..(if thorough { 60 } else { 10 }) {
            let mode = if i % 3 == 2 { "persist" } else { "fresh" };
            specs.push(format!("seq c08role {mode} {} {}", rng.next() % 1_000_000_007, rng.range(8, 40)));
        }
    }
    let mut steps = 0usize;
    let mut thr_ok = 0usize;
    let mut thr_n = 0usize;
    for (i, line) in specs.iter().enumerate() {
        let f: Vec<&str> = line.split_whitespace().collect();
        // tolerate a leading case id (replay passes the ops `spec` payload)
        let f: Vec<&str> = if f.len() >= 2 && (f[1] == "seq" || f[1] == "thr" || f[1] == "cancel") { f[1..].to_vec() } else { f };
        match f.as_slice() {
            ["seq", lang, mode, seed, nops] => {
                if let Some(b) = get(lang) {
                    steps += seq_history(&mut out, &format!("q{i}"), lang, &b, *mode == "persist", seed.parse().unwrap(), nops.parse().unwrap(), &mut kinds);
                }
            }
            ["cancel", lang, seed] => {
                if let Some(b) = get(lang) {
                    steps += cancel_history(&mut out, &format!("k{i}"), lang, &b, seed.parse().unwrap());
                }
            }
            ["thr", lang, seed, n, nops] => {
                if let Some(b) = get(lang) {
                    thr_n += 1;
                    if thr_case(&mut out, &format!("t{i}"), lang, &b, seed.parse().unwrap(), n.parse().unwrap(), nops.parse().unwrap()) {
                        thr_ok += 1;
                    }
                    steps += 2;
                }
            }
            _ => {}
        }
    }
    drop(get);
    langs_cache.clear();
    let live = LIVE.load(Ordering::SeqCst);
    writeln!(out, "alloc live={live} total={}", ALLOCS.load(Ordering::Relaxed)).unwrap();
    writeln!(out, "kinds copy={} edit={} reparse={} query={} walk={} delete={}", kinds[0], kinds[1], kinds[2], kinds[3], kinds[4], kinds[5]).unwrap();
    out.flush().unwrap();
    eprintln!("c08: {steps} steps, threaded {thr_ok}/{thr_n} equal, allocator live={live}");
}
