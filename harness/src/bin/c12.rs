//! C12 explorer: how much of the old tree does a re-parse after ONE small edit reuse?
//!
//! usage: c12 <ops-file> [--spec <file>]
//!
//! A case is `<lang> <tokens> <where> <seed>`: a generated error-free document of about `tokens`
//! tokens of zoo language `lang` (many grammar-directed units + one deeply nested block), one
//! numeric token replaced at relative position `where` ∈ {start,q1,mid,q3,end,deep}.
//! Measured on the REAL runtime: `lexed_lookahead` log events of the incremental parse, bytes handed
//! out by the (4-byte chunked, counting) read callback, and the three internal dumps (tree before
//! the edit, edited tree, new tree) from which the Lean driver `tsv-c12` computes node sharing and
//! evaluates the judge.
//!
//! Round 11 — interrupted drives: `where` = `<pos>@<mode>` re-parses the same edited tree with a
//! progress callback that CANCELS the parse (`ControlFlow::Break`) at chosen callback invocations and
//! then calls parse again WITHOUT `reset` (same old tree, same input) until the tree is complete.
//! `<mode>` ∈ early (callback 0) | middle (N/2) | late (N-1) | twice (N/3 and 2N/3) | `k<a>[,<b>…]`
//! (explicit 0-based callback indices, counted over the whole drive), N = number of callback
//! invocations of the same re-parse when it is not cancelled.  The three quantities are SUMMED over
//! the interrupted run and all resumed runs (one logger counter, one read-callback counter, sharing of
//! the final tree with the edited old tree) and judged against the same thresholds.
use std::io::Write;
use std::ops::ControlFlow;
use std::sync::atomic::{AtomicUsize, Ordering};
use std::sync::Arc;
use tree_sitter::{LogType, ParseOptions, ParseState, Parser, Point, Tree};
use tsv_harness::*;

const CHUNK: usize = 4;

fn deep_block(lang: &str, depth: usize) -> String {
    match lang {
        "lst" => format!("{}7{}", "(".repeat(depth), ")".repeat(depth)),
        "jsonish" => format!("{}7{}", "[".repeat(depth), "]".repeat(depth)),
        "stmt" => format!("{}x = 7;{}", "{ ".repeat(depth), " }".repeat(depth)),
        "arith" => format!("{}7{};", "(".repeat(depth), ")".repeat(depth)),
        "pyish" => {
            let mut t = String::new();
            for d in 0..depth {
                t.push_str(&format!("{}if a:\n", " ".repeat(d)));
            }
            // a second statement keeps the edited token away from the chain of zero-width DEDENTs
            t.push_str(&format!("{}7\n{}zz\n", " ".repeat(depth), " ".repeat(depth)));
            t
        }
        "declscan" => format!("{}x 7{}", "( ".repeat(1), " )".repeat(1)),
        "markscan" => format!("{}@m x 7 ;{}", "{ ".repeat(depth), " }".repeat(depth)),
        "cdecl" => format!("{}t * p; x * 7;{}", "{ ".repeat(depth), " }".repeat(depth)),
        _ => String::new(),
    }
}

/// Deterministic document for (lang, tokens, seed): units from the grammar + a deep block in the middle.
fn build_doc(b: &zoo::Built, lang: &str, tokens: usize, seed: u64) -> Vec<u8> {
    let gg = gen::GrammarGen::new(&b.grammar_json, zoo::read_zoo_file(lang, "samples.json").as_deref());
    let mut rng = Rng::new(seed ^ 0xC12);
    let mut probe = Parser::new();
    probe.set_language(&b.language).unwrap();
    let mut units: Vec<(Vec<u8>, usize)> = Vec::new();
    let mut total = 0usize;
    let depth = 24;
    let mut guard = 0;
    while total < tokens && guard < tokens * 4 + 100 {
        guard += 1;
        let toks = gg.sentence(&mut rng, 12);
        if toks.is_empty() && lang != "pyish" {
            continue;
        }
        let (mut text, _) = gg.render(&toks, &mut rng);
        let mut ntoks = toks.len();
        if lang == "pyish" {
            text = gen_pyish(&mut rng, 12);
            ntoks = text.split(|b: &u8| b.is_ascii_whitespace() || *b == b'(' || *b == b')' || *b == b',' || *b == b':').filter(|w| !w.is_empty()).count() * 2;
        }
        // declscan documents contain NO external token at all (stateless scanner: the edit below adds
        // the first one, `7` -> `q!`)
        if lang == "declscan" && text.contains(&b'!') {
            continue;
        }
        // keep only error-free units (the property is about error-free documents)
        match probe.parse(&text, None) {
            Some(t) if !t.root_node().has_error() => {}
            _ => continue,
        }
        total += ntoks;
        units.push((text, ntoks));
    }
    let mut doc = Vec::new();
    let half = units.len() / 2;
    for (i, (u, _)) in units.iter().enumerate() {
        // GLR calibration grammar: dynamically resolved ambiguities sprinkled through the document,
        // the first one before every edit position
        if lang == "cdecl" && i % 40 == 0 {
            doc.extend_from_slice(b"t * p;\n");
        }
        // pyish: no artificial deep block — a long chain of zero-width DEDENTs next to the edit makes the
        // runtime skip the whole following sibling subtree (scanner-state mismatch), see notes/C12.md
        if i == half && lang != "pyish" {
            doc.extend_from_slice(deep_block(lang, depth).as_bytes());
            if !doc.ends_with(b"\n") {
                doc.push(b'\n');
            }
        }
        doc.extend_from_slice(u);
        doc.push(b'\n');
    }
    doc
}

fn py_expr(rng: &mut Rng) -> String {
    let id = *rng.pick(&["a", "b", "foo", "x_y", "ifx", "z"]);
    match rng.below(5) {
        0 => format!("{}", rng.below(100)),
        1 => format!("{id}()"),
        2 => format!("{id}({})", rng.below(10)),
        _ => id.to_string(),
    }
}

fn py_block(rng: &mut Rng, indent: usize, budget: &mut isize, depth: usize, out: &mut String) {
    let n = 1 + rng.below(3);
    for _ in 0..n {
        out.push_str(&" ".repeat(indent));
        let kind = if *budget > 3 && depth < 5 { rng.below(5) } else { 0 };
        match kind {
            3 | 4 => {
                *budget -= 4;
                let step = *rng.pick(&[1usize, 2, 4]);
                let kw = if kind == 3 { "if" } else { "while" };
                out.push_str(&format!("{kw} {}:\n", py_expr(rng)));
                py_block(rng, indent + step, budget, depth + 1, out);
                if kind == 3 && rng.chance(1, 3) {
                    out.push_str(&" ".repeat(indent));
                    out.push_str("else:\n");
                    py_block(rng, indent + step, budget, depth + 1, out);
                }
            }
            _ => {
                *budget -= 2;
                out.push_str(&py_expr(rng));
                if rng.chance(1, 4) {
                    out.push_str(&format!(", {}", py_expr(rng)));
                }
                out.push('\n');
                if rng.chance(1, 8) {
                    out.push('\n');
                }
            }
        }
    }
}

fn gen_pyish(rng: &mut Rng, budget: usize) -> Vec<u8> {
    let mut out = String::new();
    let mut b = budget as isize;
    while b > 0 {
        py_block(rng, 0, &mut b, 0, &mut out);
    }
    out.into_bytes()
}

fn leaves(tree: &Tree) -> Vec<(usize, usize, usize)> {
    // (start, end, depth)
    let mut v = Vec::new();
    let mut c = tree.walk();
    let mut depth = 0;
    loop {
        let n = c.node();
        if n.child_count() == 0 {
            v.push((n.start_byte(), n.end_byte(), depth));
        }
        if c.goto_first_child() {
            depth += 1;
            continue;
        }
        loop {
            if c.goto_next_sibling() {
                break;
            }
            if !c.goto_parent() {
                return v;
            }
            depth -= 1;
        }
    }
}

fn is_num(t: &[u8]) -> bool {
    !t.is_empty() && t.iter().all(|b| b.is_ascii_digit())
}

fn counted_parse(parser: &mut Parser, text: &[u8], old: Option<&Tree>, served: Arc<AtomicUsize>) -> Option<Tree> {
    let len = text.len();
    parser.parse_with_options(
        &mut |i: usize, _p: Point| -> &[u8] {
            if i >= len {
                &[]
            } else {
                let s = &text[i..(i + CHUNK).min(len)];
                served.fetch_add(s.len(), Ordering::Relaxed);
                s
            }
        },
        old,
        None,
    )
}

/// One re-parse driven through the progress callback: cancel at the callback invocations listed in
/// `cancel_at` (0-based, counted over the whole drive), resume by calling parse again without reset.
/// Returns (tree, callbacks seen, cancellations that happened, per-run (lexed, bytes) deltas are taken by the caller).
fn interrupted_parse(
    parser: &mut Parser,
    text: &[u8],
    old: &Tree,
    served: &Arc<AtomicUsize>,
    cancel_at: &[usize],
    mut after_run: impl FnMut(),
) -> (Option<Tree>, usize, usize) {
    let len = text.len();
    let mut n = 0usize;
    let mut cancelled = 0usize;
    for _run in 0..cancel_at.len() + 2 {
        let r = {
            let mut cb = |_: &ParseState| {
                let stop = cancel_at.contains(&n);
                n += 1;
                if stop || n > 10_000_000 {
                    ControlFlow::Break(())
                } else {
                    ControlFlow::Continue(())
                }
            };
            let sv = served.clone();
            parser.parse_with_options(
                &mut |i: usize, _p: Point| -> &[u8] {
                    if i >= len {
                        &[]
                    } else {
                        let s = &text[i..(i + CHUNK).min(len)];
                        sv.fetch_add(s.len(), Ordering::Relaxed);
                        s
                    }
                },
                Some(old),
                Some(ParseOptions::new().progress_callback(&mut cb)),
            )
        };
        after_run();
        match r {
            Some(t) => return (Some(t), n, cancelled),
            None => cancelled += 1,
        }
    }
    parser.reset();
    (None, n, cancelled)
}

/// Resolve an interruption mode to callback indices, given the callback count of the uncancelled re-parse.
fn cancel_points(mode: &str, n: usize) -> Vec<usize> {
    if let Some(list) = mode.strip_prefix('k') {
        return list.split(',').filter_map(|x| x.parse().ok()).collect();
    }
    if n == 0 {
        return vec![];
    }
    let mut v = match mode {
        "early" => vec![0],
        "middle" => vec![n / 2],
        "late" => vec![n - 1],
        "twice" => vec![n / 3, (2 * n) / 3],
        _ => vec![],
    };
    v.dedup();
    v
}

/// Base (uninterrupted) case for edit position `wher` when `emit_base`, then one interrupted drive per
/// entry of `modes` on the same document / edit / old tree.  Returns whether everything asked for was measured.
fn run_case(out: &mut impl Write, b: &zoo::Built, lang: &str, tokens: usize, wher: &str, seed: u64, emit_base: bool, modes: &[String]) -> bool {
    let doc = build_doc(b, lang, tokens, seed);
    let mut parser = Parser::new();
    parser.set_language(&b.language).unwrap();
    let mut tree = match parser.parse(&doc, None) {
        Some(t) => t,
        None => return false,
    };
    let ls = leaves(&tree);
    let ntok = ls.len();
    let indent_at = |line_start: usize| -> Option<usize> {
        let mut i = line_start;
        while i < doc.len() && doc[i] == b' ' {
            i += 1;
        }
        if i >= doc.len() || doc[i] == b'\n' {
            None
        } else {
            Some(i - line_start)
        }
    };
    // pyish: a token that is directly followed by zero-width DEDENTs is a different (pathological)
    // measurement — see notes/C12.md; take numbers whose next non-blank line is not less indented
    let no_dedent_follows = |a: usize| -> bool {
        if lang != "pyish" {
            return true;
        }
        let ls0 = doc[..a].iter().rposition(|b| *b == b'\n').map(|p| p + 1).unwrap_or(0);
        let cur = indent_at(ls0).unwrap_or(0);
        let mut p = a;
        loop {
            match doc[p..].iter().position(|b| *b == b'\n') {
                None => return false,
                Some(k) => {
                    p += k + 1;
                    if p >= doc.len() {
                        return false;
                    }
                    if let Some(n) = indent_at(p) {
                        return n >= cur;
                    }
                }
            }
        }
    };
    let nums: Vec<&(usize, usize, usize)> = ls.iter().filter(|(a, e, _)| is_num(&doc[*a..*e]) && no_dedent_follows(*a)).collect();
    if nums.is_empty() {
        return false;
    }
    let target_byte = match wher {
        "start" => 0,
        "q1" => doc.len() / 4,
        "mid" => doc.len() / 2,
        "q3" => doc.len() * 3 / 4,
        "end" => doc.len(),
        _ => 0,
    };
    let pick = if wher == "deep" {
        **nums.iter().max_by_key(|(_, _, d)| *d).unwrap()
    } else {
        **nums.iter().min_by_key(|(a, _, _)| (*a as isize - target_byte as isize).abs()).unwrap()
    };
    let old_text = &doc[pick.0..pick.1];
    let ins: Vec<u8> = if lang == "declscan" {
        b"q!".to_vec() // a `tagged` token of the stateless external scanner: the document's first external token
    } else if old_text == b"42" {
        b"43".to_vec()
    } else {
        b"42".to_vec()
    };
    let te = TextEdit { start: pick.0, old_end: pick.1, ins };
    let new = te.apply(&doc);
    let ie = te.input_edit(&doc, &new);
    let before = dump_tree(&tree);
    tree.edit(&ie);
    let edited = dump_tree(&tree);
    let lexed = Arc::new(AtomicUsize::new(0));
    let reused = Arc::new(AtomicUsize::new(0));
    let (l2, r2) = (lexed.clone(), reused.clone());
    parser.set_logger(Some(Box::new(move |t, m| {
        if t == LogType::Parse {
            if m.starts_with("lexed_lookahead") {
                l2.fetch_add(1, Ordering::Relaxed);
            } else if m.starts_with("reuse_node") {
                r2.fetch_add(1, Ordering::Relaxed);
            }
            if std::env::var("C12_DEBUG").is_ok() && !m.starts_with("process") && !m.starts_with("reuse_node") && !m.starts_with("shift") {
                eprintln!("LOG {m}");
            }
        }
    })));
    let served = Arc::new(AtomicUsize::new(0));
    let incr = match counted_parse(&mut parser, &new, Some(&tree), served.clone()) {
        Some(t) => t,
        None => return false,
    };
    parser.set_logger(None);
    // reference: the same document parsed from scratch through the same counting callback
    let mut fresh = Parser::new();
    fresh.set_language(&b.language).unwrap();
    let served0 = Arc::new(AtomicUsize::new(0));
    let scratch = match counted_parse(&mut fresh, &new, None, served0.clone()) {
        Some(t) => t,
        None => return false,
    };
    if emit_base {
        let cid = format!("{lang}-{tokens}-{wher}");
        writeln!(out, "spec {cid} {lang} {tokens} {wher} {seed}").unwrap();
        writeln!(out, "case {cid}").unwrap();
        writeln!(out, "lang {lang}").unwrap();
        writeln!(out, "size {tokens}").unwrap();
        writeln!(out, "where {wher}").unwrap();
        writeln!(out, "edit {}", fmt_edit(&ie)).unwrap();
        writeln!(
            out,
            "measure tokens={} doc_bytes={} lexed={} reuse_events={} bytes_served={} scratch_bytes_served={} incr_error={} scratch_error={} same_sexp={}",
            ntok,
            new.len(),
            lexed.load(Ordering::Relaxed),
            reused.load(Ordering::Relaxed),
            served.load(Ordering::Relaxed),
            served0.load(Ordering::Relaxed),
            incr.root_node().has_error() as u8,
            scratch.root_node().has_error() as u8,
            (incr.root_node().to_sexp() == scratch.root_node().to_sexp()) as u8
        )
        .unwrap();
        if tokens <= 20000 {
            writeln!(out, "before\n{before}").unwrap();
        }
        writeln!(out, "edited\n{edited}").unwrap();
        writeln!(out, "new\n{}", dump_tree(&incr)).unwrap();
        writeln!(out, "run").unwrap();
    }
    // ---- interrupted drives: the same re-parse cancelled by the progress callback and resumed ----
    let mut ok = true;
    let scratch_sexp = scratch.root_node().to_sexp();
    for mode in modes {
        let cid = format!("{lang}-{tokens}-{wher}@{mode}");
        // N = callback invocations of this re-parse when nothing is cancelled
        let (t0, ncb, _) = interrupted_parse(&mut parser, &new, &tree, &Arc::new(AtomicUsize::new(0)), &[], || {});
        if t0.is_none() {
            ok = false;
            continue;
        }
        drop(t0);
        let ks = cancel_points(mode, ncb);
        let lexed_i = Arc::new(AtomicUsize::new(0));
        let reused_i = Arc::new(AtomicUsize::new(0));
        let resumes_i = Arc::new(AtomicUsize::new(0));
        let (l2, r2, s2) = (lexed_i.clone(), reused_i.clone(), resumes_i.clone());
        parser.set_logger(Some(Box::new(move |t, m| {
            if t == LogType::Parse {
                if m.starts_with("lexed_lookahead") {
                    l2.fetch_add(1, Ordering::Relaxed);
                } else if m.starts_with("reuse_node") {
                    r2.fetch_add(1, Ordering::Relaxed);
                } else if m.starts_with("resume_parsing") {
                    s2.fetch_add(1, Ordering::Relaxed);
                }
            }
        })));
        let served_i = Arc::new(AtomicUsize::new(0));
        let mut marks: Vec<(usize, usize)> = Vec::new();
        let (ti, seen, cancelled) = interrupted_parse(&mut parser, &new, &tree, &served_i, &ks, || {
            marks.push((lexed_i.load(Ordering::Relaxed), served_i.load(Ordering::Relaxed)))
        });
        parser.set_logger(None);
        let per_run = |f: fn(&(usize, usize)) -> usize| -> String {
            let mut prev = 0;
            let mut v = Vec::new();
            for m in &marks {
                v.push((f(m) - prev).to_string());
                prev = f(m);
            }
            if v.is_empty() { "-".into() } else { v.join(",") }
        };
        let ks_s = if ks.is_empty() { "-".to_string() } else { ks.iter().map(|k| k.to_string()).collect::<Vec<_>>().join(",") };
        writeln!(
            out,
            "interrupt {cid} callbacks_uncancelled={ncb} cancel_at={ks_s} cancelled={cancelled} runs={} callbacks_seen={seen} resume_events={} lexed_per_run={} bytes_per_run={} completed={}",
            marks.len(),
            resumes_i.load(Ordering::Relaxed),
            per_run(|m| m.0),
            per_run(|m| m.1),
            ti.is_some() as u8
        )
        .unwrap();
        let ti = match ti {
            Some(t) => t,
            None => {
                ok = false;
                continue;
            }
        };
        if cancelled == 0 {
            continue; // nothing was interrupted: identical to the base case, not emitted
        }
        writeln!(out, "spec {cid} {lang} {tokens} {wher}@{mode} {seed}").unwrap();
        writeln!(out, "case {cid}").unwrap();
        writeln!(out, "lang {lang}").unwrap();
        writeln!(out, "size {tokens}").unwrap();
        writeln!(out, "where {wher}@{mode}").unwrap();
        writeln!(out, "edit {}", fmt_edit(&ie)).unwrap();
        writeln!(
            out,
            "measure tokens={} doc_bytes={} lexed={} reuse_events={} bytes_served={} scratch_bytes_served={} incr_error={} scratch_error={} same_sexp={}",
            ntok,
            new.len(),
            lexed_i.load(Ordering::Relaxed),
            reused_i.load(Ordering::Relaxed),
            served_i.load(Ordering::Relaxed),
            served0.load(Ordering::Relaxed),
            ti.root_node().has_error() as u8,
            scratch.root_node().has_error() as u8,
            (ti.root_node().to_sexp() == scratch_sexp) as u8
        )
        .unwrap();
        writeln!(out, "edited\n{edited}").unwrap();
        writeln!(out, "new\n{}", dump_tree(&ti)).unwrap();
        writeln!(out, "run").unwrap();
    }
    ok
}

/// Interrupted drives of a language: two (edit position, interruption mode) pairs, the same for both
/// sizes (so the growth comparison applies), rotated over the languages by the seed.
const SCHEDULE: [(&str, &str); 8] = [
    ("start", "early"),
    ("mid", "middle"),
    ("end", "late"),
    ("q1", "twice"),
    ("deep", "middle"),
    ("q3", "early"),
    ("end", "early"),
    ("start", "twice"),
];

fn modes_for(lang_index: usize, seed: u64, wher: &str) -> Vec<String> {
    let base = lang_index * 2 + (seed % 8) as usize;
    (0..2).map(|j| SCHEDULE[(base + j) % 8]).filter(|(p, _)| *p == wher).map(|(_, m)| m.to_string()).collect()
}

fn main() {
    limit_resources();
    let args: Vec<String> = std::env::args().collect();
    let out_path = args.get(1).expect("usage: c12 <ops-file> [--spec file]").clone();
    let mut out = std::io::BufWriter::with_capacity(1 << 20, std::fs::File::create(&out_path).unwrap());
    let mut n = 0;
    if args.get(2).map(|s| s == "--spec").unwrap_or(false) {
        for line in std::fs::read_to_string(&args[3]).unwrap().lines() {
            let f: Vec<&str> = line.split_whitespace().collect();
            let f = if f.len() == 5 { &f[1..] } else { &f[..] };
            if f.len() != 4 {
                continue;
            }
            let b = zoo::load(f[0]).expect("language");
            let done = match f[2].split_once('@') {
                Some((pos, mode)) => run_case(&mut out, &b, f[0], f[1].parse().unwrap(), pos, f[3].parse().unwrap(), false, &[mode.to_string()]),
                None => run_case(&mut out, &b, f[0], f[1].parse().unwrap(), f[2], f[3].parse().unwrap(), true, &[]),
            };
            if done {
                n += 1;
            }
        }
        out.flush().unwrap();
        eprintln!("c12: replayed {n} cases");
        return;
    }
    let seed = seed_from_env();
    let sizes: &[usize] = if tier_is_thorough() { &[1000, 10000, 100000] } else { &[1000, 10000] };
    for (li, lang) in ["lst", "arith", "jsonish", "stmt", "cdecl", "pyish", "markscan", "declscan"].into_iter().enumerate() {
        let b = match zoo::load(lang) {
            Ok(b) => b,
            Err(e) => {
                eprintln!("skip {lang}: {e}");
                continue;
            }
        };
        for &size in sizes {
            for wher in ["start", "q1", "mid", "q3", "end", "deep"] {
                if run_case(&mut out, &b, lang, size, wher, seed, true, &modes_for(li, seed, wher)) {
                    n += 1;
                } else {
                    eprintln!("c12: case {lang} {size} {wher} could not be built");
                }
            }
        }
    }
    out.flush().unwrap();
    eprintln!("c12: wrote {n} cases to {out_path}");
}
