use tsv_harness::*;
use tree_sitter::Parser;
fn main() {
    let mut rng = Rng::new(seed_from_env());
    let only: Vec<String> = std::env::args().skip(1).collect();
    for id in zoo::list() {
        if !only.is_empty() && !only.contains(&id) { continue; }
        match zoo::load(&id) {
            Err(e) => { println!("{id}: BUILD ERROR {e}"); continue; }
            Ok(b) => {
                let gg = gen::GrammarGen::new(&b.grammar_json, zoo::read_zoo_file(&id, "samples.json").as_deref());
                let mut p = Parser::new();
                p.set_language(&b.language).unwrap();
                let mut errs = 0; let mut total = 0; let mut bytes = 0;
                let mut sample = String::new();
                for _ in 0..20 {
                    let toks = gg.sentence(&mut rng, 30);
                    let (text, _b) = gg.render(&toks, &mut rng);
                    let tree = p.parse(&text, None).unwrap();
                    total += 1; bytes += text.len();
                    if tree.root_node().has_error() { errs += 1; if sample.is_empty() { sample = format!("{:?} => {}", String::from_utf8_lossy(&text), tree.root_node().to_sexp()); } }
                }
                println!("{id}: {total} docs, {bytes} bytes, {errs} with errors  {}", sample.chars().take(300).collect::<String>());
            }
        }
    }
}
