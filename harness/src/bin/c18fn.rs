//! C18 function-level explorer: calls the REAL private `line_range` / `utf16_len` of
//! crates/tags/src/tags.rs through the guarded hook `hooks/C18-reexport.diff`
//! (`tree_sitter_tags::verif`).  Built by the check only when the hook is present in /repo:
//! `cargo rustc --release --offline --bin c18fn -- --cfg tsv_c18_hook`; without that cfg this is
//! a stub, so `cargo build --bins` always succeeds.
//! usage: c18fn <ops-file>      (lines `u16 …` / `lr …` for the Lean driver tsv-c18)
#[cfg(not(tsv_c18_hook))]
fn main() {
    println!("c18fn: built without --cfg tsv_c18_hook (hook hooks/C18-reexport.diff not applied); nothing to do");
    std::process::exit(3);
}

#[cfg(tsv_c18_hook)]
fn main() {
    use std::io::Write;
    use tree_sitter::Point;
    use tree_sitter_tags::verif::{line_range, utf16_len};
    use tsv_harness::*;
    limit_resources();
    let args: Vec<String> = std::env::args().collect();
    let mut out = std::io::BufWriter::new(std::fs::File::create(&args[1]).unwrap());
    let mut rng = Rng::new(seed_from_env() ^ 0x18f);
    let n = if tier_is_thorough() { 40000 } else { 4000 };
    const PIECES: &[&[u8]] = &[b"a", b"foo", b" ", b"  ", b"\t", b"\n", b"\r\n", b"\x0c", b"\x0b", "é".as_bytes(), "€".as_bytes(), "😀".as_bytes(),
        &[0xff], &[0xe2], &[0xe2, 0x82], &[0xc0, 0xaf], &[0xed, 0xa0, 0x80], &[0xf0, 0x9f], b"x = y;", b"// c"];
    let mut nlr = 0;
    for k in 0..n {
        let mut text = Vec::new();
        for _ in 0..rng.below(14) {
            text.extend_from_slice(PIECES[rng.below(PIECES.len())]);
        }
        writeln!(out, "u16 fn-hu{k} {} {}", if text.is_empty() { "-".to_string() } else { hex(&text) }, utf16_len(&text)).unwrap();
        if text.is_empty() {
            continue;
        }
        // line_range precondition (what TagsIter passes): start_byte < len is a byte of a node on
        // the row, column = bytes since the last newline
        let sb = rng.below(text.len());
        let p = point_at(&text, sb);
        let limit = *rng.pick(&[0usize, 1, 2, 3, 4, 5, 7, 10, 30, 180]);
        let r = line_range(&text, sb, Point::new(p.row, p.column), limit);
        writeln!(out, "lr fn-hl{k} {} {sb} {} {limit} {} {}", hex(&text), p.column, r.start, r.end).unwrap();
        nlr += 1;
    }
    out.flush().unwrap();
    println!("c18fn: utf16_len cases={n} line_range cases={nlr}");
}
