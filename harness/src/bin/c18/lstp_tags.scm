; placement classes on grammar lst
; BEHIND: first word of a group is tagged, the word right after it is the name
(paren (item (word) @definition.first) . (item (word) @name))

; in FRONT: the name is a word, the tagged node is the number right after it
((item (word) @name) . (item (num) @reference.after))

; EQUAL
(num) @name @reference.num

; INSIDE
(paren . (item (word) @name)) @definition.group
