; a realistic late match: a loop documented by a trailing string statement ("docstring" last in the body);
; the match finishes at that string, after the calls inside the body were tagged and flushed
(while_statement
  cond: (identifier) @name
  body: (block (expression_statement (string) @doc) .)) @definition.loop

; calls
(call_expression function: (identifier) @name) @reference.call

; every identifier that is not a local (as in e.g. the Ruby tags query)
((identifier) @name @reference.ident
 (#is-not? local))
