; relative placement of the @name node and the tagged node: inside / equal / in front / behind
; BEHIND: the tagged node is the target, the name is the value that follows it
(assignment target: (identifier) @definition.target value: (identifier) @name)

; in FRONT: the name is the target, the tagged node is the value on the right-hand side
(assignment target: (identifier) @name value: (_) @reference.rhs)

; both directions on one kind of parent (operands of a binary expression)
(binary_expression left: (identifier) @name right: (_) @reference.right)
(binary_expression left: (_) @definition.left right: (identifier) @name)

; EQUAL
(number) @name @reference.num

; INSIDE
(call_expression function: (identifier) @name) @reference.call
