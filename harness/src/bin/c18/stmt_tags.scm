; T0  calls to `skip` are ignored: the placeholder wins over every later pattern on that node
((call_expression function: (identifier) @ignore)
 (#eq? @ignore "skip"))

; T1  calls
(call_expression function: (identifier) @name) @reference.call

; T2  assignments; the comments directly above become the docs, the `//` prefix is stripped
((comment)* @doc
 .
 (assignment target: (identifier) @name) @definition.var
 (#strip! @doc "^//[ \t]*")
 (#select-adjacent! @doc @definition.var))

; T3  a loop is named by its bare-identifier condition; the tag range spans several lines
(while_statement cond: (identifier) @name) @definition.loop

; T4  strings are names too (non-ASCII inside names)
(string) @name @reference.text

; T5  every other identifier, unless it resolves to a local definition
((identifier) @name @reference.ident
 (#is-not? local))
