; ONE pattern that matches the same @name node several times (once per later sibling): ties of equal pattern index —
; the first match wins (replacement needs a strictly lower index); a higher-index pattern on the same node loses
(block (expression_statement (identifier) @name) (expression_statement (number)) @reference.sibling)

(expression_statement (identifier) @name) @definition.stmt
