; TOUCHING names (round 11): names with no byte between them, and a lower-index pattern that completes only after the
; NEXT name was queued — the queued tag must still be in the queue (release test is strict: end < next start)
; 0: a word is defined by the second item behind it
((item (word) @name) . (item) . (item) @definition.second)

; 1: a word in a group is defined by the group's last item
(paren (item (word) @name) (item) @definition.last .)

; 2, 3: numbers and groups are names too (a group starts exactly where the word in front of it ends: `a(b)`)
(num) @name @reference.num
(paren) @name @reference.group

; 4: every word, at once
(word) @name @reference.word
