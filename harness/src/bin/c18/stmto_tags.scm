; a pattern whose last step lies far behind its @name: the match arrives late
(assignment
  target: (identifier) @name
  value: (binary_expression right: (number))) @definition.var

; calls
(call_expression function: (identifier) @name) @reference.call

; every identifier
(identifier) @name @reference.ident
