; ties of equal pattern index on grammar lst: a word of a group with every later number of the group
(paren (item (word) @name) (item (num)) @reference.later)

(item (word) @name) @definition.word
