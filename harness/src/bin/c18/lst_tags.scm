; numbers leave an ignored placeholder in the queue
(num) @ignore

; the first word of a group names the group
(paren . (item (word) @name)) @definition.group

; every other word that is not local to a group
((word) @name @reference.word
 (#is-not? local))
