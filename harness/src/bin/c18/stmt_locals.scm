(block) @local.scope

((while_statement body: (block) @local.scope)
 (#set! local.scope-inherits false))

(assignment target: (identifier) @local.definition)
