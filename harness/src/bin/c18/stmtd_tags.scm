; docs AFTER the node, selected by adjacency to the assignment; strip regex of a different shape
((assignment target: (identifier) @name) @definition.var
 .
 (comment)* @doc
 (#strip! @doc "^/+\\s?")
 (#select-adjacent! @doc @definition.var))

; all preceding comments: no selection, no strip; shares the kind name `var` with the pattern above
((comment)+ @doc
 .
 (while_statement cond: (identifier) @name) @reference.var)

; docs selected relative to the NAME node, not the tag node
((comment)* @doc
 .
 (expression_statement (call_expression function: (identifier) @name)) @definition.call
 (#strip! @doc "^//[ \t]*")
 (#select-adjacent! @doc @name))
