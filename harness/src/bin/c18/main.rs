//! C18 explorer: real `TagsContext::generate_tags` on crafted sources of zoo grammars `stmt` and
//! `lst` with the tags/locals queries next to this file; for every case it writes the source, the
//! configuration derived from the public `Query` API, the query matches in arrival order
//! (public `QueryCursor::matches`, same concatenated query) and the real tags, for the Lean driver
//! `tsv-c18` (model run + correspondence + judge).  Also function-level cases for `LossyUtf8`.
//! usage: c18 <ops-file> [--spec <file>]
//! spec / corpus line: `<queryset> <hex | t:escaped-text>`   (`#` starts a comment line)
use std::io::Write;
use streaming_iterator::StreamingIterator;
use tree_sitter::{Language, LossyUtf8, Parser, Query, QueryCursor, QueryPredicateArg};
use tree_sitter_tags::c_lib;
use tree_sitter_tags::{TagsConfiguration, TagsContext};
use tsv_harness::*;

struct QuerySet {
    id: &'static str,
    lang: &'static str,
    tags: &'static str,
    locals: &'static str,
}

const STATIC_QSETS: &[QuerySet] = &[
    QuerySet { id: "stmt", lang: "stmt", tags: include_str!("stmt_tags.scm"), locals: include_str!("stmt_locals.scm") },
    QuerySet { id: "lst", lang: "lst", tags: include_str!("lst_tags.scm"), locals: include_str!("lst_locals.scm") },
    // the same tags without a locals query (tags_pattern_index = 0)
    QuerySet { id: "stmt0", lang: "stmt", tags: include_str!("stmt_tags.scm"), locals: "" },
    // nested names (queue order by (end, start)) and names spanning rows
    QuerySet { id: "stmtn", lang: "stmt", tags: include_str!("stmtn_tags.scm"), locals: "" },
    // docs: after the node, second strip regex, no selection, selection relative to @name, shared kind name
    QuerySet { id: "stmtd", lang: "stmt", tags: include_str!("stmtd_tags.scm"), locals: "" },
    // doc nodes spanning several rows (block comments; NEW zoo grammar stmtb = stmt + `/* … */` extras)
    QuerySet { id: "stmtb", lang: "stmtb", tags: include_str!("stmtb_tags.scm"), locals: "" },
    // placement of the @name node relative to the tagged node: inside / equal / in front / behind (two grammars)
    QuerySet { id: "stmtp", lang: "stmt", tags: include_str!("stmtp_tags.scm"), locals: "" },
    QuerySet { id: "lstp", lang: "lst", tags: include_str!("lstp_tags.scm"), locals: "" },
    // several matches of ONE pattern for one name node (ties of equal pattern index)
    QuerySet { id: "stmtq", lang: "stmt", tags: include_str!("stmtq_tags.scm"), locals: "" },
    QuerySet { id: "lstq", lang: "lst", tags: include_str!("lstq_tags.scm"), locals: "" },
    // a match that arrives after later names were flushed (corpus only)
    QuerySet { id: "stmto", lang: "stmt", tags: include_str!("stmto_tags.scm"), locals: "" },
    // the same finding in a realistic shape: definition with a trailing docstring (corpus only)
    QuerySet { id: "stmtl", lang: "stmt", tags: include_str!("stmtl_tags.scm"), locals: "" },
    // touching names (no byte between two name nodes) with a lower-index pattern completing after the next name
    QuerySet { id: "lstt", lang: "lst", tags: include_str!("lstt_tags.scm"), locals: "" },
    QuerySet { id: "stmtt", lang: "stmt", tags: include_str!("stmtt_tags.scm"), locals: "" },
];

/// Completion points of a pattern that shares ONE @name node with the other patterns of its query set:
/// 0 = complete at the name, 1 = at the following sibling, 2 = at a later sibling, 3 = at the parent's last child.
fn shared_name_pattern(lang: &str, point: usize, kind: &str) -> String {
    match (lang, point) {
        ("stmt", 0) => format!("(while_statement cond: (identifier) @name) @{kind}\n"),
        ("stmt", 1) => format!("(while_statement cond: (identifier) @name body: (block) @{kind})\n"),
        ("stmt", 2) => format!("(while_statement cond: (identifier) @name body: (block . (_) @{kind}))\n"),
        ("stmt", _) => format!("(while_statement cond: (identifier) @name body: (block (_) @{kind} .))\n"),
        (_, 0) => format!("(paren . (item (word) @name)) @{kind}\n"),
        (_, 1) => format!("(paren . (item (word) @name) . (item) @{kind})\n"),
        (_, 2) => format!("(paren . (item (word) @name) . (item) . (item) @{kind})\n"),
        (_, _) => format!("(paren . (item (word) @name) (item) @{kind} .)\n"),
    }
}

fn permutations(items: &[usize]) -> Vec<Vec<usize>> {
    if items.len() <= 1 {
        return vec![items.to_vec()];
    }
    let mut out = Vec::new();
    for i in 0..items.len() {
        let mut rest = items.to_vec();
        let x = rest.remove(i);
        for mut p in permutations(&rest) {
            p.insert(0, x);
            out.push(p);
        }
    }
    out
}

/// All query sets: the hand-written ones plus, generated systematically, for grammars stmt and lst every assignment
/// of completion points to pattern indices for 3 patterns (points 0,1,3: all 6 permutations) and 4 patterns (all 24):
/// pattern i has kind `k<i>` (definition for even i, reference for odd i) and its own tagged node, so the winner of
/// the "one tag per name node, lowest pattern index" rule is visible in kind, is_definition and range.
fn qsets() -> &'static Vec<QuerySet> {
    static QS: std::sync::OnceLock<Vec<QuerySet>> = std::sync::OnceLock::new();
    QS.get_or_init(|| {
        let mut v: Vec<QuerySet> = STATIC_QSETS.iter().map(|q| QuerySet { id: q.id, lang: q.lang, tags: q.tags, locals: q.locals }).collect();
        for (lang, prefix) in [("stmt", "sw"), ("lst", "lw")] {
            for points in [vec![0usize, 1, 3], vec![0, 1, 2, 3]] {
                for perm in permutations(&points) {
                    let mut tags = String::new();
                    for (i, point) in perm.iter().enumerate() {
                        let kind = format!("{}.k{i}", if i % 2 == 0 { "definition" } else { "reference" });
                        tags.push_str(&shared_name_pattern(lang, *point, &kind));
                    }
                    let id = format!("{prefix}{}-{}", perm.len(), perm.iter().map(|p| p.to_string()).collect::<String>());
                    v.push(QuerySet { id: Box::leak(id.into_boxed_str()), lang, tags: Box::leak(tags.into_boxed_str()), locals: "" });
                }
            }
        }
        v
    })
}

fn strip_id(re: &str) -> usize {
    match re {
        "^//[ \t]*" => 0,
        "^/+\\s?" => 1,
        _ => panic!("c18: strip regex {re:?} has no model (add it to TsVerif.C18.stripFn)"),
    }
}

fn opt(x: Option<usize>) -> String {
    x.map(|v| v.to_string()).unwrap_or_else(|| "-".into())
}

struct Env {
    language: Language,
    config: TagsConfiguration,
    query: Query,
    header: String,
    // the C API (crates/tags/src/c_lib.rs): one tagger + buffer per query set
    tagger: *mut c_lib::TSTagger,
    buffer: *mut c_lib::TSTagsBuffer,
    ckinds: String,
}

/// Mirror of `TSTag` as declared in crates/tags/include/tree_sitter/tags.h (what a C client sees).
#[repr(C)]
#[derive(Clone, Copy)]
struct CPoint {
    row: u32,
    column: u32,
}
#[repr(C)]
#[derive(Clone, Copy)]
struct CTag {
    start_byte: u32,
    end_byte: u32,
    name_start_byte: u32,
    name_end_byte: u32,
    line_start_byte: u32,
    line_end_byte: u32,
    start_point: CPoint,
    end_point: CPoint,
    utf16_start_column: u32,
    utf16_end_column: u32,
    docs_start_byte: u32,
    docs_end_byte: u32,
    syntax_type_id: u32,
    is_definition: bool,
}

/// The same source through ts_tagger_tag; one `ctag` line per C struct, `cmeta` for status/flags.
fn emit_c_api(out: &mut impl Write, env: &Env, src: &[u8]) {
    unsafe {
        let flag = std::sync::atomic::AtomicUsize::new(0);
        let scope = std::ffi::CString::new("s").unwrap();
        let err = c_lib::ts_tagger_tag(env.tagger, scope.as_ptr(), src.as_ptr(), src.len() as u32, env.buffer, &flag);
        let n = c_lib::ts_tags_buffer_tags_len(env.buffer) as usize;
        let tags = c_lib::ts_tags_buffer_tags(env.buffer).cast::<CTag>();
        let docs_ptr = c_lib::ts_tags_buffer_docs(env.buffer).cast::<u8>();
        let docs_len = c_lib::ts_tags_buffer_docs_len(env.buffer) as usize;
        let docs: &[u8] = if docs_len == 0 { &[] } else { std::slice::from_raw_parts(docs_ptr, docs_len) };
        let perr = c_lib::ts_tags_buffer_found_parse_error(env.buffer);
        writeln!(out, "cmeta {} {} {} {}", err as u32, perr as u8, docs_len, env.ckinds).unwrap();
        for i in 0..n {
            let t = *tags.add(i);
            let (ds, de) = (t.docs_start_byte as usize, t.docs_end_byte as usize);
            let d = if ds <= de && de <= docs.len() { hex(&docs[ds..de]) } else { "BAD".to_string() };
            writeln!(
                out,
                "ctag {} {} {} {} {} {} {} {} {} {} {} {} {} {} ={}",
                t.start_byte, t.end_byte, t.name_start_byte, t.name_end_byte, t.line_start_byte, t.line_end_byte,
                t.start_point.row, t.start_point.column, t.end_point.row, t.end_point.column,
                t.utf16_start_column, t.utf16_end_column, t.is_definition as u8, t.syntax_type_id, d
            )
            .unwrap();
        }
    }
}

fn build_env(qs: &QuerySet) -> Env {
    let b = zoo::load(qs.lang).expect("zoo language");
    let config = TagsConfiguration::new(b.language.clone(), qs.tags, qs.locals).expect("tags configuration");
    let query = Query::new(&b.language, &format!("{}{}", qs.locals, qs.tags)).expect("query");
    // configuration as derived from the public Query API (independent of TagsConfiguration::new)
    let mut header = String::new();
    header.push_str(&format!("names {}\n", query.capture_names().join(" ")));
    let tagsfrom = (0..query.pattern_count()).filter(|i| query.start_byte_for_pattern(*i) < qs.locals.len()).count();
    header.push_str(&format!("tagsfrom {tagsfrom}\n"));
    let doc_idx = query.capture_index_for_name("doc");
    for i in 0..query.pattern_count() {
        let nonlocal = query.property_predicates(i).iter().any(|(p, positive)| !positive && p.key.as_ref() == "local");
        let inherits = !query
            .property_settings(i)
            .iter()
            .any(|p| p.key.as_ref() == "local.scope-inherits" && p.value.as_deref() == Some("false"));
        let mut adjacent = None;
        let mut strip = None;
        if let Some(d) = doc_idx {
            for p in query.general_predicates(i) {
                if p.args.first() == Some(&QueryPredicateArg::Capture(d)) {
                    match (p.operator.as_ref(), p.args.get(1)) {
                        ("select-adjacent!", Some(QueryPredicateArg::Capture(c))) => adjacent = Some(*c as usize),
                        ("strip!", Some(QueryPredicateArg::String(s))) => strip = Some(strip_id(s)),
                        _ => {}
                    }
                }
            }
        }
        header.push_str(&format!("pat {} {} {} {}\n", nonlocal as u8, inherits as u8, opt(adjacent), opt(strip)));
    }
    // C API objects; the syntax kinds table must list the same names as the Rust configuration
    let (tagger, buffer, ckinds) = unsafe {
        let tagger = c_lib::ts_tagger_new();
        let scope = std::ffi::CString::new("s").unwrap();
        let e = c_lib::ts_tagger_add_language(
            tagger,
            scope.as_ptr(),
            b.language.clone(),
            qs.tags.as_ptr(),
            if qs.locals.is_empty() { std::ptr::null() } else { qs.locals.as_ptr() },
            qs.tags.len() as u32,
            qs.locals.len() as u32,
        );
        assert!(e as u32 == 0, "ts_tagger_add_language failed");
        let mut len = 0u32;
        let kinds = c_lib::ts_tagger_syntax_kinds_for_scope_name(tagger, scope.as_ptr(), &mut len);
        let mut names = Vec::new();
        for i in 0..len as usize {
            names.push(std::ffi::CStr::from_ptr(*kinds.add(i)).to_string_lossy().into_owned());
        }
        let rust_names: Vec<String> = (0..len).map(|i| config.syntax_type_name(i).to_string()).collect();
        header.push_str(&format!("kinds {}\n", rust_names.join(" ")));
        (tagger, c_lib::ts_tags_buffer_new(), if names == rust_names { "kinds=ok".to_string() } else { format!("kinds=DIFF:{}", names.join(",")) })
    };
    Env { language: b.language, config, query, header, tagger, buffer, ckinds }
}

/// One case: returns (number of tags, parse had errors).
fn emit_case(out: &mut impl Write, env: &Env, qid: &str, cid: &str, src: &[u8]) -> (usize, bool) {
    writeln!(out, "spec {cid} {qid} {}", if src.is_empty() { "-".to_string() } else { hex(src) }).unwrap();
    writeln!(out, "case {cid}").unwrap();
    writeln!(out, "src {}", hex(src)).unwrap();
    out.write_all(env.header.as_bytes()).unwrap();
    // matches in arrival order, through the public API
    let mut parser = Parser::new();
    parser.set_language(&env.language).unwrap();
    let tree = parser.parse(src, None).expect("parse");
    writeln!(out, "pmeta {}", tree.root_node().has_error() as u8).unwrap();
    let mut cursor = QueryCursor::new();
    let mut ms = cursor.matches(&env.query, tree.root_node(), src);
    while let Some(m) = ms.next() {
        let mut line = format!("m {}", m.pattern_index);
        for c in m.captures {
            let n = c.node;
            line.push_str(&format!(
                " {},{},{},{},{},{},{},{}",
                c.index,
                n.start_byte(),
                n.end_byte(),
                n.start_position().row,
                n.start_position().column,
                n.end_position().row,
                n.end_position().column,
                n.has_error() as u8
            ));
        }
        writeln!(out, "{line}").unwrap();
    }
    // the real thing (a panic of the real code becomes a `tagerr` line: a concrete failing input)
    let mut ntags = 0;
    let mut had_err = false;
    let res = std::panic::catch_unwind(std::panic::AssertUnwindSafe(|| {
        let mut lines: Vec<String> = Vec::new();
        let mut had = false;
        let mut ctx = TagsContext::new();
        match ctx.generate_tags(&env.config, src, None) {
            Ok((iter, has_error)) => {
                had = has_error;
                for t in iter {
                    match t {
                        Ok(t) => {
                            let docs = match &t.docs {
                                None => "-".to_string(),
                                Some(d) => format!("={}", hex(d.as_bytes())),
                            };
                            lines.push(format!(
                                "tag {} {} {} {} {} {} {} {} {} {} {} {} {} {} {}",
                                t.range.start,
                                t.range.end,
                                t.name_range.start,
                                t.name_range.end,
                                t.line_range.start,
                                t.line_range.end,
                                t.span.start.row,
                                t.span.start.column,
                                t.span.end.row,
                                t.span.end.column,
                                t.utf16_column_range.start,
                                t.utf16_column_range.end,
                                t.is_definition as u8,
                                t.syntax_type_id,
                                docs
                            ));
                        }
                        Err(e) => lines.push(format!("tagerr {e}")),
                    }
                }
            }
            Err(e) => lines.push(format!("tagerr {e}")),
        }
        (lines, had)
    }));
    match res {
        Ok((lines, had)) => {
            had_err = had;
            for l in &lines {
                if l.starts_with("tag ") {
                    ntags += 1;
                }
                writeln!(out, "{l}").unwrap();
            }
            writeln!(out, "rmeta {}", had as u8).unwrap();
            emit_c_api(out, env, src); // only after the Rust API survived (a panic inside extern "C" aborts)
        }
        Err(_) => writeln!(out, "tagerr panic").unwrap(),
    }
    writeln!(out, "run").unwrap();
    (ntags, had_err)
}

/// Error codes of the C API against the enum of tags.h (Ok 0, UnknownScope 1, Timeout 2, InvalidLanguage 3,
/// InvalidUtf8 4, InvalidRegex 5, InvalidQuery 6, InvalidCapture 7).
fn emit_c_errors(out: &mut impl Write, env: &Env) {
    unsafe {
        let tagger = c_lib::ts_tagger_new();
        let scope = std::ffi::CString::new("e").unwrap();
        let mut probe = |name: &str, tags: &[u8], locals: &[u8], expected: u32| {
            let e = c_lib::ts_tagger_add_language(
                tagger,
                scope.as_ptr(),
                env.language.clone(),
                tags.as_ptr(),
                if locals.is_empty() { std::ptr::null() } else { locals.as_ptr() },
                tags.len() as u32,
                locals.len() as u32,
            ) as u32;
            writeln!(out, "cerr fn-cerr-{name} {e} {expected}").unwrap();
        };
        probe("ok", b"(identifier) @name @reference.x", b"", 0);
        probe("invalid-query", b"(no_such_node) @name", b"", 6);
        probe("invalid-capture", b"(identifier) @bogus", b"", 7);
        probe("invalid-utf8", b"(identifier) @name ; \xff", b"", 4);
        probe("invalid-utf8-locals", b"(identifier) @name @reference.x", b"; \xff", 4);
        probe("invalid-regex", b"((comment) @doc (identifier) @name @reference.x (#strip! @doc \"(\"))", b"", 5);
        let buffer = c_lib::ts_tags_buffer_new();
        let unknown = std::ffi::CString::new("nope").unwrap();
        let src = b"a;";
        let e = c_lib::ts_tagger_tag(tagger, unknown.as_ptr(), src.as_ptr(), 2, buffer, std::ptr::null()) as u32;
        writeln!(out, "cerr fn-cerr-unknown-scope {e} 1").unwrap();
        // cancellation: a raised flag makes the C API answer Timeout and leave the buffer empty (the flag is
        // polled every CANCELLATION_CHECK_INTERVAL = 100 iterations, so the source has > 100 matches)
        let flag = std::sync::atomic::AtomicUsize::new(1);
        let long: Vec<u8> = b"a;\n".repeat(300);
        let e = c_lib::ts_tagger_tag(tagger, scope.as_ptr(), long.as_ptr(), long.len() as u32, buffer, &flag) as u32;
        let n = c_lib::ts_tags_buffer_tags_len(buffer);
        writeln!(out, "cerr fn-cerr-cancelled {e} 2").unwrap();
        writeln!(out, "cerr fn-cerr-cancelled-empty {n} 0").unwrap();
        c_lib::ts_tags_buffer_delete(buffer);
        c_lib::ts_tagger_delete(tagger);
    }
    // the iterator's own periodic check: raise the flag after parsing; Err(Cancelled) must be observed
    let flag = std::sync::atomic::AtomicUsize::new(0);
    let long: Vec<u8> = b"a;\n".repeat(300);
    let mut ctx = TagsContext::new();
    let mut before = 0usize;
    let mut seen = 0u32;
    if let Ok((iter, _)) = ctx.generate_tags(&env.config, &long, Some(&flag)) {
        flag.store(1, std::sync::atomic::Ordering::SeqCst);
        for t in iter {
            match t {
                Ok(_) => before += 1,
                Err(_) => {
                    seen = 1;
                    break;
                }
            }
        }
    }
    writeln!(out, "cerr fn-cancel-iter-seen {seen} 1").unwrap();
    // (how soon is a tuning constant — CANCELLATION_CHECK_INTERVAL — and deliberately not pinned; the source
    // yields ~300 tags, the error has to come before the iterator runs dry)
    writeln!(out, "cerr fn-cancel-iter-before-end {} 1", (before < 300) as u8).unwrap();
}

fn real_utf16_len(bytes: &[u8]) -> usize {
    // body of tags.rs:utf16_len over the public LossyUtf8 (the hook-based bin c18fn calls the real one)
    LossyUtf8::new(bytes).flat_map(|chunk| chunk.chars().map(char::len_utf16)).sum()
}

fn unescape(s: &str) -> Vec<u8> {
    let b = s.as_bytes();
    let mut out = Vec::new();
    let mut i = 0;
    while i < b.len() {
        if b[i] == b'\\' && i + 1 < b.len() {
            match b[i + 1] {
                b'n' => { out.push(b'\n'); i += 2; }
                b'r' => { out.push(b'\r'); i += 2; }
                b't' => { out.push(b'\t'); i += 2; }
                b's' => { out.push(b' '); i += 2; }
                b'\\' => { out.push(b'\\'); i += 2; }
                b'x' if i + 3 < b.len() => { out.push(u8::from_str_radix(&s[i + 2..i + 4], 16).unwrap()); i += 4; }
                _ => { out.push(b[i]); i += 1; }
            }
        } else {
            out.push(b[i]);
            i += 1;
        }
    }
    out
}

fn parse_spec(line: &str) -> Option<(String, Vec<u8>)> {
    let mut line = line.trim_end_matches(['\n', '\r']);
    if line.starts_with('#') || line.trim().is_empty() {
        return None;
    }
    let is_q = |w: &str| qsets().iter().any(|q| q.id == w);
    let (first, rest) = line.split_once(' ')?;
    if !is_q(first) {
        line = rest; // tolerate a leading case id
    }
    let (qid, rest) = line.split_once(' ')?;
    if !is_q(qid) {
        return None;
    }
    let src = if let Some(t) = rest.strip_prefix("t:") {
        unescape(t)
    } else if rest.trim() == "-" {
        vec![]
    } else {
        unhex(rest.trim())
    };
    Some((qid.to_string(), src))
}

// ---------------------------------------------------------------- generators

const IDS: &[&str] = &["a", "b", "foo", "bar", "x1", "count", "skip", "_t", "a_rather_long_identifier_name", "iff", "n"];
const STRS: &[&str] = &["'s'", "''", "'a b'", "'é'", "'€uro'", "'😀'", "'日本語'", "'x😀y€z'", "'ÀÉÎÕÜ àéîõü'", "'𝔘𝔫𝔦𝔠𝔬𝔡𝔢'", "' '"];
const BAD: &[&[u8]] = &[&[0xff], &[0xe2], &[0xe2, 0x82], &[0xc0, 0xaf], &[0xed, 0xa0, 0x80], &[0xf0, 0x9f], &[0xf4, 0x90, 0x80, 0x80], &[0x80], &[0xf0, 0x9f, 0x98]];

fn pk<'a>(rng: &mut Rng, xs: &[&'a str]) -> &'a str {
    xs[rng.below(xs.len())]
}

fn pkb(rng: &mut Rng) -> &'static [u8] {
    BAD[rng.below(BAD.len())]
}

struct Layout {
    block: bool, // doc nodes may be block comments spanning rows (grammar stmtb)
    nl: &'static str,
    same_line: usize, // chance in 8 that two statements share a line
    long: bool,
}

fn expr(rng: &mut Rng, depth: usize, s: &mut String) {
    match rng.below(if depth == 0 { 4 } else { 9 }) {
        0 | 1 => s.push_str(pk(rng, IDS)),
        2 => s.push_str(&format!("{}", rng.below(1000))),
        3 | 4 => s.push_str(pk(rng, STRS)),
        5 | 6 => {
            s.push_str(pk(rng, IDS));
            s.push('(');
            let n = rng.below(4);
            for i in 0..n {
                if i > 0 {
                    s.push_str(if rng.chance(1, 2) { ", " } else { "," });
                }
                expr(rng, depth - 1, s);
            }
            s.push(')');
        }
        7 => {
            expr(rng, depth - 1, s);
            s.push_str(pk(rng, &[" + ", " - ", " == ", " < ", "+"]));
            expr(rng, depth - 1, s);
        }
        _ => {
            s.push('(');
            if rng.chance(1, 8) {
                s.push_str("\n  "); // a parenthesized expression spanning rows (a multi-row name in query set stmtn)
            }
            expr(rng, depth - 1, s);
            s.push(')');
        }
    }
}

fn sep(rng: &mut Rng, lay: &Layout, indent: usize, s: &mut String) {
    if rng.below(8) < lay.same_line {
        s.push_str(pk(rng, &[" ", "  ", "\t", " "]));
        return;
    }
    if rng.chance(1, 6) {
        // trailing whitespace: every ASCII-whitespace byte, VT (not ASCII whitespace for Rust) and Unicode blanks
        s.push_str(pk(rng, &[" ", "  ", " \t", "\x0c", "\x0b", " \x0c ", "\u{a0}", "\u{2003}"]));
    }
    s.push_str(lay.nl);
    if rng.chance(1, 10) {
        s.push_str(lay.nl);
    }
    row_start_blanks(rng, s);
    for _ in 0..indent {
        s.push_str(if rng.chance(1, 5) { "\t" } else { "  " });
    }
}

/// What a row may BEGIN with besides spaces and tabs: form feed, a stray CR, VT (which `u8::is_ascii_whitespace`
/// does not count), mixed runs, Unicode blanks (NBSP, EM SPACE — never trimmed), and blank prefixes longer than the
/// 180-byte limit.
fn row_start_blanks(rng: &mut Rng, s: &mut String) {
    match rng.below(28) {
        0 | 1 => s.push('\x0c'),
        2 | 3 => s.push('\r'),
        4 | 5 => s.push('\x0b'),
        6 => s.push_str(" \x0c\t"),
        7 => s.push_str("\x0c\r \x0c"),
        8 => s.push_str("\r\r "),
        9 => s.push_str("\u{a0}"),
        10 => s.push_str("\u{2003} "),
        11 => s.push_str("\t\x0b "),
        12 => {
            for _ in 0..rng.range(150, 260) {
                s.push(' ');
            }
        }
        _ => {}
    }
}

/// One doc node: a `//` comment, or (layout.block) a block comment spanning 1–4 rows whose inner rows may
/// themselves start with `//` or `/` (strip must be per node, not per row).
fn doc_node(rng: &mut Rng, lay: &Layout, indent: usize, s: &mut String) {
    if lay.block && rng.chance(1, 2) {
        s.push_str(pk(rng, &["/* ", "/*", "/** ", "/*\u{a0}"]));
        let rows = rng.range(1, 4);
        for r in 0..rows {
            s.push_str(pk(rng, &["block", "// inner", "/ x", "données €", "", "two  words", "* star"]));
            if r + 1 < rows {
                s.push_str(lay.nl);
                if rng.chance(1, 6) {
                    s.push_str(lay.nl); // blank row INSIDE the node (no gap for the chain)
                }
                for _ in 0..indent {
                    s.push_str("  ");
                }
            }
        }
        s.push_str(pk(rng, &[" */", "*/", "**/"]));
    } else {
        s.push_str(pk(rng, &["// ", "//", "//\t ", "//  ", "/// ", "////", "//\u{a0}", "//\u{3000} ", "// \u{2003}"]));
        s.push_str(pk(rng, &["doc", "sets the value", "données €", "😀 first", "x", ""]));
    }
}

fn stmts(rng: &mut Rng, lay: &Layout, depth: usize, indent: usize, budget: &mut isize, s: &mut String) {
    let n = rng.range(1, if lay.long { 14 } else { 6 });
    for _ in 0..n {
        if *budget <= 0 {
            return;
        }
        *budget -= 1;
        match rng.below(if depth == 0 { 7 } else { 10 }) {
            0 | 1 | 2 => {
                if rng.chance(1, 3) {
                    // doc comments (only meaningful at a line start; still legal elsewhere)
                    let k = rng.range(1, if lay.block { 4 } else { 3 });
                    for j in 0..k {
                        let before = s.len();
                        doc_node(rng, lay, indent, s);
                        if lay.block && s[before..].starts_with("/*") && rng.chance(1, 5) {
                            s.push(' '); // next doc node / the statement on the row where the block comment ends
                            continue;
                        }
                        s.push_str(lay.nl);
                        if j + 1 < k && rng.chance(1, 6) {
                            s.push_str(lay.nl); // gap: the upper comments are not adjacent
                        }
                        for _ in 0..indent {
                            s.push_str("  ");
                        }
                    }
                    if rng.chance(1, 6) {
                        s.push_str(lay.nl);
                    }
                }
                s.push_str(pk(rng, IDS));
                s.push_str(pk(rng, &[" = ", "=", " =\t"]));
                expr(rng, 2, s);
                s.push(';');
                if rng.chance(1, 4) {
                    // docs AFTER the node: on the same row and on the following rows (query set stmtd)
                    let k = rng.range(1, 3);
                    for j in 0..k {
                        s.push_str(if j == 0 { " " } else { "" });
                        if lay.block && rng.chance(1, 2) {
                            doc_node(rng, lay, indent, s);
                        } else {
                            s.push_str(pk(rng, &["// ", "//", "/// ", "//\u{a0}\u{a0}", "////\t"]));
                            s.push_str(pk(rng, &["after", "trailing €", "", "t"]));
                        }
                        s.push_str(lay.nl);
                        if rng.chance(1, 5) {
                            s.push_str(lay.nl);
                        }
                    }
                }
            }
            3 | 4 => {
                expr(rng, 3, s);
                s.push(';');
            }
            5 => {
                s.push_str("return ");
                expr(rng, 2, s);
                s.push(';');
            }
            6 => {
                s.push_str(pk(rng, IDS));
                s.push_str("; ");
                s.push_str(pk(rng, STRS));
                s.push(';');
            }
            7 => {
                s.push_str("while ");
                if rng.chance(2, 3) {
                    s.push_str(pk(rng, IDS));
                } else {
                    expr(rng, 2, s);
                }
                s.push_str(" {");
                sep(rng, lay, indent + 1, s);
                stmts(rng, lay, depth - 1, indent + 1, budget, s);
                sep(rng, lay, indent, s);
                s.push('}');
            }
            8 => {
                s.push_str("if ");
                expr(rng, 2, s);
                s.push_str(" {");
                sep(rng, lay, indent + 1, s);
                stmts(rng, lay, depth - 1, indent + 1, budget, s);
                sep(rng, lay, indent, s);
                s.push('}');
                if rng.chance(1, 2) {
                    s.push_str(" else {");
                    sep(rng, lay, indent + 1, s);
                    stmts(rng, lay, depth - 1, indent + 1, budget, s);
                    sep(rng, lay, indent, s);
                    s.push('}');
                }
            }
            _ => {
                s.push('{');
                sep(rng, lay, indent + 1, s);
                stmts(rng, lay, depth - 1, indent + 1, budget, s);
                sep(rng, lay, indent, s);
                s.push('}');
            }
        }
        sep(rng, lay, indent, s);
    }
}

fn gen_stmt(rng: &mut Rng, block: bool) -> (Vec<u8>, &'static str) {
    let kind = rng.below(10);
    let lay = Layout {
        block,
        nl: if rng.chance(1, 4) { "\r\n" } else { "\n" },
        same_line: match kind { 0..=2 => 7, 3..=5 => 4, _ => 2 },
        long: kind <= 2,
    };
    let mut s = String::new();
    if rng.chance(1, 8) {
        s.push_str(pk(rng, &["  ", "\t", "\n", "\r\n \t"]));
    }
    let mut budget: isize = if lay.long { 60 } else { 25 };
    stmts(rng, &lay, 3, 0, &mut budget, &mut s);
    if rng.chance(1, 3) {
        // no final newline
        while s.ends_with(['\n', '\r', ' ', '\t']) {
            s.pop();
        }
    }
    let mut b = s.into_bytes();
    let class = match rng.below(10) {
        0 | 1 => {
            b = gen::mutate_bytes(rng, &b);
            "mutated"
        }
        2 => {
            // ill-formed UTF-8: inside the text, preferably just before an identifier or inside a string
            let k = rng.range(1, 3);
            for _ in 0..k {
                let at = rng.below(b.len() + 1);
                let ins: &[u8] = pkb(rng);
                for (o, x) in ins.iter().enumerate() {
                    b.insert(at + o, *x);
                }
            }
            "illformed"
        }
        _ => if lay.long { "long" } else { "plain" },
    };
    (b, class)
}

fn gen_lst(rng: &mut Rng) -> (Vec<u8>, &'static str) {
    const WORDS: &[&str] = &["a", "b", "é", "€a", "zé€", "abc", "éé€€", "q"];
    let mut s = String::new();
    let n = rng.range(1, 60);
    let mut open = 0;
    let crlf = rng.chance(1, 4);
    let same = rng.range(3, 7);
    for _ in 0..n {
        match rng.below(8) {
            0 | 1 | 2 | 3 => s.push_str(pk(rng, WORDS)),
            4 => s.push_str(&format!("{}", rng.below(100))),
            5 | 6 => {
                s.push('(');
                open += 1;
                if rng.chance(2, 3) {
                    s.push_str(pk(rng, WORDS));
                }
            }
            _ => {
                if open > 0 {
                    s.push(')');
                    open -= 1;
                }
            }
        }
        if rng.below(8) < same {
            s.push(' ');
        } else {
            if rng.chance(1, 8) {
                s.push_str(pk(rng, &["\x0c", "\x0b", " \x0c", "\u{a0}"]));
            }
            s.push_str(if crlf { "\r\n" } else { "\n" });
            row_start_blanks(rng, &mut s);
            if rng.chance(1, 3) {
                s.push_str("  ");
            }
        }
    }
    if rng.chance(3, 4) {
        for _ in 0..open {
            s.push(')');
        }
    }
    let mut b = s.into_bytes();
    let class = match rng.below(10) {
        0 => {
            b = gen::mutate_bytes(rng, &b);
            "mutated"
        }
        1 => {
            let at = rng.below(b.len() + 1);
            let ins: &[u8] = pkb(rng);
            for (o, x) in ins.iter().enumerate() {
                b.insert(at + o, *x);
            }
            "illformed"
        }
        _ => "plain",
    };
    (b, class)
}

/// Sources for the shared-name query sets: while statements whose bodies hold 0–4 untagged statements (sometimes a
/// nested while, sometimes something broken), resp. groups with 1–5 items (sometimes nested).
fn gen_whiles(rng: &mut Rng) -> Vec<u8> {
    fn one(rng: &mut Rng, depth: usize, s: &mut String) {
        s.push_str("while ");
        s.push_str(pk(rng, IDS));
        s.push_str(" {");
        let n = rng.below(5);
        for _ in 0..n {
            s.push_str(pk(rng, &[" ", "\n  ", "\r\n"]));
            if depth > 0 && rng.chance(1, 7) {
                one(rng, depth - 1, s);
            } else {
                s.push_str(pk(rng, &["a;", "foo(1);", "x = 2;", "'€';", "// c\n", "b + 1;", "return 3;", "{ q; }", "? ;"]));
            }
        }
        s.push_str(pk(rng, &[" }", "\n}", "}"]));
    }
    let mut s = String::new();
    for _ in 0..rng.range(1, 8) {
        if rng.chance(1, 4) {
            s.push_str(pk(rng, &["z = 1; ", "foo(2);\n", "// note\n", "'é'; "]));
        }
        one(rng, 2, &mut s);
        s.push_str(pk(rng, &["\n", " ", "\n\n"]));
    }
    s.into_bytes()
}

fn gen_parens(rng: &mut Rng) -> Vec<u8> {
    fn one(rng: &mut Rng, depth: usize, s: &mut String) {
        s.push('(');
        let n = rng.range(1, 5);
        for i in 0..n {
            if i > 0 {
                s.push_str(pk(rng, &[" ", "\n ", "  "]));
            }
            if i > 0 && depth > 0 && rng.chance(1, 6) {
                one(rng, depth - 1, s);
            } else if i == 0 || rng.chance(2, 3) {
                s.push_str(pk(rng, &["a", "b", "é", "zé€", "abc", "q"]));
            } else {
                s.push_str(&format!("{}", rng.below(50)));
            }
        }
        s.push(')');
    }
    let mut s = String::new();
    for _ in 0..rng.range(1, 10) {
        if rng.chance(1, 4) {
            s.push_str(pk(rng, &["x ", "7 ", "é\n"]));
        }
        one(rng, 2, &mut s);
        s.push_str(pk(rng, &[" ", "\n"]));
    }
    s.into_bytes()
}

/// Sources whose name nodes TOUCH (round 11): tokens joined without a separator (`dense`: never a separator;
/// otherwise one in four joints gets a blank).  lst: `a1b(c2)d`; stmt: `x=a+b;f(a<b+'s');`.
fn gen_touch(rng: &mut Rng, lang: &str) -> Vec<u8> {
    let dense = rng.chance(1, 2);
    let mut s = String::new();
    let joint = |rng: &mut Rng, s: &mut String| {
        if !dense && rng.chance(1, 4) {
            s.push_str(pk(rng, &[" ", "\n", "  "]));
        }
    };
    if lang == "lst" {
        let mut open = 0;
        let mut last_word = false;
        for _ in 0..rng.range(2, 24) {
            match rng.below(8) {
                0 | 1 | 2 if !last_word => {
                    s.push_str(pk(rng, &["a", "b", "é", "zé€", "abc", "q"]));
                    last_word = true;
                }
                0 | 1 | 2 | 3 | 4 => {
                    s.push_str(&format!("{}", rng.below(50)));
                    last_word = false;
                }
                5 | 6 => {
                    s.push('(');
                    open += 1;
                    last_word = false;
                }
                _ => {
                    if open > 0 {
                        s.push(')');
                        open -= 1;
                        last_word = false;
                    }
                }
            }
            let before = s.len();
            joint(rng, &mut s);
            if s.len() > before {
                last_word = false;
            }
        }
        if rng.chance(5, 6) {
            for _ in 0..open {
                s.push(')');
            }
        }
    } else {
        fn operand(rng: &mut Rng, s: &mut String) {
            match rng.below(6) {
                0 | 1 | 2 => s.push_str(pk(rng, IDS)),
                3 => s.push_str(&format!("{}", rng.below(90))),
                4 => s.push_str(pk(rng, STRS)),
                _ => {
                    s.push_str(pk(rng, IDS));
                    s.push('(');
                    s.push_str(pk(rng, IDS));
                    s.push(')');
                }
            }
        }
        for _ in 0..rng.range(1, 8) {
            if rng.chance(1, 2) {
                s.push_str(pk(rng, IDS));
                joint(rng, &mut s);
                s.push('=');
                joint(rng, &mut s);
            }
            operand(rng, &mut s);
            for _ in 0..rng.below(4) {
                joint(rng, &mut s);
                s.push_str(pk(rng, &["+", "-", "<", "=="]));
                joint(rng, &mut s);
                operand(rng, &mut s);
            }
            if rng.chance(9, 10) {
                s.push(';');
            }
            joint(rng, &mut s);
        }
    }
    s.into_bytes()
}

fn gen_bytes(rng: &mut Rng) -> Vec<u8> {
    // byte strings for LossyUtf8: mixtures of well-formed scalars and ill-formed pieces
    let n = rng.below(12);
    let mut b = Vec::new();
    for _ in 0..n {
        match rng.below(8) {
            0 | 1 => b.push(b'a' + rng.below(26) as u8),
            2 => b.extend_from_slice("é".as_bytes()),
            3 => b.extend_from_slice("€".as_bytes()),
            4 => b.extend_from_slice("😀".as_bytes()),
            5 => b.extend_from_slice(pkb(rng)),
            6 => b.push(rng.below(256) as u8),
            _ => b.push(*rng.pick(&[0x7f, 0x80, 0xbf, 0xc1, 0xc2, 0xdf, 0xe0, 0xa0, 0x9f, 0xed, 0xef, 0xf0, 0x90, 0x8f, 0xf4, 0xf5])),
        }
    }
    b
}

fn env_lang(qid: &str) -> &'static str {
    qsets().iter().find(|q| q.id == qid).map(|q| q.lang).unwrap_or("stmt")
}

fn main() {
    limit_resources();
    std::panic::set_hook(Box::new(|_| {})); // panics of the code under test are reported per case
    let args: Vec<String> = std::env::args().collect();
    let out_path = args.get(1).expect("usage: c18 <ops-file> [--spec file]").clone();
    let mut out = std::io::BufWriter::new(std::fs::File::create(&out_path).unwrap());
    let envs: Vec<Env> = qsets().iter().map(build_env).collect();
    let env_of = |qid: &str| qsets().iter().position(|q| q.id == qid).map(|i| &envs[i]);
    let mut ncases = 0usize;
    let mut ntags = 0usize;
    let mut classes: std::collections::BTreeMap<String, usize> = Default::default();
    let mut sizes = [0usize; 5];
    let mut with_err = 0usize;
    let mut run_spec = |out: &mut std::io::BufWriter<std::fs::File>, text: &str, prefix: &str, ncases: &mut usize, ntags: &mut usize| {
        for (i, line) in text.lines().enumerate() {
            if let Some((qid, src)) = parse_spec(line) {
                if let Some(env) = env_of(&qid) {
                    let (t, _) = emit_case(out, env, &qid, &format!("{qid}-{prefix}{i}"), &src);
                    *ncases += 1;
                    *ntags += t;
                }
            }
        }
    };
    if args.get(2).map(|s| s == "--spec").unwrap_or(false) {
        let specs = std::fs::read_to_string(&args[3]).unwrap();
        run_spec(&mut out, &specs, "r", &mut ncases, &mut ntags);
        out.flush().unwrap();
        println!("c18: replayed {ncases} cases, {ntags} tags");
        return;
    }
    if let Some(c) = zoo_corpus("c18") {
        run_spec(&mut out, &c, "c", &mut ncases, &mut ntags);
        *classes.entry("corpus".into()).or_default() += ncases;
    }
    let mut rng = Rng::new(seed_from_env());
    let thorough = tier_is_thorough();
    let (n_stmt, n_lst, n_fn) = if thorough { (4000, 1500, 40000) } else { (260, 120, 3000) };
    for k in 0..(n_stmt + n_lst) {
        let (qid, (src, class)) = if k < n_stmt {
            {
                let q = match k % 9 { 8 => "stmt0", 4 => "stmtn", 6 => "stmtp", 5 => "stmtd", 7 | 2 => "stmtb", _ => "stmt" };
                (q, gen_stmt(&mut rng, q == "stmtb"))
            }
        } else {
            (if k % 2 == 0 { "lst" } else { "lstp" }, gen_lst(&mut rng))
        };
        if src.len() > 16384 {
            continue;
        }
        let env = env_of(qid).unwrap();
        let (t, e) = emit_case(&mut out, env, qid, &format!("{qid}-g{k}"), &src);
        ncases += 1;
        ntags += t;
        with_err += e as usize;
        *classes.entry(format!("{qid}:{class}")).or_default() += 1;
        sizes[match src.len() { 0..=63 => 0, 64..=255 => 1, 256..=1023 => 2, 1024..=4095 => 3, _ => 4 }] += 1;
    }
    // shared-name query sets: every generated set gets sources (own PRNG stream so the cases above stay the same)
    let mut rng2 = Rng::new(seed_from_env() ^ 0x5eed_18);
    let per_set = if thorough { 40 } else { 5 };
    for q in qsets().iter().filter(|q| q.id.starts_with("sw") || q.id.starts_with("lw")) {
        for k in 0..per_set {
            let src = if q.lang == "stmt" { gen_whiles(&mut rng2) } else { gen_parens(&mut rng2) };
            let env = env_of(q.id).unwrap();
            let (t, e) = emit_case(&mut out, env, q.id, &format!("{}-g{k}", q.id), &src);
            ncases += 1;
            ntags += t;
            with_err += e as usize;
            *classes.entry(format!("{}:shared-name", &q.id[..3])).or_default() += 1;
        }
    }
    // ties: blocks `{ a; 1; 2; b; 3; }` resp. groups `(a 1 2 b 3)`
    for k in 0..(if thorough { 600 } else { 120 }) {
        let (qid, src) = if k % 2 == 0 {
            let mut s = String::new();
            for _ in 0..rng2.range(1, 4) {
                s.push_str("{ ");
                for _ in 0..rng2.range(1, 7) {
                    if rng2.chance(1, 3) { s.push_str(pk(&mut rng2, IDS)); } else { s.push_str(&format!("{}", rng2.below(90))); }
                    s.push_str(pk(&mut rng2, &["; ", ";\n  ", ";"]));
                }
                s.push_str("}\n");
            }
            ("stmtq", s.into_bytes())
        } else {
            let mut s = String::new();
            for _ in 0..rng2.range(1, 5) {
                s.push('(');
                for i in 0..rng2.range(1, 7) {
                    if i > 0 { s.push(' '); }
                    if rng2.chance(1, 3) { s.push_str(pk(&mut rng2, &["a", "b", "é", "zé€"])); } else { s.push_str(&format!("{}", rng2.below(90))); }
                }
                s.push_str(") ");
            }
            ("lstq", s.into_bytes())
        };
        let env = env_of(qid).unwrap();
        let (t, e) = emit_case(&mut out, env, qid, &format!("{qid}-g{k}"), &src);
        ncases += 1;
        ntags += t;
        with_err += e as usize;
        *classes.entry(format!("{qid}:ties")).or_default() += 1;
    }
    // touching names (own PRNG stream so the cases above stay the same)
    let mut rng3 = Rng::new(seed_from_env() ^ 0x70c4_18);
    for k in 0..(if thorough { 800 } else { 120 }) {
        let qid = if k % 2 == 0 { "lstt" } else { "stmtt" };
        let env = env_of(qid).unwrap();
        let src = gen_touch(&mut rng3, env_lang(qid));
        let (t, e) = emit_case(&mut out, env, qid, &format!("{qid}-g{k}"), &src);
        ncases += 1;
        ntags += t;
        with_err += e as usize;
        *classes.entry(format!("{qid}:touching")).or_default() += 1;
    }
    emit_c_errors(&mut out, &envs[0]);
    for k in 0..n_fn {
        let b = gen_bytes(&mut rng);
        writeln!(out, "u16 fn-u{k} {} {}", if b.is_empty() { "-".to_string() } else { hex(&b) }, real_utf16_len(&b)).unwrap();
    }
    out.flush().unwrap();
    println!(
        "c18: cases={ncases} tags={ntags} fn_cases={n_fn} parse_errors={with_err} classes={} sizes(<64,<256,<1k,<4k,more)={:?}",
        classes.iter().map(|(k, v)| format!("{k}:{v}")).collect::<Vec<_>>().join(","),
        sizes
    );
}
