; nested and possibly multi-row names: a parenthesized expression is its own name
(parenthesized) @name @reference.paren

; calls
(call_expression function: (identifier) @name) @reference.call
