(paren) @local.scope

(paren . (item (word) @local.definition))
