; TOUCHING names on grammar stmt (round 11): `a+b`, `x=1;` — identifier, operator / `=` and operand touch
; 0, 1: lower-index patterns that complete at the operand BEHIND the operator (after the operator was queued)
(binary_expression left: (identifier) @name right: (_) @definition.right)
(assignment target: (identifier) @name value: (_) @definition.value)

; 2, 3: operators and `=` are names
(operator) @name @reference.op
"=" @name @reference.eq

; 4: strings; 5: every identifier, at once
(string) @name @reference.text
(identifier) @name @reference.ident
