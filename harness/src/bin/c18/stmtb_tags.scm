; doc chains mixing single-row comments and block comments that span several rows; the strip regex is
; applied per doc NODE (a `//` at the start of an inner row of a block comment must survive)
([(comment) (block_comment)]* @doc
 .
 (assignment target: (identifier) @name) @definition.var
 (#strip! @doc "^/+\\s?")
 (#select-adjacent! @doc @definition.var))

; docs AFTER the node, possibly multi-row, other strip regex
((expression_statement (call_expression function: (identifier) @name)) @reference.call
 .
 [(comment) (block_comment)]* @doc
 (#strip! @doc "^//[ \t]*")
 (#select-adjacent! @doc @reference.call))

; no selection: every preceding doc node
([(comment) (block_comment)]+ @doc
 .
 (while_statement cond: (identifier) @name) @definition.loop)
