//! C06 explorer: for EVERY node of every explored real tree, calls every navigation function of
//! the public Node / TreeCursor API and records the answers as node ids (`Node::id()`, the address
//! of the child slot, which the Lean side recomputes from the dump: slot i of a parent with heap
//! address A and n children is A − 8·(n − i)).  Nothing here interprets the answers; the Lean
//! driver `tsv-c06` computes every answer from the internal dump + language tables and compares.
//!
//! usage: c06 <ops-file> --langdump <tsv-cunit_c02> [--spec <file>] [lang...]
//! spec line: `<lang> <texthex|-> <edits|->` (as C02: edits applied with Tree::edit, one re-parse).
use std::collections::HashSet;
use std::io::Write;
use std::ops::ControlFlow;
use tree_sitter::{Node, ParseOptions, Parser, Point, Tree, TreeCursor};
use tsv_harness::*;

struct LangCtx {
    id: String,
    built: zoo::Built,
    gg: gen::GrammarGen,
    field_count: usize,
}

fn emit_language(out: &mut impl Write, lc: &LangCtx, langdump: &str) -> Result<(), String> {
    let so = lc.built.dir.join("lang.so");
    let o = std::process::Command::new(langdump)
        .arg("lang")
        .arg(&so)
        .arg(format!("tree_sitter_{}", lc.built.name))
        .output()
        .map_err(|e| format!("{langdump}: {e}"))?;
    if !o.status.success() {
        return Err(format!("langdump failed: {}", String::from_utf8_lossy(&o.stderr)));
    }
    writeln!(out, "deflang {}", lc.id).unwrap();
    out.write_all(&o.stdout).unwrap();
    writeln!(out, "enddeflang").unwrap();
    Ok(())
}

fn parse_budgeted(parser: &mut Parser, text: &[u8], old: Option<&Tree>) -> Option<Tree> {
    let mut calls = 0usize;
    let budget = 200 + 40 * text.len();
    let mut cb = |_: &tree_sitter::ParseState| {
        calls += 1;
        if calls > budget {
            ControlFlow::Break(())
        } else {
            ControlFlow::Continue(())
        }
    };
    let opts = ParseOptions::new().progress_callback(&mut cb);
    let len = text.len();
    let tree = parser.parse_with_options(&mut |i, _| if i < len { &text[i..] } else { &[] as &[u8] }, old, Some(opts));
    if tree.is_none() {
        parser.reset();
    }
    tree
}

fn nid(n: Option<Node>) -> String {
    match n {
        Some(n) => format!("{:x}", n.id()),
        None => "-".to_string(),
    }
}

fn cur_state(c: &TreeCursor) -> String {
    format!("{:x} {} {} {} {}", c.node().id(), c.node().kind_id(), c.depth(), c.descendant_index(), c.field_id().map(|f| f.get()).unwrap_or(0))
}

struct Stats {
    cases: usize,
    nodes: usize,
    answers: usize,
    max_raw_children_hint: usize,
}

/// All questions about one node. `idx` is its position in the cursor preorder walk.
#[allow(clippy::too_many_arguments)]
fn emit_node_queries(out: &mut impl Write, st: &mut Stats, tree: &Tree, text_len: usize, idx: usize, n: Node, all: &[Node], field_count: usize, heavy: bool) {
    let mut q = |s: String| {
        st.answers += 1;
        writeln!(out, "o {idx} {s}").unwrap();
    };
    let cc = n.child_count();
    let ncc = n.named_child_count();
    q(format!("par {}", nid(n.parent())));
    q(format!("cnt {} {} {}", cc, ncc, n.descendant_count()));
    q(format!("ns {}", nid(n.next_sibling())));
    q(format!("ps {}", nid(n.prev_sibling())));
    q(format!("nns {}", nid(n.next_named_sibling())));
    q(format!("pns {}", nid(n.prev_named_sibling())));
    // identity of the node: kind (alias-aware, public) vs grammar symbol (the subtree's own), names, flags, states
    q(format!("kind {} {} {} {}", n.kind_id(), n.grammar_id(), hex(n.kind().as_bytes()), hex(n.grammar_name().as_bytes())));
    q(format!(
        "fl {}",
        (n.is_named() as u32) | (n.is_extra() as u32) << 1 | (n.is_missing() as u32) << 2 | (n.is_error() as u32) << 3 | (n.has_changes() as u32) << 4
    ));
    {
        let ps = n.parse_state();
        let lang = n.language();
        let want = if ps == u16::MAX { u16::MAX } else { lang.next_state(ps, n.grammar_id()) };
        q(format!("pst {} {}", ps, (n.next_parse_state() == want) as u8));
        q(format!("rng {} {} {} {} {} {}", n.byte_range().start, n.byte_range().end, n.range().start_point.row, n.range().start_point.column, n.range().end_point.row, n.range().end_point.column));
    }
    // the cursor-backed child iterators of the Rust binding
    {
        let mut ic = tree.root_node().walk();
        let ids: Vec<String> = n.children(&mut ic).map(|x| format!("{:x}", x.id())).collect();
        q(format!("chi {}", if ids.is_empty() { "-".to_string() } else { ids.join(",") }));
        let ids: Vec<String> = n.named_children(&mut ic).map(|x| format!("{:x}", x.id())).collect();
        q(format!("nchi {}", if ids.is_empty() { "-".to_string() } else { ids.join(",") }));
        if n.child_count() > 0 {
            let lang = n.language();
            for f in 1..=field_count {
                let fid = std::num::NonZeroU16::new(f as u16).unwrap();
                let ids: Vec<String> = n.children_by_field_id(fid, &mut ic).map(|x| format!("{:x}", x.id())).collect();
                q(format!("cbfi {} {}", f, if ids.is_empty() { "-".to_string() } else { ids.join(",") }));
                if let Some(name) = lang.field_name_for_id(f as u16) {
                    let ids: Vec<String> = n.children_by_field_name(name, &mut ic).map(|x| format!("{:x}", x.id())).collect();
                    q(format!("cbni {} {}", f, if ids.is_empty() { "-".to_string() } else { ids.join(",") }));
                    q(format!("cbn {} {}", f, nid(n.child_by_field_name(name))));
                }
            }
        }
    }
    // children by index: all of them for small fan-out, otherwise first/last 8 and every 37th
    let pick = |k: u32, total: u32| heavy || total <= 24 || k < 8 || k + 8 >= total || k % 37 == 0;
    for i in 0..=cc {
        if i == cc || pick(i, cc) {
            q(format!("ch {} {}", i, nid(n.child(i))));
            if i < cc {
                let f = n.field_name_for_child(i);
                q(format!("fn {} {}", i, f.map(|s| hex(s.as_bytes())).unwrap_or_else(|| "-".into())));
            }
        }
    }
    for i in 0..=(ncc as u32) {
        if i == ncc as u32 || pick(i, ncc as u32) {
            q(format!("nch {} {}", i, nid(n.named_child(i))));
            if i < ncc as u32 {
                let f = n.field_name_for_named_child(i);
                q(format!("fnn {} {}", i, f.map(|s| hex(s.as_bytes())).unwrap_or_else(|| "-".into())));
            }
        }
    }
    if cc > 0 {
        for f in 1..=field_count {
            q(format!("cbf {} {}", f, nid(n.child_by_field_id(f as u16))));
        }
    }
    // byte goals: own boundaries +-1 and the boundaries of (some) children
    let mut goals: Vec<usize> = Vec::new();
    let mut push = |b: isize| {
        if b >= 0 && (b as usize) <= text_len + 1 {
            goals.push(b as usize);
        }
    };
    for b in [n.start_byte() as isize, n.end_byte() as isize] {
        push(b - 1);
        push(b);
        push(b + 1);
    }
    for i in 0..cc {
        if pick(i, cc) && (heavy || i < 6 || i + 6 >= cc) {
            if let Some(c) = n.child(i) {
                push(c.start_byte() as isize);
                push(c.end_byte() as isize - 1);
                push(c.end_byte() as isize);
            }
        }
    }
    goals.sort();
    goals.dedup();
    if cc > 0 {
        for &g in &goals {
            q(format!("fcb {} {}", g, nid(n.first_child_for_byte(g))));
            q(format!("fncb {} {}", g, nid(n.first_named_child_for_byte(g))));
        }
    }
    // ranges: receiver = this node, ranges made from the goals (adjacent pairs, points, whole)
    let root = tree.root_node();
    let mut ranges: Vec<(usize, usize)> = vec![(n.start_byte(), n.end_byte()), (n.start_byte(), n.start_byte()), (n.end_byte(), n.end_byte())];
    if n.end_byte() > n.start_byte() + 1 {
        ranges.push((n.start_byte() + 1, n.end_byte() - 1));
        ranges.push((n.start_byte(), n.end_byte() - 1));
        ranges.push((n.start_byte() + 1, n.end_byte()));
    }
    if n.start_byte() > 0 {
        ranges.push((n.start_byte() - 1, n.end_byte()));
        ranges.push((n.start_byte() - 1, n.start_byte()));
    }
    if n.end_byte() < text_len {
        ranges.push((n.start_byte(), n.end_byte() + 1));
        ranges.push((n.end_byte(), n.end_byte() + 1));
    }
    ranges.sort();
    ranges.dedup();
    for &(s, e) in &ranges {
        // receiver root ("r") and receiver self ("s")
        q(format!("dbr r {} {} {}", s, e, nid(root.descendant_for_byte_range(s, e))));
        q(format!("ndbr r {} {} {}", s, e, nid(root.named_descendant_for_byte_range(s, e))));
        q(format!("dbr s {} {} {}", s, e, nid(n.descendant_for_byte_range(s, e))));
        q(format!("ndbr s {} {} {}", s, e, nid(n.named_descendant_for_byte_range(s, e))));
    }
    // point ranges: the node's own corners
    let sp = n.start_position();
    let ep = n.end_position();
    let mut pranges: Vec<(Point, Point)> = vec![(sp, ep), (sp, sp), (ep, ep)];
    if ep.column > 0 {
        pranges.push((sp, Point { row: ep.row, column: ep.column - 1 }));
    }
    pranges.push((sp, Point { row: ep.row, column: ep.column + 1 }));
    if sp.column > 0 {
        pranges.push((Point { row: sp.row, column: sp.column - 1 }, ep));
    }
    for &(s, e) in &pranges {
        q(format!("dpr r {} {} {} {} {}", s.row, s.column, e.row, e.column, nid(root.descendant_for_point_range(s, e))));
        q(format!("ndpr r {} {} {} {} {}", s.row, s.column, e.row, e.column, nid(root.named_descendant_for_point_range(s, e))));
        q(format!("dpr s {} {} {} {} {}", s.row, s.column, e.row, e.column, nid(n.descendant_for_point_range(s, e))));
        q(format!("ndpr s {} {} {} {} {}", s.row, s.column, e.row, e.column, nid(n.named_descendant_for_point_range(s, e))));
    }
    // child_with_descendant: receiver = every ancestor on a sample basis: root, parent, self
    if idx > 0 {
        q(format!("cwd {} {}", 0, nid(root.child_with_descendant(n))));
    }
    let dc = n.descendant_count();
    for k in [1usize, 2, dc / 2, dc.saturating_sub(1)] {
        if k >= 1 && k < dc && idx + k < all.len() {
            q(format!("cwd2 {} {}", idx + k, nid(n.child_with_descendant(all[idx + k]))));
        }
    }
    if heavy || all.len() <= 400 || idx % 17 == 0 {
        q(format!("sx {}", hex(n.to_sexp().as_bytes())));
    }
    // ---- cursor rooted at the tree root, positioned by goto_descendant
    let mut c = root.walk();
    c.goto_descendant(idx);
    q(format!("gd {}", cur_state(&c)));
    q(format!("gdn {}", c.field_name().map(|f| hex(f.as_bytes())).unwrap_or_else(|| "-".into())));
    // a COPY of the positioned cursor must be the same cursor (ts_tree_cursor_copy)
    q(format!("gdc {}", cur_state(&c.clone())));
    for (name, mv) in [("cfc", 0), ("clc", 1), ("cns", 2), ("cps", 3), ("cpa", 4)] {
        let mut d = c.clone();
        let ok = match mv {
            0 => d.goto_first_child(),
            1 => d.goto_last_child(),
            2 => d.goto_next_sibling(),
            3 => d.goto_previous_sibling(),
            _ => d.goto_parent(),
        };
        let n2 = d.node();
        q(format!(
            "{name} {} {} {} {} {}",
            ok as u8,
            cur_state(&d),
            n2.start_byte(),
            n2.start_position().row,
            n2.start_position().column
        ));
    }
    if cc > 0 {
        for &g in &goals {
            let mut d = c.clone();
            let r = d.goto_first_child_for_byte(g);
            q(format!("cfcb {} {} {}", g, r.map(|x| x as i64).unwrap_or(-1), cur_state(&d)));
        }
        let mut pts = vec![sp, ep, Point { row: ep.row, column: ep.column + 1 }];
        if ep.column > 0 {
            pts.push(Point { row: ep.row, column: ep.column - 1 });
        }
        for i in 0..cc.min(4) {
            if let Some(ch) = n.child(i) {
                pts.push(ch.start_position());
                pts.push(ch.end_position());
            }
        }
        for p in pts {
            let mut d = c.clone();
            let r = d.goto_first_child_for_point(p);
            q(format!("cfcp {} {} {} {}", p.row, p.column, r.map(|x| x as i64).unwrap_or(-1), cur_state(&d)));
        }
    }
    // ---- cursor rooted at this node
    let w = n.walk();
    q(format!("w0 {}", cur_state(&w)));
    // copy / reset_to / reset of a cursor rooted at this (possibly aliased) node: the root keeps its alias
    q(format!("wcl {}", cur_state(&w.clone())));
    {
        let mut x = root.walk();
        x.goto_first_child();
        x.reset_to(&w);
        let s0 = cur_state(&x);
        let ok = x.goto_first_child();
        let s1 = cur_state(&x);
        let okp = x.goto_parent();
        q(format!("wrt {} {} {} {} {}", s0, ok as u8, s1, okp as u8, cur_state(&x)));
        let mut y = root.walk();
        y.goto_first_child();
        y.reset(n);
        q(format!("wrs {}", cur_state(&y)));
        // reset_to a cursor that stands deeper (last child of this node), then climb back
        let mut deep = w.clone();
        let okd = deep.goto_last_child();
        let mut z = root.walk();
        z.reset_to(&deep);
        let s2 = cur_state(&z);
        let okz = z.goto_parent();
        q(format!("wrd {} {} {} {}", okd as u8, s2, okz as u8, cur_state(&z)));
    }
    for (name, mv) in [("wfc", 0), ("wlc", 1), ("wns", 2), ("wps", 3), ("wpa", 4)] {
        let mut d = w.clone();
        let ok = match mv {
            0 => d.goto_first_child(),
            1 => d.goto_last_child(),
            2 => d.goto_next_sibling(),
            3 => d.goto_previous_sibling(),
            _ => d.goto_parent(),
        };
        q(format!("{name} {} {}", ok as u8, cur_state(&d)));
    }
    // walk to the last child, then all the way back with goto_previous_sibling (counts steps)
    if cc > 0 {
        let mut d = w.clone();
        d.goto_last_child();
        let mut steps = 0usize;
        let mut ids: Vec<String> = vec![format!("{:x}", d.node().id())];
        while d.goto_previous_sibling() {
            steps += 1;
            if steps <= 6 || steps % 50 == 0 {
                ids.push(format!("{:x}@{}", d.node().id(), d.node().start_byte()));
            }
            if steps > 100_000 {
                break;
            }
        }
        q(format!("wback {} {}", steps, ids.join(",")));
        st.max_raw_children_hint = st.max_raw_children_hint.max(steps + 1);
    }
}

fn emit_case(out: &mut impl Write, st: &mut Stats, cid: &str, lc: &LangCtx, parser: &mut Parser, text: &[u8], edits: &[TextEdit], kind: &str) {
    let enc_edits: Vec<String> =
        edits.iter().map(|e| format!("{},{},{}", e.start, e.old_end, if e.ins.is_empty() { "-".to_string() } else { hex(&e.ins) })).collect();
    let spec = format!(
        "{} {} {}",
        lc.id,
        if text.is_empty() { "-".to_string() } else { hex(text) },
        if enc_edits.is_empty() { "-".to_string() } else { enc_edits.join("|") }
    );
    let mut cur = text.to_vec();
    {
        let mut fin = text.to_vec();
        for te in edits {
            if te.start > te.old_end || te.old_end > fin.len() {
                break;
            }
            fin = te.apply(&fin);
        }
        if scanner_hazard(&lc.id, text, kind) || scanner_hazard(&lc.id, &fin, kind) {
            return;
        }
    }
    guard_begin(&spec);
    let parsed = parse_budgeted(parser, text, None);
    guard_end();
    let mut tree = match parsed {
        Some(t) => t,
        None => return,
    };
    if !edits.is_empty() {
        for te in edits {
            if te.start > te.old_end || te.old_end > cur.len() {
                break;
            }
            let new = te.apply(&cur);
            tree.edit(&te.input_edit(&cur, &new));
            cur = new;
        }
        guard_begin(&spec);
        let reparsed = parse_budgeted(parser, &cur, Some(&tree));
        guard_end();
        tree = match reparsed {
            Some(t) => t,
            None => return,
        };
    }
    st.cases += 1;
    writeln!(out, "spec {cid} {spec}").unwrap();
    writeln!(out, "case {cid}").unwrap();
    writeln!(out, "lang {}", lc.id).unwrap();
    writeln!(out, "kind {kind}").unwrap();
    writeln!(out, "text {}", hex(&cur)).unwrap();
    out.write_all(dump_tree(&tree).as_bytes()).unwrap();
    let root = tree.root_node();
    writeln!(out, "rootid {:x}", root.id()).unwrap();
    // preorder list of all nodes by a cursor walk (first child / next sibling / parent)
    let mut all: Vec<Node> = Vec::new();
    let mut c = root.walk();
    'walk: loop {
        all.push(c.node());
        writeln!(out, "v {} {}", all.len() - 1, cur_state(&c)).unwrap();
        if c.goto_first_child() {
            continue;
        }
        loop {
            if c.goto_next_sibling() {
                break;
            }
            if !c.goto_parent() {
                break 'walk;
            }
        }
    }
    {
        // ts_tree_root_node_with_offset: every position is shifted by the offset (Length addition)
        let off_b = 7usize;
        let off_p = Point { row: 2, column: 3 };
        let rn = tree.root_node_with_offset(off_b, off_p);
        let mut oc = rn.walk();
        let mut k = 0usize;
        'ow: loop {
            let x = oc.node();
            writeln!(out, "rwo {} {:x} {} {} {} {} {} {}", k, x.id(), x.start_byte(), x.start_position().row, x.start_position().column, x.end_byte(), x.end_position().row, x.end_position().column).unwrap();
            k += 1;
            if k >= 40 {
                break;
            }
            if oc.goto_first_child() {
                continue;
            }
            loop {
                if oc.goto_next_sibling() {
                    break;
                }
                if !oc.goto_parent() {
                    break 'ow;
                }
            }
        }
    }
    st.nodes += all.len();
    let heavy = all.len() <= 60;
    // every node for trees up to 1500 nodes; beyond that a deterministic sample (plus all nodes
    // with many children)
    let stride = if all.len() <= 1500 { 1 } else { all.len() / 700 + 1 };
    for (idx, n) in all.iter().enumerate() {
        if idx % stride == 0 || n.child_count() > 200 {
            emit_node_queries(out, st, &tree, cur.len(), idx, *n, &all, lc.field_count, heavy);
        }
    }
    writeln!(out, "run").unwrap();
}

fn parse_spec(line: &str) -> Option<(String, Vec<u8>, Vec<TextEdit>)> {
    let line = line.split('#').next().unwrap_or("");
    let parts: Vec<&str> = line.split_whitespace().collect();
    let parts = if parts.len() == 4 { &parts[1..] } else { &parts[..] };
    if parts.len() != 3 {
        return None;
    }
    let text = if parts[1] == "-" {
        vec![]
    } else if let Some(rest) = parts[1].strip_prefix("gen:parc:") {
        // compact form for the >255-children documents: "(" + "#c\n" * n + ")"
        let n: usize = rest.parse().ok()?;
        let mut t = b"(".to_vec();
        for _ in 0..n {
            t.extend_from_slice(b"#c\n");
        }
        t.push(b')');
        t
    } else {
        unhex(parts[1])
    };
    let mut edits = Vec::new();
    if parts[2] != "-" {
        for e in parts[2].split('|') {
            let f: Vec<&str> = e.split(',').collect();
            if f.len() != 3 {
                return None;
            }
            edits.push(TextEdit { start: f[0].parse().ok()?, old_end: f[1].parse().ok()?, ins: if f[2] == "-" { vec![] } else { unhex(f[2]) } });
        }
    }
    Some((parts[0].to_string(), text, edits))
}

/// Two fixture scanners (copied from /repo/test/fixtures) loop forever at EOF inside an
/// unterminated construct (`while (lexer->lookahead != '\'') advance` / `for(;;)` until the closing
/// delimiter).  That is user code, not the runtime: documents of those languages that contain the
/// opening character are only explored when they are unmodified grammar-generated sentences.
fn scanner_hazard(lang: &str, text: &[u8], kind: &str) -> bool {
    let ch = match lang {
        "fx_external_and_internal_tokens" => b'\'',
        "fx_external_tokens" => b'%',
        _ => return false,
    };
    kind != "sentence" && text.contains(&ch)
}

static PARSE_STARTED: std::sync::atomic::AtomicU64 = std::sync::atomic::AtomicU64::new(0);
static CURRENT_SPEC: std::sync::Mutex<String> = std::sync::Mutex::new(String::new());

fn now_secs() -> u64 {
    std::time::SystemTime::now().duration_since(std::time::UNIX_EPOCH).map(|d| d.as_secs()).unwrap_or(0)
}

/// Wall-clock guard for what the operation budget cannot see (a loop that never reaches the
/// progress callback): a parse running longer than the limit aborts the explorer with the input.
fn start_watchdog(limit_secs: u64) {
    std::thread::spawn(move || loop {
        std::thread::sleep(std::time::Duration::from_secs(1));
        let t0 = PARSE_STARTED.load(std::sync::atomic::Ordering::Relaxed);
        if t0 != 0 && now_secs().saturating_sub(t0) > limit_secs {
            let spec = CURRENT_SPEC.lock().map(|s| s.clone()).unwrap_or_default();
            eprintln!("PARSE-TIMEOUT after {limit_secs}s spec={spec}");
            std::process::exit(3);
        }
    });
}

fn guard_begin(spec: &str) {
    if let Ok(mut s) = CURRENT_SPEC.lock() {
        *s = spec.to_string();
    }
    PARSE_STARTED.store(now_secs(), std::sync::atomic::Ordering::Relaxed);
}

fn guard_end() {
    PARSE_STARTED.store(0, std::sync::atomic::Ordering::Relaxed);
}

fn main() {
    limit_resources();
    start_watchdog(if tier_is_thorough() { 300 } else { 60 });
    let args: Vec<String> = std::env::args().collect();
    let out_path = args.get(1).expect("usage: c06 <ops-file> --langdump <exe> [--spec file] [lang...]").clone();
    let mut out = std::io::BufWriter::new(std::fs::File::create(&out_path).unwrap());
    let mut langdump = String::new();
    let mut spec_file: Option<String> = None;
    let mut only: Vec<String> = Vec::new();
    let mut i = 2;
    while i < args.len() {
        match args[i].as_str() {
            "--langdump" => {
                langdump = args[i + 1].clone();
                i += 2;
            }
            "--spec" => {
                spec_file = Some(args[i + 1].clone());
                i += 2;
            }
            a => {
                only.push(a.to_string());
                i += 1;
            }
        }
    }
    let thorough = tier_is_thorough();
    let mut st = Stats { cases: 0, nodes: 0, answers: 0, max_raw_children_hint: 0 };
    let mut loaded: Vec<LangCtx> = Vec::new();
    let mut emitted: HashSet<String> = HashSet::new();
    let mut get_lang = |id: &str, out: &mut std::io::BufWriter<std::fs::File>, loaded: &mut Vec<LangCtx>| -> Option<usize> {
        if let Some(k) = loaded.iter().position(|l| l.id == id) {
            return Some(k);
        }
        let built = match zoo::load(id) {
            Ok(b) => b,
            Err(e) => {
                eprintln!("skip {id}: {e}");
                return None;
            }
        };
        let gg = gen::GrammarGen::new(&built.grammar_json, zoo::read_zoo_file(id, "samples.json").as_deref());
        let field_count = built.language.field_count();
        let lc = LangCtx { id: id.to_string(), built, gg, field_count };
        if emitted.insert(id.to_string()) {
            if let Err(e) = emit_language(out, &lc, &langdump) {
                eprintln!("skip {id}: {e}");
                return None;
            }
        }
        loaded.push(lc);
        Some(loaded.len() - 1)
    };
    let run_specs = |specs: &str, tag: &str, out: &mut std::io::BufWriter<std::fs::File>, st: &mut Stats, loaded: &mut Vec<LangCtx>, get_lang: &mut dyn FnMut(&str, &mut std::io::BufWriter<std::fs::File>, &mut Vec<LangCtx>) -> Option<usize>| {
        for (i, line) in specs.lines().enumerate() {
            if let Some((lang, text, edits)) = parse_spec(line) {
                if let Some(k) = get_lang(&lang, out, loaded) {
                    let lc = &loaded[k];
                    let mut parser = Parser::new();
                    parser.set_language(&lc.built.language).unwrap();
                    emit_case(out, st, &format!("{lang}-{tag}{i}"), lc, &mut parser, &text, &edits, tag);
                }
            }
        }
    };
    if let Some(sf) = spec_file {
        let specs = std::fs::read_to_string(&sf).unwrap();
        run_specs(&specs, "r", &mut out, &mut st, &mut loaded, &mut get_lang);
        out.flush().unwrap();
        eprintln!("c06: replayed {} cases", st.cases);
        return;
    }
    // index fields of the cursor / iterators beyond 16 bits: behavioural probe of the unity build on a flat node of
    // 70 000 leaves over the symbols of `lst`; judged in Lean
    if let Some(k) = get_lang("lst", &mut out, &mut loaded) {
        let so = loaded[k].built.dir.join("lang.so");
        match std::process::Command::new(&langdump).arg("cwidths").arg(&so).arg(format!("tree_sitter_{}", loaded[k].built.name)).output() {
            Ok(o) if o.status.success() => out.write_all(&o.stdout).unwrap(),
            Ok(o) => eprintln!("cwidths probe failed: {}", String::from_utf8_lossy(&o.stderr)),
            Err(e) => eprintln!("cwidths probe: {e}"),
        }
    }
    if let Some(corpus) = zoo_corpus("c06") {
        run_specs(&corpus, "c", &mut out, &mut st, &mut loaded, &mut get_lang);
    }
    let mut rng = Rng::new(seed_from_env());
    // + C06's private grammars (sub-directories of a zoo entry, invisible to zoo::list())
    let langs: Vec<String> = if only.is_empty() { zoo::list().into_iter().chain(["twofld/nest".to_string()]).collect() } else { only };
    let docs_per_lang = if thorough { 60 } else { 10 };
    let mut case_no = 0usize;
    for id in langs {
        let k = match get_lang(&id, &mut out, &mut loaded) {
            Some(k) => k,
            None => continue,
        };
        let lc = &loaded[k];
        let mut parser = Parser::new();
        parser.set_language(&lc.built.language).unwrap();
        for d in 0..docs_per_lang {
            let budget = [3, 10, 30, 80][d % 4];
            let toks = lc.gg.sentence(&mut rng, budget);
            let (text, bounds) = lc.gg.render(&toks, &mut rng);
            case_no += 1;
            emit_case(&mut out, &mut st, &format!("{id}-{case_no}"), lc, &mut parser, &text, &[], "sentence");
            let m = gen::mutate_bytes(&mut rng, &text);
            case_no += 1;
            emit_case(&mut out, &mut st, &format!("{id}-{case_no}"), lc, &mut parser, &m, &[], "mutated");
            // multi-line variant (newlines instead of blanks) for the point-based functions
            if d % 2 == 0 {
                let ml: Vec<u8> = text.iter().map(|b| if *b == b' ' && rng.chance(1, 2) { b'\n' } else { *b }).collect();
                case_no += 1;
                emit_case(&mut out, &mut st, &format!("{id}-{case_no}"), lc, &mut parser, &ml, &[], "multiline");
            }
            let mut alphabet: Vec<Vec<u8>> = toks.iter().take(12).map(|t| t.text.clone().into_bytes()).collect();
            alphabet.extend([b" ".to_vec(), b"\n".to_vec(), b"x".to_vec(), b"(".to_vec(), b"?".to_vec()]);
            let alpha_refs: Vec<&[u8]> = alphabet.iter().map(|v| v.as_slice()).collect();
            let src = if d % 2 == 0 { &text } else { &m };
            let steps = rng.range(1, 3);
            let mut cur = src.clone();
            let mut edits = Vec::new();
            for _ in 0..steps {
                let te = random_edit(&mut rng, &cur, &bounds, &alpha_refs);
                if te.old_end > cur.len() {
                    break;
                }
                cur = te.apply(&cur);
                edits.push(te);
            }
            case_no += 1;
            emit_case(&mut out, &mut st, &format!("{id}-{case_no}"), lc, &mut parser, src, &edits, "edited-reparsed");
        }
    }
    out.flush().unwrap();
    eprintln!(
        "c06: wrote {} cases, {} nodes, {} api answers, longest goto_previous_sibling walk {}",
        st.cases, st.nodes, st.answers, st.max_raw_children_hint
    );
}
