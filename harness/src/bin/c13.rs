//! C13 explorer.
//! (1) function level: `L`/`D` lines — scripted programs for the REAL lexer (answered by the unity
//!     build `cunit_c13` and by the Lean port) and byte strings for `ts_decode_utf8`;
//! (2) system level: for (language, document, range list): `Parser::set_included_ranges` verdict,
//!     `parse(doc, ranges)`, `parse(concat(ranges))`, and — when a range boundary splits a character —
//!     `parse(E)` where E is the byte string the ranged lexer really consumes; full dumps of all trees.
//! usage: c13 <ops-file> [--spec <file>] [lang...]
//! spec: `<lang> <dochex|-> <ranges>` with ranges = `-` or `a-b,c-d` (`M` = UINT32_MAX).
use std::io::Write;
use tree_sitter::{Parser, Point, Range, Tree};
use tsv_harness::*;

const UMAX: usize = u32::MAX as usize;

fn pt(text: &[u8], x: usize) -> Point {
    if x >= UMAX {
        return Point { row: UMAX, column: UMAX };
    }
    let p = point_at(text, x.min(text.len()));
    if x > text.len() { Point { row: p.row, column: p.column + (x - text.len()) } } else { p }
}

fn mk_ranges(text: &[u8], bs: &[(usize, usize)]) -> Vec<Range> {
    bs.iter().map(|&(a, b)| Range { start_byte: a, end_byte: b, start_point: pt(text, a), end_point: pt(text, b) }).collect()
}

fn fmt_range(r: &Range) -> String {
    format!("{} {} {} {} {} {}", r.start_byte, r.start_point.row, r.start_point.column, r.end_byte, r.end_point.row, r.end_point.column)
}

fn fmt_bs(bs: &[(usize, usize)]) -> String {
    if bs.is_empty() {
        return "-".into();
    }
    let f = |x: usize| if x >= UMAX { "M".to_string() } else { x.to_string() };
    bs.iter().map(|&(a, b)| format!("{}-{}", f(a), f(b))).collect::<Vec<_>>().join(",")
}

fn parse_bs(s: &str) -> Option<Vec<(usize, usize)>> {
    if s == "-" {
        return Some(vec![]);
    }
    let g = |x: &str| if x == "M" { Some(UMAX) } else { x.parse().ok() };
    s.split(',').map(|p| { let (a, b) = p.split_once('-')?; Some((g(a)?, g(b)?)) }).collect()
}

/// Well-formed UTF-8 per the Unicode table (what ICU's U8_NEXT accepts); ill-formed → one byte.
fn u8_next(b: &[u8]) -> usize {
    let t = |i: usize, lo: u8, hi: u8| b.get(i).map(|&x| x >= lo && x <= hi).unwrap_or(false);
    match b[0] {
        0x00..=0x7f => 1,
        0xc2..=0xdf if t(1, 0x80, 0xbf) => 2,
        0xe0 if t(1, 0xa0, 0xbf) && t(2, 0x80, 0xbf) => 3,
        0xe1..=0xec | 0xee..=0xef if t(1, 0x80, 0xbf) && t(2, 0x80, 0xbf) => 3,
        0xed if t(1, 0x80, 0x9f) && t(2, 0x80, 0xbf) => 3,
        0xf0 if t(1, 0x90, 0xbf) && t(2, 0x80, 0xbf) && t(3, 0x80, 0xbf) => 4,
        0xf1..=0xf3 if t(1, 0x80, 0xbf) && t(2, 0x80, 0xbf) && t(3, 0x80, 0xbf) => 4,
        0xf4 if t(1, 0x80, 0x8f) && t(2, 0x80, 0xbf) && t(3, 0x80, 0xbf) => 4,
        _ => 1,
    }
}

fn char_starts(doc: &[u8]) -> Vec<bool> {
    let mut v = vec![false; doc.len() + 1];
    let mut p = 0;
    while p < doc.len() {
        v[p] = true;
        p += u8_next(&doc[p..]);
    }
    v[doc.len()] = true;
    v
}

/// The bytes the ranged lexer consumes (characters decoded from the document, not clipped to the range).
fn effective_text(doc: &[u8], rs: &[(usize, usize)]) -> Vec<u8> {
    if rs.is_empty() {
        return doc.to_vec();
    }
    let mut out = Vec::new();
    let mut idx = 0;
    let mut p = rs[0].0;
    let mut fuel = 2 * doc.len() + 2 * rs.len() + 4;
    while fuel > 0 && idx < rs.len() {
        fuel -= 1;
        let (a, b) = rs[idx];
        if p >= b || a == b {
            idx += 1;
            if idx < rs.len() {
                p = rs[idx].0;
            }
            continue;
        }
        if p >= doc.len() {
            break;
        }
        let n = u8_next(&doc[p..]);
        out.extend_from_slice(&doc[p..p + n]);
        p += n;
    }
    out
}

fn concat(doc: &[u8], rs: &[(usize, usize)]) -> Vec<u8> {
    if rs.is_empty() {
        return doc.to_vec();
    }
    let mut out = Vec::new();
    for &(a, b) in rs {
        let b = b.min(doc.len());
        if a < b {
            out.extend_from_slice(&doc[a..b]);
        }
    }
    out
}

fn bounded_parse(parser: &mut Parser, text: &[u8]) -> Option<Tree> {
    if text.len() > 20_000 {
        return None;
    }
    parser.parse(text, None)
}

struct Stats {
    cases: usize,
    accepted: usize,
    rejected: usize,
    splitting: usize,
    keyword_templates: usize,
    preludes: usize,
}

fn hx(b: &[u8]) -> String {
    if b.is_empty() { "-".into() } else { hex(b) }
}

/// The same parser object is used for ANOTHER (document, range list) pair first, and the ranges are NOT cleared
/// in between: either the same byte offsets over a document with a different line structure (so only the POINTS of
/// the two lists differ), or an unrelated list over the same document.
fn pick_prelude(rng: &mut Rng, doc: &[u8], bs: &[(usize, usize)]) -> Option<(Vec<u8>, Vec<(usize, usize)>)> {
    if bs.is_empty() || !rng.chance(1, 3) {
        return None;
    }
    if rng.chance(2, 3) {
        // same offsets, other points: toggle blanks and newlines (same length)
        let mut d: Vec<u8> = doc.to_vec();
        let mut changed = false;
        for b in d.iter_mut() {
            if (*b == b' ' || *b == b'\n') && rng.chance(1, 2) {
                *b = if *b == b' ' { b'\n' } else { b' ' };
                changed = true;
            }
        }
        if !changed && !d.is_empty() {
            d[0] = if d[0] == b'\n' { b' ' } else { b'\n' };
        }
        Some((d, bs.to_vec()))
    } else {
        let n = doc.len();
        let a = rng.below(n + 1);
        let b = a + rng.below(n + 1 - a);
        Some((doc.to_vec(), vec![(a, b)]))
    }
}

fn emit_case_h(out: &mut impl Write, cid: &str, lang: &str, parser: &mut Parser, doc: &[u8], bs: &[(usize, usize)], st: &mut Stats, rng: &mut Rng) {
    let pre = pick_prelude(rng, doc, bs);
    emit_case(out, cid, lang, parser, doc, bs, st, pre.as_ref().map(|(d, b)| (d.as_slice(), b.as_slice())));
}

fn emit_case(out: &mut impl Write, cid: &str, lang: &str, parser: &mut Parser, doc: &[u8], bs: &[(usize, usize)], st: &mut Stats, pre: Option<(&[u8], &[(usize, usize)])>) {
    let ranges = mk_ranges(doc, bs);
    match pre {
        Some((pd, pb)) => {
            writeln!(out, "spec {cid} {lang} {} {} pre:{}:{}", hx(doc), fmt_bs(bs), hx(pd), fmt_bs(pb)).unwrap();
            if parser.set_included_ranges(&mk_ranges(pd, pb)).is_ok() {
                let _ = bounded_parse(parser, pd);
                st.preludes += 1;
            }
        }
        None => writeln!(out, "spec {cid} {lang} {} {}", hx(doc), fmt_bs(bs)).unwrap(),
    }
    writeln!(out, "case {cid} {lang}").unwrap();
    writeln!(out, "doc {}", hx(doc)).unwrap();
    writeln!(out, "ranges {} {}", ranges.len(), ranges.iter().map(fmt_range).collect::<Vec<_>>().join(" ")).unwrap();
    st.cases += 1;
    match parser.set_included_ranges(&ranges) {
        Err(e) => {
            writeln!(out, "verdict err {}", e.0).unwrap();
            st.rejected += 1;
        }
        Ok(()) => {
            writeln!(out, "verdict ok").unwrap();
            st.accepted += 1;
            if let Some(tr) = bounded_parse(parser, doc) {
                let rep = tr.included_ranges();
                writeln!(out, "reported {} {}", rep.len(), rep.iter().map(fmt_range).collect::<Vec<_>>().join(" ")).unwrap();
                let c = concat(doc, bs);
                parser.set_included_ranges(&[]).unwrap();
                if let Some(tc) = bounded_parse(parser, &c) {
                    writeln!(out, "concat {}", hx(&c)).unwrap();
                    if std::env::var("C13_DEBUG").is_ok() {
                        eprintln!("{cid}\n  R: {}\n  C: {}", tr.root_node().to_sexp(), tc.root_node().to_sexp());
                    }
                    writeln!(out, "treeR\n{}", dump_tree(&tr).trim_end()).unwrap();
                    writeln!(out, "treeC\n{}", dump_tree(&tc).trim_end()).unwrap();
                    let cs = char_starts(doc);
                    let splits = bs.iter().any(|&(a, b)| {
                        let b = b.min(doc.len());
                        a < b && (!cs[a] || !cs[b])
                    });
                    if splits {
                        st.splitting += 1;
                        let e = effective_text(doc, bs);
                        if let Some(te) = bounded_parse(parser, &e) {
                            writeln!(out, "eff {}", hx(&e)).unwrap();
                            writeln!(out, "treeE\n{}", dump_tree(&te).trim_end()).unwrap();
                        }
                    }
                }
            }
        }
    }
    parser.set_included_ranges(&[]).unwrap();
    writeln!(out, "run").unwrap();
}

/// Range lists: 1-8 ranges; cuts at token boundaries, random offsets, inside multi-byte characters, at/after EOF;
/// empty and adjacent ranges; sometimes made invalid (overlap / inversion / disorder).
fn random_range_list(rng: &mut Rng, doc: &[u8], bounds: &[usize]) -> Vec<(usize, usize)> {
    let n = doc.len();
    if rng.chance(1, 25) {
        return vec![];
    }
    let k = match rng.below(6) { 0 => 1, 1 | 2 => 2, 3 => 3, 4 => rng.range(3, 5), _ => rng.range(5, 8) };
    let inside: Vec<usize> = (0..n).filter(|&i| doc[i] & 0xc0 == 0x80).collect();
    let mut cuts: Vec<usize> = (0..2 * k)
        .map(|_| match rng.below(10) {
            0..=3 if !bounds.is_empty() => (*rng.pick(bounds)).min(n),
            4 if !inside.is_empty() => *rng.pick(&inside),
            5 => n,
            6 => n + rng.below(4),
            _ => rng.below(n + 1),
        })
        .collect();
    cuts.sort();
    let mut v: Vec<(usize, usize)> = Vec::new();
    let mut i = 0;
    while v.len() < k && i + 1 < cuts.len() {
        let a = cuts[i];
        let b = if rng.chance(1, 8) { a } else { cuts[i + 1] }; // empty range
        v.push((a, b));
        i += if rng.chance(1, 5) { 1 } else { 2 }; // adjacent: next range starts at this end
    }
    if v.is_empty() {
        v.push((0, n));
    }
    // keep it valid where adjacency produced start < previous end
    for j in 1..v.len() {
        if v[j].0 < v[j - 1].1 {
            v[j].0 = v[j - 1].1;
            if v[j].1 < v[j].0 { v[j].1 = v[j].0; }
        }
    }
    match rng.below(8) {
        0 => v.last_mut().unwrap().1 = UMAX,
        1 => v[0].0 = 0,
        _ => {}
    }
    if rng.chance(1, 7) {
        // make it invalid
        let j = rng.below(v.len());
        match rng.below(3) {
            0 if v[j].1 > 0 => v[j] = (v[j].1, v[j].1 - 1),             // end < start
            1 if j > 0 && v[j - 1].1 > 0 => v[j].0 = v[j - 1].1 - 1,     // overlaps its predecessor
            _ if v.len() > 1 => { let l = v.len() - 1; v.swap(0, l) }              // disorder
            _ if v[j].1 < UMAX => v[j] = (v[j].1 + 1, v[j].1),
            _ => {}
        }
    }
    v
}

/// "Template" documents: a valid sentence cut at token boundaries into fragments, with junk between
/// them; the ranges are exactly the fragments, so the concatenation is the original sentence.
fn templated(rng: &mut Rng, text: &[u8], bounds: &[usize]) -> (Vec<u8>, Vec<(usize, usize)>) {
    // (wave 9) one template in four starts with the SECOND token of the sentence (an operator, a keyword, a closing
    // bracket …): an erroneous text whose repair happens at the very start — MISSING token or skipped token — and at
    // range starts generally; such templates get leading / trailing EMPTY regions (`<%%>`) half of the time
    let drop_first = bounds.len() >= 4 && bounds[2] < text.len() && rng.chance(1, 4);
    let shifted: Vec<usize>;
    let (text, bounds): (&[u8], &[usize]) = if drop_first {
        let cut = bounds[2];
        shifted = bounds[2..].iter().map(|b| b.saturating_sub(cut)).collect();
        (&text[cut..], &shifted)
    } else {
        (text, bounds)
    };
    let empty_regions = if drop_first { rng.chance(1, 2) } else { rng.chance(1, 6) };
    let junk: [&[u8]; 12] = [b"<% x %>", b"###", b"\n", "é€".as_bytes(), b"<<>>", b" ", b"\n\n  ", b"}", b"\xff\xfe", b"0", "😀".as_bytes(), b"(("];
    // half of the templates keep every gap on one line (no newline in the junk): columns of the included
    // characters are then the same in the document and in the concatenation (column-sensitive scanners)
    let same_line = rng.chance(1, 2);
    let junk: Vec<&[u8]> = junk.iter().copied().filter(|j| !same_line || !j.contains(&b'\n')).collect();
    let n = text.len();
    let k = rng.range(1, 6);
    let mut cuts: Vec<usize> = (0..k).map(|_| if bounds.is_empty() || rng.chance(1, 6) { rng.below(n + 1) } else { (*rng.pick(bounds)).min(n) }).collect();
    cuts.push(0);
    cuts.push(n);
    cuts.sort();
    cuts.dedup();
    // never cut inside a multi-byte character here (that is the other generator's job)
    cuts.retain(|&c| c >= n || text[c] & 0xc0 != 0x80);
    let mut doc = Vec::new();
    let mut rs = Vec::new();
    if empty_regions {
        for _ in 0..rng.range(1, 2) {
            doc.extend_from_slice(b"<%");
            rs.push((doc.len(), doc.len()));
            doc.extend_from_slice(if same_line { b"%>" } else { b"%>\n" });
        }
    }
    if rng.chance(1, 2) {
        doc.extend_from_slice(junk[rng.below(junk.len())]);
    }
    for w in cuts.windows(2) {
        let a = doc.len();
        doc.extend_from_slice(&text[w[0]..w[1]]);
        rs.push((a, doc.len()));
        if !rng.chance(1, 6) {
            doc.extend_from_slice(junk[rng.below(junk.len())]);
        }
    }
    if empty_regions && rng.chance(1, 2) {
        doc.extend_from_slice(b"<%");
        rs.push((doc.len(), doc.len()));
        doc.extend_from_slice(b"%>");
    }
    if rs.is_empty() {
        rs.push((0, 0));
    }
    if rng.chance(1, 10) {
        rs.last_mut().unwrap().1 = UMAX.min(if rng.chance(1, 2) { UMAX } else { doc.len() });
    }
    (doc, rs)
}

/// Template documents cut exactly IN FRONT OF KEYWORDS: every fragment but the first begins with a keyword
/// (an alphabetic literal of the grammar, lexed through the `word` token and the keyword lexer) and its
/// predecessor ends with the white space that preceded the keyword — the usual `<% a; %> … <% let b %>` shape.
fn keyword_template(rng: &mut Rng, text: &[u8], toks: &[gen::Tok], bounds: &[usize], grammar_json: &str) -> Option<(Vec<u8>, Vec<(usize, usize)>)> {
    let n = text.len();
    let mut cuts: Vec<usize> = Vec::new();
    for (i, t) in toks.iter().enumerate() {
        if i == 0 || 2 * i >= bounds.len() {
            continue;
        }
        let start = bounds[2 * i];
        let is_kw = t.text.len() >= 2
            && t.text.bytes().all(|b| b.is_ascii_alphabetic() || b == b'_')
            && grammar_json.contains(&format!("\"value\": \"{}\"", t.text));
        if is_kw && start > 0 && start <= n && (text[start - 1] == b' ' || text[start - 1] == b'\n' || text[start - 1] == b'\t') {
            cuts.push(start);
        }
    }
    cuts.dedup();
    if cuts.is_empty() {
        return None;
    }
    // keep 1-3 of them
    while cuts.len() > 3 {
        let k = rng.below(cuts.len());
        cuts.remove(k);
    }
    let junk: [&[u8]; 8] = [b"%><%", b"<% x %>", b"###", b"}", b"((", "é€".as_bytes(), b"0", b"\n%>\n"];
    let mut all = vec![0usize];
    all.extend(cuts);
    all.push(n);
    let mut doc = Vec::new();
    let mut rs = Vec::new();
    for w in all.windows(2) {
        let a = doc.len();
        doc.extend_from_slice(&text[w[0]..w[1]]);
        rs.push((a, doc.len()));
        doc.extend_from_slice(junk[rng.below(junk.len())]);
    }
    Some((doc, rs))
}

// ---------------------------------------------------------------- function level
fn random_doc(rng: &mut Rng) -> Vec<u8> {
    let pieces: [&[u8]; 16] = [b"a", b"b", b" ", b"\n", "é".as_bytes(), "€".as_bytes(), "😀".as_bytes(), b"\r\n", b"(", b"0", b"\xe2\x82", b"\xc3", b"\xff", b"\x80", b"\t", b"xyz"];
    let n = rng.below(12);
    let mut d = Vec::new();
    if rng.chance(1, 12) {
        d.extend_from_slice("\u{feff}".as_bytes());
    }
    for _ in 0..n {
        let pc: &[u8] = pieces[rng.below(pieces.len())];
        d.extend_from_slice(pc);
    }
    d
}

fn emit_function_cases(out: &mut impl Write, rng: &mut Rng, n: usize) {
    for i in 0..n {
        if i % 5 == 4 {
            // decoder: 1-5 bytes biased to lead/trail bytes
            let k = rng.range(1, 5);
            let b: Vec<u8> = (0..k)
                .map(|j| match rng.below(6) {
                    0 => rng.below(256) as u8,
                    1 => [0xc0, 0xc1, 0xc2, 0xdf, 0xe0, 0xe1, 0xec, 0xed, 0xee, 0xef, 0xf0, 0xf1, 0xf3, 0xf4, 0xf5, 0xff][rng.below(16)],
                    2 | 3 if j > 0 => [0x80, 0x8f, 0x90, 0x9f, 0xa0, 0xbf][rng.below(6)],
                    4 => [0x7f, 0x41, 0x00, 0x0a][rng.below(4)],
                    _ => (0x80 + rng.below(64)) as u8,
                })
                .collect();
            writeln!(out, "D fd{i} {}", hex(&b)).unwrap();
            continue;
        }
        let doc = random_doc(rng);
        let n = doc.len();
        let k = rng.below(4);
        let bs: Vec<(usize, usize)> = if k == 0 { vec![] } else {
            let mut cuts: Vec<usize> = (0..2 * k).map(|_| rng.below(n + 3)).collect();
            if !rng.chance(1, 8) { cuts.sort(); }
            let mut v: Vec<(usize, usize)> = (0..k).map(|j| (cuts[2 * j], cuts[2 * j + 1])).collect();
            if rng.chance(1, 6) { v[k - 1].1 = UMAX; }
            v
        };
        let chunking = match rng.below(8) {
            0..=3 => "w".to_string(),
            4 => format!("c{}", [1, 2, 3, 4, 7][rng.below(5)]),
            5 => format!("c{}", rng.range(1, 9)),
            _ => {
                let mut sp: Vec<usize> = (0..rng.range(1, 4)).map(|_| rng.below(n + 1)).collect();
                sp.sort();
                format!("s{}", sp.iter().map(|x| x.to_string()).collect::<Vec<_>>().join(","))
            }
        };
        let rs = mk_ranges(&doc, &bs);
        let mut ops: Vec<String> = vec!["S".into()];
        for _ in 0..rng.range(2, 24) {
            ops.push(match rng.below(19) {
                16 => "I".to_string(),
                17 | 18 => "C".to_string(),
                0..=6 => "A".to_string(),
                7 | 8 => "K".to_string(),
                9 | 10 => "M".to_string(),
                11 => "F".to_string(),
                12 | 13 => "S".to_string(),
                _ => {
                    let b = rng.below(n + 2);
                    let p = pt(&doc, b);
                    format!("R:{}:{}:{}", b, p.row, p.column)
                }
            });
        }
        writeln!(out, "L fl{i} {} {} {} {} | {}", hx(&doc), chunking, rs.len(), rs.iter().map(fmt_range).collect::<Vec<_>>().join(" "), ops.join(" ")).unwrap();
    }
}

fn main() {
    limit_resources();
    // watchdog: a mutated runtime that loops forever must not hang the check (SIGALRM kills the explorer)
    extern "C" {
        fn alarm(seconds: u32) -> u32;
    }
    unsafe {
        alarm(if tier_is_thorough() { 1500 } else { 240 });
    }
    let args: Vec<String> = std::env::args().collect();
    let out_path = args.get(1).expect("usage: c13 <ops-file> [--spec file] [lang...]").clone();
    let mut out = std::io::BufWriter::new(std::fs::File::create(&out_path).unwrap());
    let mut st = Stats { cases: 0, accepted: 0, rejected: 0, splitting: 0, keyword_templates: 0, preludes: 0 };
    let run_specs = |src: &str, tag: &str, out: &mut std::io::BufWriter<std::fs::File>, st: &mut Stats| {
        for (i, line) in src.lines().enumerate() {
            if line.trim().is_empty() || line.starts_with('#') {
                continue;
            }
            let mut parts: Vec<&str> = line.split_whitespace().collect();
            if parts.first() == Some(&"spec") {
                parts.remove(0);
            }
            if parts.len() >= 2 && !zoo::zoo_dir(parts[0]).join("grammar.json").exists() {
                parts.remove(0);
            }
            if parts.len() < 3 {
                continue;
            }
            if let (Ok(b), Some(bs)) = (zoo::load(parts[0]), parse_bs(parts[2])) {
                let doc = if parts[1] == "-" { vec![] } else { unhex(parts[1]) };
                let mut parser = Parser::new();
                parser.set_language(&b.language).unwrap();
                let pre: Option<(Vec<u8>, Vec<(usize, usize)>)> = parts.get(3).and_then(|x| x.strip_prefix("pre:")).and_then(|x| {
                    let (d, r) = x.split_once(':')?;
                    Some((if d == "-" { vec![] } else { unhex(d) }, parse_bs(r)?))
                });
                emit_case(out, &format!("{}-{tag}{i}", parts[0]), parts[0], &mut parser, &doc, &bs, st, pre.as_ref().map(|(d, b)| (d.as_slice(), b.as_slice())));
            }
        }
    };
    if args.get(2).map(|s| s == "--spec").unwrap_or(false) {
        let specs = std::fs::read_to_string(&args[3]).unwrap();
        run_specs(&specs, "r", &mut out, &mut st);
        out.flush().unwrap();
        eprintln!("c13: replayed {} cases", st.cases);
        return;
    }
    let only: Vec<String> = args[2..].to_vec();
    let mut rng = Rng::new(seed_from_env());
    let thorough = tier_is_thorough();
    let nf = if thorough { 60_000 } else { 5_000 };
    emit_function_cases(&mut out, &mut rng.fork(), nf);
    if let Some(corpus) = zoo_corpus("c13") {
        run_specs(&corpus, "c", &mut out, &mut st);
    }
    let (docs_per_lang, lists_per_doc) = if thorough { (40, 20) } else { (6, 6) };
    let langs: Vec<String> = if only.is_empty() { zoo::list() } else { only };
    let mut no = 0usize;
    for id in langs {
        let b = match zoo::load(&id) {
            Ok(b) => b,
            Err(e) => {
                eprintln!("skip {id}: {e}");
                continue;
            }
        };
        let gg = gen::GrammarGen::new(&b.grammar_json, zoo::read_zoo_file(&id, "samples.json").as_deref());
        let mut parser = Parser::new();
        parser.set_language(&b.language).unwrap();
        for d in 0..docs_per_lang {
            let budget = [4, 12, 40, 120][d % 4];
            let toks = gg.sentence(&mut rng, budget);
            let (mut text, bounds) = gg.render(&toks, &mut rng);
            if d % 3 == 2 {
                text = gen::mutate_bytes(&mut rng, &text);
            }
            if text.len() > 3000 {
                text.truncate(3000);
            }
            // keyword grammars: fragments that begin with a keyword after a fragment ending in white space
            if d % 3 != 2 {
                for _ in 0..(if thorough { 3 } else { 1 }) {
                    if let Some((doc, bs)) = keyword_template(&mut rng, &text, &toks, &bounds, &b.grammar_json) {
                        no += 1;
                        st.keyword_templates += 1;
                        emit_case_h(&mut out, &format!("{id}-{no}"), &id, &mut parser, &doc, &bs, &mut st, &mut rng);
                    }
                }
            }
            for l in 0..lists_per_doc {
                no += 1;
                if l % 2 == 1 && d % 3 != 2 {
                    let (doc, bs) = templated(&mut rng, &text, &bounds);
                    emit_case_h(&mut out, &format!("{id}-{no}"), &id, &mut parser, &doc, &bs, &mut st, &mut rng);
                } else {
                    let bs = random_range_list(&mut rng, &text, &bounds);
                    emit_case_h(&mut out, &format!("{id}-{no}"), &id, &mut parser, &text, &bs, &mut st, &mut rng);
                }
            }
        }
    }
    out.flush().unwrap();
    eprintln!(
        "c13: wrote {} function cases and {} system cases ({} accepted, {} rejected lists, {} with a character-splitting boundary, {} keyword templates) to {}",
        nf, st.cases, st.accepted, st.rejected, st.splitting, st.keyword_templates, out_path
    );
}
