//! C02 explorer: parses byte strings with the REAL parser of /repo under an operation budget and
//! writes, for every tree, (a) the full internal dump, (b) what the public Node/TreeCursor API
//! says about every visible node, (c) the text; once per language the data tables of the
//! generated language (through the unity build `tsv-cunit_c02`).  The Lean driver `tsv-c02`
//! recomputes every cached summary (correspondence) and judges the property's clauses.
//!
//! usage: c02 <ops-file> --langdump <tsv-cunit_c02> [--spec <file>] [lang...]
//! spec line: `<lang> <texthex|-|gen:rep:unit:n:pre:suf> <edits|->[@s-e,s-e…]`   edits = `start,old_end,inshex|...` (applied
//! one by one with Tree::edit, then ONE re-parse with the edited old tree); `@…` = included ranges.
use std::collections::HashSet;
use std::io::Write;
use std::ops::ControlFlow;
use tree_sitter::{Node, ParseOptions, Parser, Tree};
use tsv_harness::*;

struct LangCtx {
    id: String,
    built: zoo::Built,
    gg: gen::GrammarGen,
}

/// Which bytes may be skipped between leaves, read off the grammar's `extras`:
/// `ws` = the Unicode White_Space class (what `\s` compiles to), plus literal strings.
/// Returns None when an extra is an anonymous pattern this function does not understand
/// (the padding clause is then not judged for that language and the fact is counted).
fn skip_spec(grammar_json: &str) -> Option<(bool, Vec<Vec<u8>>)> {
    let g: serde_json::Value = serde_json::from_str(grammar_json).ok()?;
    let mut ws = false;
    let mut lits: Vec<Vec<u8>> = Vec::new();
    let default = serde_json::json!([{"type":"PATTERN","value":"\\s"}]);
    let extras = g.get("extras").unwrap_or(&default);
    for e in extras.as_array()? {
        match e["type"].as_str()? {
            "PATTERN" => match e["value"].as_str()? {
                "\\s" | "\\s+" | "\\s*" => ws = true,
                "\\s|\\\\\\r?\\n" => {
                    ws = true;
                    lits.push(b"\\\n".to_vec());
                    lits.push(b"\\\r\n".to_vec());
                }
                _ => return None,
            },
            "STRING" => lits.push(e["value"].as_str()?.as_bytes().to_vec()),
            "SYMBOL" => {} // a named extra is a node of the tree, not padding
            _ => return None,
        }
    }
    Some((ws, lits))
}

fn emit_language(out: &mut impl Write, lc: &LangCtx, langdump: &str) -> Result<(), String> {
    let so = lc.built.dir.join("lang.so");
    let o = std::process::Command::new(langdump)
        .arg("lang")
        .arg(&so)
        .arg(format!("tree_sitter_{}", lc.built.name))
        .output()
        .map_err(|e| format!("{langdump}: {e}"))?;
    if !o.status.success() {
        return Err(format!("langdump failed: {}", String::from_utf8_lossy(&o.stderr)));
    }
    writeln!(out, "deflang {}", lc.id).unwrap();
    out.write_all(&o.stdout).unwrap();
    match skip_spec(&lc.built.grammar_json) {
        Some((ws, lits)) => {
            let l: Vec<String> = lits.iter().map(|l| hex(l)).collect();
            writeln!(out, "skip {} {}", if ws { 1 } else { 0 }, l.join(" ")).unwrap();
        }
        None => writeln!(out, "skip unknown").unwrap(),
    }
    writeln!(out, "enddeflang").unwrap();
    Ok(())
}

/// Rebalancing cases: the unity build constructs deliberately unbalanced trees over this language's
/// symbols, runs the real ts_subtree_compress / ts_parser__balance_subtree on them and prints the
/// before / after dumps as cases of the driver (`runbal`).  Not done in --spec (replay) mode.
fn emit_balance_cases(out: &mut impl Write, lc: &LangCtx, langdump: &str, seed: u64, cases: usize) -> Result<usize, String> {
    let so = lc.built.dir.join("lang.so");
    let o = std::process::Command::new(langdump)
        .arg("balance")
        .arg(&so)
        .arg(format!("tree_sitter_{}", lc.built.name))
        .arg(&lc.id)
        .arg(format!("{}", seed % 1_000_000))
        .arg(format!("{cases}"))
        .output()
        .map_err(|e| format!("{langdump}: {e}"))?;
    if !o.status.success() {
        return Err(format!("langdump balance failed: {}", String::from_utf8_lossy(&o.stderr)));
    }
    out.write_all(&o.stdout).unwrap();
    for c in 0..cases {
        writeln!(out, "spec bal-{}-{} {} balance:{}:{}", lc.id, c, lc.id, seed % 1_000_000, cases).unwrap();
    }
    Ok(cases)
}

pub struct ParseOutcome {
    pub tree: Option<Tree>,
    pub callbacks: usize,
    pub exhausted: bool,
}

/// Every parse runs under an operation budget (progress callback = every 100 parser operations).
fn parse_budgeted(parser: &mut Parser, text: &[u8], old: Option<&Tree>, budget_calls: usize) -> ParseOutcome {
    let mut calls = 0usize;
    let mut exhausted = false;
    let mut cb = |_: &tree_sitter::ParseState| {
        calls += 1;
        if calls > budget_calls {
            exhausted = true;
            ControlFlow::Break(())
        } else {
            ControlFlow::Continue(())
        }
    };
    let opts = ParseOptions::new().progress_callback(&mut cb);
    let len = text.len();
    let tree = parser.parse_with_options(&mut |i, _| if i < len { &text[i..] } else { &[] as &[u8] }, old, Some(opts));
    if tree.is_none() {
        parser.reset();
    }
    ParseOutcome { tree, callbacks: calls, exhausted }
}

fn budget_for(len: usize) -> usize {
    // callbacks (x100 operations): generous linear bound; measured maximum is reported
    200 + 40 * len
}

fn node_flags(n: &Node) -> u32 {
    (n.is_named() as u32) | (n.is_extra() as u32) << 1 | (n.is_missing() as u32) << 2 | (n.is_error() as u32) << 3
        | (n.has_error() as u32) << 4 | (n.has_changes() as u32) << 5
}

/// One line per visible node in preorder, children reached with Node::child(i):
/// a depth kind_id sb eb sr sc er ec flags child_count named_child_count descendant_count enumC enumN enumD
/// enumC/enumN = children / named children found by a TreeCursor walk over the node's children,
/// enumD = nodes in the subtree found by this walk (self included).
fn emit_api(out: &mut impl Write, tree: &Tree) -> usize {
    struct Fr<'a> {
        node: Node<'a>,
        depth: usize,
        next: u32,
        cc: u32,
        line: usize,
        desc: usize,
    }
    let mut lines: Vec<String> = Vec::new();
    let mut descs: Vec<usize> = Vec::new();
    let mut stack: Vec<Fr> = Vec::new();
    let open = |node: Node, depth: usize, lines: &mut Vec<String>, descs: &mut Vec<usize>| -> (u32, usize) {
        let mut cur = node.walk();
        let (mut ec, mut en) = (0usize, 0usize);
        if cur.goto_first_child() {
            loop {
                ec += 1;
                if cur.node().is_named() {
                    en += 1;
                }
                if !cur.goto_next_sibling() {
                    break;
                }
            }
        }
        let sp = node.start_position();
        let ep = node.end_position();
        let cc = node.child_count();
        lines.push(format!(
            "a {} {} {} {} {} {} {} {} {} {} {} {} {} {}",
            depth,
            node.kind_id(),
            node.start_byte(),
            node.end_byte(),
            sp.row,
            sp.column,
            ep.row,
            ep.column,
            node_flags(&node),
            cc,
            node.named_child_count(),
            node.descendant_count(),
            ec,
            en
        ));
        descs.push(0);
        (cc, lines.len() - 1)
    };
    let root = tree.root_node();
    let (cc, line) = open(root, 0, &mut lines, &mut descs);
    stack.push(Fr { node: root, depth: 0, next: 0, cc, line, desc: 1 });
    while let Some(top) = stack.last_mut() {
        if top.next < top.cc {
            let i = top.next;
            top.next += 1;
            let depth = top.depth + 1;
            if let Some(ch) = top.node.child(i) {
                let (cc, line) = open(ch, depth, &mut lines, &mut descs);
                stack.push(Fr { node: ch, depth, next: 0, cc, line, desc: 1 });
            } else {
                // advertised child missing: recorded as a line the judge rejects
                lines.push(format!("a {} 65533 0 0 0 0 0 0 0 0 0 0 0 0", depth));
                descs.push(1);
            }
        } else {
            let fr = stack.pop().unwrap();
            descs[fr.line] = fr.desc;
            if let Some(p) = stack.last_mut() {
                p.desc += fr.desc;
            }
        }
    }
    writeln!(out, "api {}", lines.len()).unwrap();
    for (l, d) in lines.iter().zip(descs.iter()) {
        writeln!(out, "{l} {d}").unwrap();
    }
    writeln!(out, "endapi").unwrap();
    lines.len()
}

struct Stats {
    cases: usize,
    max_calls_per_byte_x100: usize,
    exhausted: usize,
    kinds: std::collections::BTreeMap<String, usize>,
    max_len: usize,
    nodes: usize,
    balance_cases: usize,
}

#[allow(clippy::too_many_arguments)]
fn emit_case(
    out: &mut impl Write,
    st: &mut Stats,
    cid: &str,
    lc: &LangCtx,
    parser: &mut Parser,
    text: &[u8],
    edits: &[TextEdit],
    ranges: &[(usize, usize)],
    kind: &str,
) {
    let enc_edits: Vec<String> =
        edits.iter().map(|e| format!("{},{},{}", e.start, e.old_end, if e.ins.is_empty() { "-".to_string() } else { hex(&e.ins) })).collect();
    let enc_ranges: Vec<String> = ranges.iter().map(|(a, b)| format!("{a}-{b}")).collect();
    let spec = format!(
        "{} {} {}{}",
        lc.id,
        if text.is_empty() { "-".to_string() } else { compact_text(text) },
        if enc_edits.is_empty() { "-".to_string() } else { enc_edits.join("|") },
        if enc_ranges.is_empty() { String::new() } else { format!("@{}", enc_ranges.join(",")) }
    );
    {
        // the document that will finally be parsed (after the edits) decides about the hazard
        let mut fin = text.to_vec();
        for te in edits {
            if te.start > te.old_end || te.old_end > fin.len() {
                break;
            }
            fin = te.apply(&fin);
        }
        if scanner_hazard(&lc.id, text, kind) || scanner_hazard(&lc.id, &fin, kind) || (!ranges.is_empty() && scanner_hazard(&lc.id, text, "ranges")) {
            return;
        }
    }
    guard_begin(&spec);
    let ts_ranges: Vec<tree_sitter::Range> = ranges
        .iter()
        .map(|(a, b)| tree_sitter::Range { start_byte: *a, end_byte: *b, start_point: point_at(text, (*a).min(text.len())), end_point: point_at(text, (*b).min(text.len())) })
        .collect();
    if parser.set_included_ranges(&ts_ranges).is_err() {
        let _ = parser.set_included_ranges(&[]);
        guard_end();
        return;
    }
    let o = parse_budgeted(parser, text, None, budget_for(text.len()));
    let _ = parser.set_included_ranges(&[]);
    let mut calls = o.callbacks;
    let mut exhausted = o.exhausted;
    let mut cur = text.to_vec();
    let mut tree = o.tree;
    if tree.is_some() && !edits.is_empty() {
        let mut t = tree.take().unwrap();
        for te in edits {
            if te.start > te.old_end || te.old_end > cur.len() {
                break;
            }
            let new = te.apply(&cur);
            t.edit(&te.input_edit(&cur, &new));
            cur = new;
        }
        let o2 = parse_budgeted(parser, &cur, Some(&t), budget_for(cur.len()));
        calls = calls.max(o2.callbacks);
        exhausted |= o2.exhausted;
        tree = o2.tree;
    }
    guard_end();
    st.cases += 1;
    *st.kinds.entry(kind.to_string()).or_insert(0) += 1;
    st.max_len = st.max_len.max(cur.len());
    st.max_calls_per_byte_x100 = st.max_calls_per_byte_x100.max(calls * 100 / (cur.len() + 1));
    writeln!(out, "spec {cid} {spec}").unwrap();
    writeln!(out, "case {cid}").unwrap();
    writeln!(out, "lang {}", lc.id).unwrap();
    writeln!(out, "kind {kind}").unwrap();
    writeln!(out, "calls {} {}", calls, budget_for(cur.len())).unwrap();
    writeln!(out, "text {}", hex(&cur)).unwrap();
    match tree {
        Some(t) if !exhausted => {
            out.write_all(dump_tree(&t).as_bytes()).unwrap();
            st.nodes += emit_api(out, &t);
        }
        _ => {
            st.exhausted += 1;
            writeln!(out, "notree {}", if exhausted { "budget" } else { "null" }).unwrap();
        }
    }
    writeln!(out, "run").unwrap();
}

type Spec = (String, Vec<u8>, Vec<TextEdit>, Vec<(usize, usize)>);

/// Text field of a spec line: hex, or for long periodic documents (the very wide ones: >= 65 536 flat
/// children) the compact form `gen:rep:<unit-hex>:<count>:<prefix-hex|->:<suffix-hex|->`.
fn compact_text(text: &[u8]) -> String {
    if text.len() >= 4096 {
        for pre in 0..=1usize {
            for suf in 0..=1usize {
                let body = &text[pre..text.len() - suf];
                for p in 1..=8usize {
                    if body.len() % p == 0 && body.chunks(p).all(|c| c == &body[..p]) {
                        let h = |b: &[u8]| if b.is_empty() { "-".to_string() } else { hex(b) };
                        return format!("gen:rep:{}:{}:{}:{}", hex(&body[..p]), body.len() / p, h(&text[..pre]), h(&text[text.len() - suf..]));
                    }
                }
            }
        }
    }
    hex(text)
}

fn expand_text(field: &str) -> Option<Vec<u8>> {
    if field == "-" {
        return Some(vec![]);
    }
    if let Some(rest) = field.strip_prefix("gen:rep:") {
        let f: Vec<&str> = rest.split(':').collect();
        if f.len() != 4 {
            return None;
        }
        let unit = unhex(f[0]);
        let n: usize = f[1].parse().ok()?;
        if unit.len() * n > 64 << 20 {
            return None;
        }
        let mut t = if f[2] == "-" { vec![] } else { unhex(f[2]) };
        for _ in 0..n {
            t.extend_from_slice(&unit);
        }
        if f[3] != "-" {
            t.extend_from_slice(&unhex(f[3]));
        }
        return Some(t);
    }
    Some(unhex(field))
}

fn parse_spec(line: &str) -> Option<Spec> {
    let line = line.split('#').next().unwrap_or("");
    let parts: Vec<&str> = line.split_whitespace().collect();
    let parts = if parts.len() == 4 { &parts[1..] } else { &parts[..] };
    if parts.len() != 3 {
        return None;
    }
    let text = expand_text(parts[1])?;
    let mut edits = Vec::new();
    let (edit_part, range_part) = match parts[2].split_once('@') {
        Some((a, b)) => (a, b),
        None => (parts[2], ""),
    };
    let mut ranges = Vec::new();
    for r in range_part.split(',').filter(|r| !r.is_empty()) {
        let (a, b) = r.split_once('-')?;
        ranges.push((a.parse().ok()?, b.parse().ok()?));
    }
    if edit_part != "-" {
        for e in edit_part.split('|') {
            let f: Vec<&str> = e.split(',').collect();
            if f.len() != 3 {
                return None;
            }
            edits.push(TextEdit { start: f[0].parse().ok()?, old_end: f[1].parse().ok()?, ins: if f[2] == "-" { vec![] } else { unhex(f[2]) } });
        }
    }
    Some((parts[0].to_string(), text, edits, ranges))
}

fn special_docs(rng: &mut Rng, base: &[u8], toks: &[gen::Tok], thorough: bool) -> Vec<(String, Vec<u8>)> {
    let mut v: Vec<(String, Vec<u8>)> = Vec::new();
    v.push(("empty".into(), vec![]));
    v.push(("ws-only".into(), b" \n\t \r\n ".to_vec()));
    // BOM-prefixed documents.  `bom`: the first token follows the byte order mark DIRECTLY, so the
    // document has nodes on row 0 whose column must count the 3 BOM bytes (for every seed and every
    // language); `bom-ws`: the sentence as rendered (may begin with blanks or a newline);
    // `bom-multiline`: first token on row 0, the others on later rows; `bom-nl`: row 0 holds only the BOM.
    let first_tok = base.iter().position(|b| !b" \t\r\n".contains(b)).unwrap_or(base.len());
    let trimmed = &base[first_tok..];
    let mut bom = vec![0xef, 0xbb, 0xbf];
    bom.extend_from_slice(trimmed);
    v.push(("bom".into(), bom));
    let mut bom_ws = vec![0xef, 0xbb, 0xbf];
    bom_ws.extend_from_slice(base);
    v.push(("bom-ws".into(), bom_ws));
    let mut bom_ml = vec![0xef, 0xbb, 0xbf];
    bom_ml.extend(trimmed.iter().map(|b| if *b == b' ' { b'\n' } else { *b }));
    v.push(("bom-multiline".into(), bom_ml));
    let mut bom_nl = vec![0xef, 0xbb, 0xbf, b'\n'];
    bom_nl.extend_from_slice(trimmed);
    v.push(("bom-nl".into(), bom_nl));
    let mut bom_mid = base.to_vec();
    let at = rng.below(base.len() + 1);
    for (k, b) in [0xef, 0xbb, 0xbf].iter().enumerate() {
        bom_mid.insert(at + k, *b);
    }
    v.push(("bom-mid".into(), bom_mid));
    let crlf: Vec<u8> = base.iter().flat_map(|b| if *b == b' ' || *b == b'\n' { vec![b'\r', b'\n'] } else { vec![*b] }).collect();
    v.push(("crlf".into(), crlf));
    let lf: Vec<u8> = base.iter().map(|b| if *b == b' ' { b'\n' } else { *b }).collect();
    v.push(("multiline".into(), lf));
    let mut nul = base.to_vec();
    let at = rng.below(nul.len() + 1);
    nul.insert(at, 0);
    v.push(("nul".into(), nul));
    v.push(("nul-only".into(), vec![0, 0, 0]));
    for (name, seq) in [
        ("inv-cont", vec![0x80u8]),
        ("inv-trunc2", vec![0xc3]),
        ("inv-trunc3", vec![0xe2, 0x82]),
        ("inv-ff", vec![0xff, 0xfe]),
        ("inv-overlong", vec![0xc0, 0xaf]),
        ("inv-surrogate", vec![0xed, 0xa0, 0x80]),
        ("inv-trunc4", vec![0xf0, 0x9f, 0x98]),
        ("nbsp", vec![0xc2, 0xa0]),
        ("u2028", vec![0xe2, 0x80, 0xa8]),
        ("astral", vec![0xf0, 0x9f, 0x98, 0x80]),
    ] {
        let mut t = base.to_vec();
        let at = rng.below(t.len() + 1);
        for (k, b) in seq.iter().enumerate() {
            t.insert(at + k, *b);
        }
        v.push((name.into(), t));
        if name == "inv-trunc3" {
            let mut e = base.to_vec();
            e.extend_from_slice(&seq);
            v.push(("inv-trunc-eof".into(), e));
        }
    }
    let n = if thorough { 4000 } else { 300 };
    let rb: Vec<u8> = (0..rng.range(1, 60)).map(|_| rng.next() as u8).collect();
    v.push(("random-bytes".into(), rb));
    let alpha: Vec<u8> = toks.iter().flat_map(|t| t.text.bytes()).chain(b" \n()[]{};,?\x00\xe2".iter().copied()).collect();
    let soup: Vec<u8> = (0..rng.range(1, 80)).map(|_| alpha[rng.below(alpha.len())]).collect();
    v.push(("token-soup".into(), soup));
    // long repeats of the base sentence and of its first token
    let mut rep = Vec::new();
    for _ in 0..n {
        rep.extend_from_slice(base);
        rep.push(b' ');
        if rep.len() > (if thorough { 400_000 } else { 12_000 }) {
            break;
        }
    }
    v.push(("long-repeat".into(), rep));
    if let Some(t0) = toks.first() {
        let mut rep = Vec::new();
        for _ in 0..n {
            rep.extend_from_slice(t0.text.as_bytes());
            rep.push(b'\n');
        }
        v.push(("long-repeat-tok".into(), rep));
    }
    v
}

fn nest_docs(id: &str, thorough: bool) -> Vec<(String, Vec<u8>)> {
    let d = if thorough { 10_000 } else { 600 };
    let mut v = Vec::new();
    let (open, mid, close): (&[u8], &[u8], &[u8]) = match id {
        "lst" => (b"(", b"a", b")"),
        "arith" => (b"(", b"1", b")"),
        "jsonish" => (b"[", b"1", b"]"),
        "stmt" => (b"{", b"a;", b"}"),
        _ => return v,
    };
    let mut t = Vec::new();
    for _ in 0..d {
        t.extend_from_slice(open);
    }
    t.extend_from_slice(mid);
    for _ in 0..d {
        t.extend_from_slice(close);
    }
    v.push(("deep-nest".to_string(), t.clone()));
    t.truncate(d + mid.len() + d / 2);
    v.push(("deep-nest-unclosed".to_string(), t));
    v
}

/// Two fixture scanners (copied from /repo/test/fixtures) loop forever at EOF inside an
/// unterminated construct (`while (lexer->lookahead != '\'') advance` / `for(;;)` until the closing
/// delimiter).  That is user code, not the runtime: documents of those languages that contain the
/// opening character are only explored when they are unmodified grammar-generated sentences.
fn scanner_hazard(lang: &str, text: &[u8], kind: &str) -> bool {
    let ch = match lang {
        "fx_external_and_internal_tokens" => b'\'',
        "fx_external_tokens" => b'%',
        _ => return false,
    };
    kind != "sentence" && text.contains(&ch)
}

/// The PRIVATE zoo grammar with > 300 symbols (zoo/c02wide/grammar.js).
const WIDE: &str = "c02wide";

/// Documents of zoo/c02wide that are VALID by construction (kind `wide-valid`: judged to parse without
/// ERROR / MISSING, every literal leaf's kind = its text): every keyword k000..k299 and every operator at
/// least once (so every token id below, at and above 256 is a leaf somewhere), every named token and rule,
/// nested blocks, multi-line layouts, plus random statement lists.
fn wide_docs(rng: &mut Rng, thorough: bool) -> Vec<(String, Vec<u8>)> {
    const IDS: [&str; 7] = ["x", "foo", "a_b", "k3", "kk001", "z9", "k0000"];
    const OPS_A: &[u8] = b"abcdefgh";
    const OPS_B: &[u8] = b"stuvwxyz";
    fn value(rng: &mut Rng, depth: usize) -> String {
        match rng.below(if depth > 3 { 3 } else { 4 }) {
            0 => IDS[rng.below(IDS.len())].to_string(),
            1 => format!("{}", rng.below(100000)),
            2 => ["\"\"", "\"s\"", "\"k001 ;\"", "\"\u{e9} x\""][rng.below(4)].to_string(),
            _ => format!("({})", value(rng, depth + 1)),
        }
    }
    fn kw_stmt(rng: &mut Rng, i: usize) -> String {
        let sp = if rng.chance(1, 3) { "" } else { " " };
        if i < 100 {
            format!("k{i:03}{sp};")
        } else if i < 200 {
            format!("k{i:03} {}{sp};", IDS[rng.below(IDS.len())])
        } else if rng.chance(1, 2) {
            format!("k{i:03}{sp};")
        } else {
            format!("k{i:03} {}{sp};", value(rng, 0))
        }
    }
    fn op_stmt(rng: &mut Rng, j: usize) -> String {
        format!("{} ${}{} {};", IDS[rng.below(IDS.len())], OPS_A[j >> 3] as char, OPS_B[j & 7] as char, value(rng, 0))
    }
    fn item(rng: &mut Rng, depth: usize) -> String {
        match rng.below(10) {
            0 if depth < 4 => {
                let n = rng.below(4);
                let inner: Vec<String> = (0..n).map(|_| item(rng, depth + 1)).collect();
                format!("{{ {} }}", inner.join(if rng.chance(1, 2) { "\n" } else { " " }))
            }
            1 => {
                let j = rng.below(40);
                op_stmt(rng, j)
            }
            2 => format!("#{} {};", ["a", "tag", "zz"][rng.below(3)], if rng.chance(1, 2) { "\"t\"" } else { "" }),
            _ => {
                let i = rng.below(300);
                kw_stmt(rng, i)
            }
        }
    }
    let mut v: Vec<(String, Vec<u8>)> = Vec::new();
    let mut push = |s: String| v.push(("wide-valid".to_string(), s.into_bytes()));
    // every keyword once, 50 per document, one per line / blank separated alternately
    for c in 0..6 {
        let stmts: Vec<String> = (c * 50..c * 50 + 50).map(|i| kw_stmt(rng, i)).collect();
        push(stmts.join(if c % 2 == 0 { "\n" } else { " " }));
    }
    // the breaker's shape: every 7th keyword followed by `;` (identifier / value where the rule wants one)
    push((0..300).step_by(7).map(|i| kw_stmt(rng, i)).collect::<Vec<_>>().join(" "));
    // every operator; every named token and rule
    push((0..40).map(|j| op_stmt(rng, j)).collect::<Vec<_>>().join("\n"));
    push("#!/bin/wide k001 ;\n#tag \"str\";\n{ k000; { k299 (((7))); } x $ez \"s\"; }\n#a;".to_string());
    // one statement per document for keywords around the classes' borders (short documents: inline leaves)
    for i in [0usize, 1, 99, 100, 199, 200, 250, 251, 252, 253, 254, 255, 256, 257, 258, 299] {
        push(kw_stmt(rng, i));
    }
    for _ in 0..(if thorough { 80 } else { 10 }) {
        let n = rng.range(1, 40);
        let items: Vec<String> = (0..n).map(|_| item(rng, 0)).collect();
        let sep = if rng.chance(1, 2) { "\n" } else { " " };
        push(items.join(sep));
    }
    // documents with `k254` (symbol id 256 = 0 mod 256: an 8-bit truncation turns it into `end`, which the runtime
    // asserts against) go last, so that everything else is on file before such an abort
    let (mut a, b): (Vec<_>, Vec<_>) = v.into_iter().partition(|(_, t)| !t.windows(4).any(|w| w == b"k254"));
    a.extend(b);
    a
}

static PARSE_STARTED:std::sync::atomic::AtomicU64 = std::sync::atomic::AtomicU64::new(0);
static CURRENT_SPEC: std::sync::Mutex<String> = std::sync::Mutex::new(String::new());

fn now_secs() -> u64 {
    std::time::SystemTime::now().duration_since(std::time::UNIX_EPOCH).map(|d| d.as_secs()).unwrap_or(0)
}

/// Wall-clock guard for what the operation budget cannot see (a loop that never reaches the
/// progress callback): a parse running longer than the limit aborts the explorer with the input.
fn start_watchdog(limit_secs: u64) {
    std::thread::spawn(move || loop {
        std::thread::sleep(std::time::Duration::from_secs(1));
        let t0 = PARSE_STARTED.load(std::sync::atomic::Ordering::Relaxed);
        if t0 != 0 && now_secs().saturating_sub(t0) > limit_secs {
            let spec = CURRENT_SPEC.lock().map(|s| s.clone()).unwrap_or_default();
            eprintln!("PARSE-TIMEOUT after {limit_secs}s spec={spec}");
            std::process::exit(3);
        }
    });
}

fn guard_begin(spec: &str) {
    if let Ok(mut s) = CURRENT_SPEC.lock() {
        *s = spec.to_string();
    }
    PARSE_STARTED.store(now_secs(), std::sync::atomic::Ordering::Relaxed);
}

fn guard_end() {
    PARSE_STARTED.store(0, std::sync::atomic::Ordering::Relaxed);
}

fn main() {
    limit_resources();
    start_watchdog(if tier_is_thorough() { 300 } else { 60 });
    let args: Vec<String> = std::env::args().collect();
    let out_path = args.get(1).expect("usage: c02 <ops-file> --langdump <exe> [--spec file] [lang...]").clone();
    let mut out = std::io::BufWriter::new(std::fs::File::create(&out_path).unwrap());
    let mut langdump = String::new();
    let mut spec_file: Option<String> = None;
    let mut only: Vec<String> = Vec::new();
    let mut i = 2;
    while i < args.len() {
        match args[i].as_str() {
            "--langdump" => {
                langdump = args[i + 1].clone();
                i += 2;
            }
            "--spec" => {
                spec_file = Some(args[i + 1].clone());
                i += 2;
            }
            a => {
                only.push(a.to_string());
                i += 1;
            }
        }
    }
    let thorough = tier_is_thorough();
    let mut st = Stats { cases: 0, max_calls_per_byte_x100: 0, exhausted: 0, kinds: Default::default(), max_len: 0, nodes: 0, balance_cases: 0 };
    let mut loaded: Vec<LangCtx> = Vec::new();
    let mut emitted: HashSet<String> = HashSet::new();
    let mut get_lang = |id: &str, out: &mut std::io::BufWriter<std::fs::File>, loaded: &mut Vec<LangCtx>| -> Option<usize> {
        if let Some(k) = loaded.iter().position(|l| l.id == id) {
            return Some(k);
        }
        let built = match zoo::load(id) {
            Ok(b) => b,
            Err(e) => {
                eprintln!("skip {id}: {e}");
                return None;
            }
        };
        let gg = gen::GrammarGen::new(&built.grammar_json, zoo::read_zoo_file(id, "samples.json").as_deref());
        let lc = LangCtx { id: id.to_string(), built, gg };
        if emitted.insert(id.to_string()) {
            if let Err(e) = emit_language(out, &lc, &langdump) {
                eprintln!("skip {id}: {e}");
                return None;
            }
        }
        loaded.push(lc);
        Some(loaded.len() - 1)
    };

    let langdump2 = langdump.clone();
    let run_specs = |specs: &str, tag: &str, out: &mut std::io::BufWriter<std::fs::File>, st: &mut Stats, loaded: &mut Vec<LangCtx>, get_lang: &mut dyn FnMut(&str, &mut std::io::BufWriter<std::fs::File>, &mut Vec<LangCtx>) -> Option<usize>| {
        for (i, line) in specs.lines().enumerate() {
            // `<lang> balance:<seed>:<cases>` replays the rebalancing cases of a language
            let words: Vec<&str> = line.split_whitespace().collect();
            if words.len() >= 2 && words[1].starts_with("balance:") {
                let f: Vec<&str> = words[1].split(':').collect();
                if let (Some(seed), Some(n)) = (f.get(1).and_then(|x| x.parse::<u64>().ok()), f.get(2).and_then(|x| x.parse::<usize>().ok())) {
                    if let Some(k) = get_lang(words[0], out, loaded) {
                        match emit_balance_cases(out, &loaded[k], &langdump2, seed, n) {
                            Ok(c) => st.balance_cases += c,
                            Err(e) => eprintln!("balance cases for {}: {e}", words[0]),
                        }
                    }
                }
                continue;
            }
            if let Some((lang, text, edits, ranges)) = parse_spec(line) {
                if let Some(k) = get_lang(&lang, out, loaded) {
                    let lc = &loaded[k];
                    let mut parser = Parser::new();
                    parser.set_language(&lc.built.language).unwrap();
                    emit_case(out, st, &format!("{lang}-{tag}{i}"), lc, &mut parser, &text, &edits, &ranges, tag);
                }
            }
        }
    };

    if let Some(sf) = spec_file {
        let specs = std::fs::read_to_string(&sf).unwrap();
        run_specs(&specs, "r", &mut out, &mut st, &mut loaded, &mut get_lang);
        out.flush().unwrap();
        eprintln!("c02: replayed {} cases", st.cases);
        return;
    }
    // widths of the cached fields of the real SubtreeHeapData, measured by the unity build; judged in Lean
    match std::process::Command::new(&langdump).arg("widths").output() {
        Ok(o) if o.status.success() => out.write_all(&o.stdout).unwrap(),
        Ok(o) => eprintln!("widths probe failed: {}", String::from_utf8_lossy(&o.stderr)),
        Err(e) => eprintln!("widths probe: {e}"),
    }
    if let Some(corpus) = zoo_corpus("c02") {
        run_specs(&corpus, "c", &mut out, &mut st, &mut loaded, &mut get_lang);
    }
    let mut rng = Rng::new(seed_from_env());
    let run_wide = only.is_empty() || only.iter().any(|l| l == WIDE);
    only.retain(|l| l != WIDE);
    let langs: Vec<String> = if only.is_empty() && !(run_wide && args.iter().any(|a| a == WIDE)) { zoo::list() } else { only };
    let docs_per_lang = if thorough { 120 } else { 16 };
    let mut case_no = 0usize;
    for id in langs {
        let k = match get_lang(&id, &mut out, &mut loaded) {
            Some(k) => k,
            None => continue,
        };
        let lc = &loaded[k];
        match emit_balance_cases(&mut out, lc, &langdump, seed_from_env(), if thorough { 60 } else { 10 }) {
            Ok(n) => st.balance_cases += n,
            Err(e) => eprintln!("balance cases for {id}: {e}"),
        }
        let mut parser = Parser::new();
        parser.set_language(&lc.built.language).unwrap();
        let mut base: Vec<u8> = Vec::new();
        let mut base_toks: Vec<gen::Tok> = Vec::new();
        for d in 0..docs_per_lang {
            let budget = [3, 10, 30, 80, 250][d % 5];
            let toks = lc.gg.sentence(&mut rng, budget);
            let (text, bounds) = lc.gg.render(&toks, &mut rng);
            if d == 1 || base.is_empty() {
                base = text.clone();
                base_toks = toks.clone();
            }
            case_no += 1;
            emit_case(&mut out, &mut st, &format!("{id}-{case_no}"), lc, &mut parser, &text, &[], &[], "sentence");
            // mutated sentence
            let m = gen::mutate_bytes(&mut rng, &text);
            case_no += 1;
            emit_case(&mut out, &mut st, &format!("{id}-{case_no}"), lc, &mut parser, &m, &[], &[], "mutated");
            // included ranges: 1-3 ranges inside the text, cut at token boundaries or anywhere (incl. empty, adjacent)
            {
                let n = text.len();
                let mut cuts: Vec<usize> = (0..rng.range(2, 6))
                    .map(|_| if !bounds.is_empty() && rng.chance(2, 3) { *rng.pick(&bounds) } else { rng.below(n + 1) })
                    .collect();
                cuts.sort();
                // (empty ranges and ranges beyond EOF make the lexer read synthesized NULs: C13's subject)
                let ranges: Vec<(usize, usize)> = cuts.chunks(2).filter(|c| c.len() == 2 && c[0] < c[1]).map(|c| (c[0], c[1])).collect();
                case_no += 1;
                emit_case(&mut out, &mut st, &format!("{id}-{case_no}"), lc, &mut parser, &text, &[], &ranges, "included-ranges");
            }
            // edit history + re-parse (on the sentence and on the mutated one)
            let mut alphabet: Vec<Vec<u8>> = toks.iter().take(12).map(|t| t.text.clone().into_bytes()).collect();
            alphabet.extend([b" ".to_vec(), b"\n".to_vec(), b"x".to_vec(), b"(".to_vec(), b"?".to_vec(), "é".as_bytes().to_vec(), b"\r\n".to_vec(), vec![0xff]]);
            let alpha_refs: Vec<&[u8]> = alphabet.iter().map(|v| v.as_slice()).collect();
            for src in [&text, &m] {
                let steps = rng.range(1, 4);
                let mut cur = src.clone();
                let mut edits = Vec::new();
                for _ in 0..steps {
                    let te = random_edit(&mut rng, &cur, &bounds, &alpha_refs);
                    if te.old_end > cur.len() {
                        break;
                    }
                    cur = te.apply(&cur);
                    edits.push(te);
                }
                case_no += 1;
                emit_case(&mut out, &mut st, &format!("{id}-{case_no}"), lc, &mut parser, src, &edits, &[], "edited-reparsed");
            }
        }
        for (kind, text) in special_docs(&mut rng, &base, &base_toks, thorough) {
            case_no += 1;
            emit_case(&mut out, &mut st, &format!("{id}-{case_no}"), lc, &mut parser, &text, &[], &[], &kind);
        }
        for (kind, text) in nest_docs(&id, thorough) {
            case_no += 1;
            emit_case(&mut out, &mut st, &format!("{id}-{case_no}"), lc, &mut parser, &text, &[], &[], &kind);
        }
    }
    // Round 11b: the PRIVATE grammar zoo/c02wide (> 300 symbols: token and rule ids beyond the 8-bit symbol
    // field of the inline leaf).  Runs LAST with its own Rng, so no other language's stream moves.
    if run_wide && zoo::zoo_dir(WIDE).join("grammar.json").exists() {
        if let Some(k) = get_lang(WIDE, &mut out, &mut loaded) {
            let lc = &loaded[k];
            let mut parser = Parser::new();
            parser.set_language(&lc.built.language).unwrap();
            let mut wrng = Rng::new(seed_from_env() ^ 0xc02_11b);
            for (kind, text) in wide_docs(&mut wrng, thorough) {
                case_no += 1;
                // a runtime assertion (id 256 truncated to `end`) would abort the process: name the input first
                out.flush().unwrap();
                eprintln!("c02wide: begin spec={} {} -", WIDE, hex(&text));
                emit_case(&mut out, &mut st, &format!("{WIDE}-{case_no}"), lc, &mut parser, &text, &[], &[], &kind);
                if kind == "wide-valid" && wrng.chance(1, 2) {
                    let m = gen::mutate_bytes(&mut wrng, &text);
                    case_no += 1;
                    out.flush().unwrap();
                    eprintln!("c02wide: begin spec={} {} -", WIDE, hex(&m));
                    emit_case(&mut out, &mut st, &format!("{WIDE}-{case_no}"), lc, &mut parser, &m, &[], &[], "mutated");
                }
            }
            eprintln!("c02wide: done");
        }
    }
    out.flush().unwrap();
    let kinds: Vec<String> = st.kinds.iter().map(|(k, v)| format!("{k}:{v}")).collect();
    eprintln!(
        "c02: wrote {} cases + {} rebalancing cases ({} api nodes, max doc {} bytes, max callbacks/byte x100 = {}, budget-exhausted {}) kinds {}",
        st.cases,
        st.balance_cases,
        st.nodes,
        st.max_len,
        st.max_calls_per_byte_x100,
        st.exhausted,
        kinds.join(",")
    );
}
