//! C01 explorer: incremental re-parse vs from-scratch parse on the REAL runtime.
//!
//! usage: c01 <ops-file> <langs-file> [--spec <file>] [lang...]
//!
//! A history is one line
//!   `<lang> <chunk> <texthex|-> <ranges0|-> <step>|<step>|…`
//! with `step = start,old_end,inshex|-,ranges|-` and `ranges = a:b;c:d;…` (byte offsets; `-` = whole
//! document).  `chunk` = 0 feeds the text in one piece, k>0 in k-byte pieces through the read callback.
//! Step k of a history: the current tree is edited (Tree::edit), the new text is parsed
//! incrementally with the edited tree (logger attached) and from scratch with a fresh parser.
//! Every step becomes one case `<prefix>.<k>` for the Lean driver `tsv-c01`, which holds the judge.
use std::collections::BTreeMap;
use std::io::Write;
use std::sync::{Arc, Mutex};
use tree_sitter::{LogType, Node, Parser, Point, Range, Tree};
use tsv_harness::*;

#[derive(Clone, Debug)]
struct Step {
    edit: TextEdit,
    ranges: Vec<(usize, usize)>,
}

#[derive(Clone, Debug)]
struct History {
    lang: String,
    chunk: usize,
    text: Vec<u8>,
    ranges0: Vec<(usize, usize)>,
    steps: Vec<Step>,
}

fn fmt_ranges(r: &[(usize, usize)]) -> String {
    if r.is_empty() {
        "-".into()
    } else {
        r.iter().map(|(a, b)| format!("{a}:{b}")).collect::<Vec<_>>().join(";")
    }
}

fn parse_ranges(s: &str) -> Option<Vec<(usize, usize)>> {
    if s == "-" {
        return Some(vec![]);
    }
    let mut v = Vec::new();
    for p in s.split(';') {
        let (a, b) = p.split_once(':')?;
        v.push((a.parse().ok()?, b.parse().ok()?));
    }
    Some(v)
}

impl History {
    fn spec(&self, upto: usize) -> String {
        let steps: Vec<String> = self.steps[..=upto]
            .iter()
            .map(|s| {
                format!(
                    "{},{},{},{}",
                    s.edit.start,
                    s.edit.old_end,
                    if s.edit.ins.is_empty() { "-".to_string() } else { hex(&s.edit.ins) },
                    fmt_ranges(&s.ranges)
                )
            })
            .collect();
        format!(
            "{} {} {} {} {}",
            self.lang,
            self.chunk,
            if self.text.is_empty() { "-".to_string() } else { hex(&self.text) },
            fmt_ranges(&self.ranges0),
            steps.join("|")
        )
    }
    fn parse(line: &str) -> Option<History> {
        let parts: Vec<&str> = line.split_whitespace().collect();
        let parts = if parts.len() == 6 { &parts[1..] } else { &parts[..] };
        if parts.len() != 5 {
            return None;
        }
        let mut steps = Vec::new();
        for e in parts[4].split('|') {
            let f: Vec<&str> = e.split(',').collect();
            if f.len() != 4 {
                return None;
            }
            steps.push(Step {
                edit: TextEdit { start: f[0].parse().ok()?, old_end: f[1].parse().ok()?, ins: if f[2] == "-" { vec![] } else { unhex(f[2]) } },
                ranges: parse_ranges(f[3])?,
            });
        }
        Some(History {
            lang: parts[0].to_string(),
            chunk: parts[1].parse().ok()?,
            text: if parts[2] == "-" { vec![] } else { unhex(parts[2]) },
            ranges0: parse_ranges(parts[3])?,
            steps,
        })
    }
}

fn to_ts_ranges(text: &[u8], r: &[(usize, usize)]) -> Vec<Range> {
    r.iter()
        .map(|&(a, b)| {
            let (a, b) = (a.min(text.len()), b.min(text.len()));
            Range { start_byte: a, end_byte: b, start_point: point_at(text, a), end_point: point_at(text, b) }
        })
        .collect()
}

fn ranges_valid(text: &[u8], r: &[(usize, usize)]) -> bool {
    let mut prev = 0;
    for &(a, b) in r {
        if a < prev || b < a || b > text.len() {
            return false;
        }
        prev = b;
    }
    true
}

/// Parse `text` (optionally incrementally, chunked, with included ranges, logging Parse messages).
fn do_parse(parser: &mut Parser, text: &[u8], old: Option<&Tree>, ranges: &[(usize, usize)], chunk: usize, log: Option<Arc<Mutex<Vec<String>>>>) -> Option<Tree> {
    if parser.set_included_ranges(&to_ts_ranges(text, ranges)).is_err() {
        return None;
    }
    match log {
        Some(l) => parser.set_logger(Some(Box::new(move |t, m| {
            if t == LogType::Parse {
                l.lock().unwrap().push(m.to_string());
            }
        }))),
        None => parser.set_logger(None),
    }
    let len = text.len();
    let r = parser.parse_with_options(
        &mut |i: usize, _p: Point| -> &[u8] {
            if i >= len {
                &[]
            } else if chunk == 0 {
                &text[i..]
            } else {
                &text[i..(i + chunk).min(len)]
            }
        },
        old,
        None,
    );
    parser.set_logger(None);
    r
}

/// Public-API view of a tree: one line per node reached by a cursor walk.
fn cursor_walk(tree: &Tree) -> String {
    let mut out = String::new();
    let mut c = tree.walk();
    let mut depth = 0usize;
    loop {
        let n: Node = c.node();
        let s = n.start_position();
        let e = n.end_position();
        out.push_str(&format!(
            "{} {} {} {} {} {}:{} {}:{} {}{}{}{}{} {}\n",
            depth,
            n.kind_id(),
            c.field_name().unwrap_or("-"),
            n.start_byte(),
            n.end_byte(),
            s.row,
            s.column,
            e.row,
            e.column,
            if n.is_named() { 'N' } else { 'a' },
            if n.is_extra() { 'X' } else { '-' },
            if n.is_missing() { 'M' } else { '-' },
            if n.is_error() { 'E' } else { '-' },
            if n.has_error() { 'e' } else { '-' },
            n.kind().replace('\n', "\\n")
        ));
        if c.goto_first_child() {
            depth += 1;
            continue;
        }
        loop {
            if c.goto_next_sibling() {
                break;
            }
            if !c.goto_parent() {
                return out;
            }
            depth -= 1;
        }
    }
}

struct Emit {
    current: String,
    out: std::io::BufWriter<std::fs::File>,
    langs_seen: BTreeMap<String, String>,
    cases: usize,
    /// side file `<ops>.treediff`: one line `<case> <same|zw|other>` per case (round 11): how the two
    /// public trees differ — `zw` = same shape and positions, only the KIND of zero-width leaves differs
    side: Vec<String>,
}

/// How do two cursor walks differ?  "same"; "zw" = same number of nodes, and every differing node is a
/// zero-width leaf at the same depth/position/flags whose kind alone differs; "other" otherwise.
fn walk_diff_kind(a: &str, b: &str) -> &'static str {
    if a == b {
        return "same";
    }
    let (la, lb): (Vec<&str>, Vec<&str>) = (a.lines().collect(), b.lines().collect());
    if la.len() != lb.len() {
        return "other";
    }
    for (x, y) in la.iter().zip(lb.iter()) {
        if x == y {
            continue;
        }
        let (fx, fy): (Vec<&str>, Vec<&str>) = (x.splitn(9, ' ').collect(), y.splitn(9, ' ').collect());
        if fx.len() != 9 || fy.len() != 9 {
            return "other";
        }
        // fields: depth kind_id field start end r:c r:c flags kind
        let same_place = fx[0] == fy[0] && fx[2..8] == fy[2..8];
        let zero_width = fx[3] == fx[4];
        if !(same_place && zero_width) {
            return "other";
        }
    }
    "zw"
}

impl Emit {
    fn lang(&mut self, id: &str, b: &zoo::Built) {
        if self.langs_seen.contains_key(id) {
            return;
        }
        self.langs_seen.insert(id.to_string(), format!("{} {} tree_sitter_{}", id, b.dir.join("lang.so").display(), b.name));
        writeln!(self.out, "langdef {id}").unwrap();
        write!(self.out, "{}", dump_symbols(&b.language)).unwrap();
        writeln!(self.out, "end").unwrap();
    }

    /// Run one history against the real runtime; returns number of cases written.
    fn history(&mut self, prefix: &str, h: &History, b: &zoo::Built) -> usize {
        self.lang(&h.lang, b);
        // if the runtime aborts below, the check finds the history that did it here
        if !h.steps.is_empty() {
            let _ = std::fs::write(&self.current, h.spec(h.steps.len() - 1));
        }
        let mut parser = Parser::new();
        parser.set_language(&b.language).unwrap();
        if !ranges_valid(&h.text, &h.ranges0) {
            return 0;
        }
        let mut tree = match do_parse(&mut parser, &h.text, None, &h.ranges0, h.chunk, None) {
            Some(t) => t,
            None => return 0,
        };
        let mut cur = h.text.clone();
        let mut n = 0;
        for (k, st) in h.steps.iter().enumerate() {
            let te = &st.edit;
            if te.start > te.old_end || te.old_end > cur.len() {
                break;
            }
            let new = te.apply(&cur);
            if !ranges_valid(&new, &st.ranges) {
                break;
            }
            let ie = te.input_edit(&cur, &new);
            tree.edit(&ie);
            let old_dump = dump_tree(&tree);
            let log = Arc::new(Mutex::new(Vec::new()));
            let incr = match do_parse(&mut parser, &new, Some(&tree), &st.ranges, h.chunk, Some(log.clone())) {
                Some(t) => t,
                None => break,
            };
            let mut fresh = Parser::new();
            fresh.set_language(&b.language).unwrap();
            let scratch = match do_parse(&mut fresh, &new, None, &st.ranges, h.chunk, None) {
                Some(t) => t,
                None => break,
            };
            let cid = format!("{prefix}.{k}");
            let o = &mut self.out;
            writeln!(o, "spec {cid} {}", h.spec(k)).unwrap();
            writeln!(o, "case {cid}").unwrap();
            writeln!(o, "lang {}", h.lang).unwrap();
            writeln!(o, "text2 {}", hex(&new)).unwrap();
            writeln!(o, "edit {}", fmt_edit(&ie)).unwrap();
            writeln!(o, "api {} {}", incr.root_node().has_error() as u8, scratch.root_node().has_error() as u8).unwrap();
            writeln!(o, "old\n{old_dump}").unwrap();
            writeln!(o, "incr\n{}", dump_tree(&incr)).unwrap();
            writeln!(o, "scratch\n{}", dump_tree(&scratch)).unwrap();
            let (wi, ws) = (cursor_walk(&incr), cursor_walk(&scratch));
            self.side.push(format!("{cid} {}", walk_diff_kind(&wi, &ws)));
            writeln!(o, "walk_incr\n{wi}end").unwrap();
            writeln!(o, "walk_scratch\n{ws}end").unwrap();
            writeln!(o, "log").unwrap();
            for l in log.lock().unwrap().iter() {
                // drop the noisiest lines the replay does not use
                if l.starts_with("lex_") || l.starts_with("skip ") || l.starts_with("consume ") {
                    continue;
                }
                writeln!(o, "{}", l.replace('\n', "\\n")).unwrap();
            }
            writeln!(o, "end").unwrap();
            writeln!(o, "run").unwrap();
            cur = new;
            tree = incr;
            n += 1;
        }
        self.cases += n;
        n
    }
}

fn map_pos(e: &TextEdit, x: usize) -> usize {
    let new_end = e.start + e.ins.len();
    if x <= e.start {
        x
    } else if x >= e.old_end {
        x - e.old_end + new_end
    } else {
        new_end
    }
}

fn random_ranges(rng: &mut Rng, text: &[u8], bounds: &[usize]) -> Vec<(usize, usize)> {
    let n = text.len();
    if n == 0 {
        return vec![];
    }
    let k = rng.range(1, 3);
    let mut cuts: Vec<usize> = (0..2 * k)
        .map(|_| if !bounds.is_empty() && rng.chance(2, 3) { (*rng.pick(bounds)).min(n) } else { rng.below(n + 1) })
        .collect();
    // mostly keep range boundaries off the middle of multi-byte characters (finding
    // C01-range-boundary-splits-character would otherwise mask most histories of such documents)
    for c in cuts.iter_mut() {
        while *c < n && (text[*c] & 0xC0) == 0x80 && !rng.chance(1, 8) {
            *c += 1;
        }
    }
    cuts.sort();
    let mut v = Vec::new();
    for i in 0..k {
        let (a, b) = (cuts[2 * i], cuts[2 * i + 1]);
        if rng.chance(1, 24) || a < b {
            v.push((a, b));
        }
    }
    v
}

/// Smallest single edit turning `cur` into `target` (common prefix / suffix removed).
fn diff_edit(cur: &[u8], target: &[u8]) -> TextEdit {
    let mut p = 0;
    while p < cur.len() && p < target.len() && cur[p] == target[p] {
        p += 1;
    }
    let mut s = 0;
    while s < cur.len() - p && s < target.len() - p && cur[cur.len() - 1 - s] == target[target.len() - 1 - s] {
        s += 1;
    }
    TextEdit { start: p, old_end: cur.len() - s, ins: target[p..target.len() - s].to_vec() }
}

/// (kind id, start, end) of every leaf of the public tree.
fn leaves(tree: &Tree) -> Vec<(u16, usize, usize)> {
    let mut v = Vec::new();
    let mut c = tree.walk();
    loop {
        let n = c.node();
        if n.child_count() == 0 && n.end_byte() > n.start_byte() && !n.is_error() {
            v.push((n.kind_id(), n.start_byte(), n.end_byte()));
        }
        if c.goto_first_child() {
            continue;
        }
        loop {
            if c.goto_next_sibling() {
                break;
            }
            if !c.goto_parent() {
                return v;
            }
        }
    }
}

/// Documents for the indentation language `pyish` (the generic generator knows nothing about
/// layout): nested if/else/while blocks with consistent indentation.
fn py_expr(rng: &mut Rng) -> String {
    let id = *rng.pick(&["a", "b", "foo", "x_y", "ifx", "z"]);
    match rng.below(5) {
        0 => format!("{}", rng.below(100)),
        1 => format!("{id}()"),
        2 => format!("{id}({})", rng.below(10)),
        _ => id.to_string(),
    }
}

fn py_block(rng: &mut Rng, indent: usize, budget: &mut isize, depth: usize, out: &mut String) {
    let n = 1 + rng.below(3);
    for _ in 0..n {
        out.push_str(&" ".repeat(indent));
        let kind = if *budget > 3 && depth < 5 { rng.below(5) } else { 0 };
        match kind {
            3 | 4 => {
                *budget -= 4;
                let step = *rng.pick(&[1usize, 2, 4]);
                let kw = if kind == 3 { "if" } else { "while" };
                out.push_str(&format!("{kw} {}:\n", py_expr(rng)));
                py_block(rng, indent + step, budget, depth + 1, out);
                if kind == 3 && rng.chance(1, 3) {
                    out.push_str(&" ".repeat(indent));
                    out.push_str("else:\n");
                    py_block(rng, indent + step, budget, depth + 1, out);
                }
            }
            _ => {
                *budget -= 2;
                out.push_str(&py_expr(rng));
                if rng.chance(1, 4) {
                    out.push_str(&format!(", {}", py_expr(rng)));
                }
                out.push('\n');
                if rng.chance(1, 8) {
                    out.push('\n');
                }
            }
        }
    }
}

fn gen_pyish(rng: &mut Rng, budget: usize) -> Vec<u8> {
    let mut out = String::new();
    let mut b = budget as isize;
    while b > 0 {
        py_block(rng, 0, &mut b, 0, &mut out);
    }
    out.into_bytes()
}

fn token_bounds(tree: &Tree) -> Vec<usize> {
    let mut v = Vec::new();
    let mut c = tree.walk();
    loop {
        let n = c.node();
        if n.child_count() == 0 {
            v.push(n.start_byte());
            v.push(n.end_byte());
        }
        if c.goto_first_child() {
            continue;
        }
        loop {
            if c.goto_next_sibling() {
                break;
            }
            if !c.goto_parent() {
                v.dedup();
                return v;
            }
        }
    }
}

/// Behavioural detection of the gate variant (no source anchor): the distinguishing input of
/// finding C01-column-token-range-change — fx_depends_on_column, text " x" parsed whole, then the
/// included ranges become [1,2).  A runtime WITH the repair refuses the old column-dependent token
/// (incremental == scratch == even_column); without it the old odd_column token is reused.
fn probe_gate_variant() -> u8 {
    let b = match zoo::load("fx_depends_on_column") {
        Ok(b) => b,
        Err(_) => return 0,
    };
    let text = b" x";
    let mut p = Parser::new();
    p.set_language(&b.language).unwrap();
    let old = match p.parse(text, None) {
        Some(t) => t,
        None => return 0,
    };
    let r = [Range { start_byte: 1, end_byte: 2, start_point: Point { row: 0, column: 1 }, end_point: Point { row: 0, column: 2 } }];
    if p.set_included_ranges(&r).is_err() {
        return 0;
    }
    let incr = p.parse(text, Some(&old));
    let mut q = Parser::new();
    q.set_language(&b.language).unwrap();
    q.set_included_ranges(&r).unwrap();
    let scratch = q.parse(text, None);
    match (incr, scratch) {
        (Some(a), Some(b)) if a.root_node().to_sexp() == b.root_node().to_sexp() => 1,
        _ => 0,
    }
}

/// Second behavioural probe: finding C01-eof-lookahead-range-added — lst, text "ab cd" parsed with
/// ranges [0,2), then ranges [0,2);[3,5).  A runtime with the repair re-lexes the word.
fn probe_eof_variant() -> u8 {
    let b = match zoo::load("lst") {
        Ok(b) => b,
        Err(_) => return 0,
    };
    let text = b"ab cd";
    let r = |a: usize, e: usize| Range { start_byte: a, end_byte: e, start_point: Point { row: 0, column: a }, end_point: Point { row: 0, column: e } };
    let mut p = Parser::new();
    p.set_language(&b.language).unwrap();
    if p.set_included_ranges(&[r(0, 2)]).is_err() {
        return 0;
    }
    let old = match p.parse(text, None) {
        Some(t) => t,
        None => return 0,
    };
    p.set_included_ranges(&[r(0, 2), r(3, 5)]).unwrap();
    let incr = p.parse(text, Some(&old));
    let mut q = Parser::new();
    q.set_language(&b.language).unwrap();
    q.set_included_ranges(&[r(0, 2), r(3, 5)]).unwrap();
    let scratch = q.parse(text, None);
    match (incr, scratch) {
        (Some(a), Some(b)) if a.root_node().to_sexp() == b.root_node().to_sexp() => 1,
        _ => 0,
    }
}

fn main() {
    limit_resources();
    let args: Vec<String> = std::env::args().collect();
    let out_path = args.get(1).expect("usage: c01 <ops-file> <langs-file> [--spec file] [lang...]").clone();
    let langs_path = args.get(2).expect("langs file").clone();
    let variant = probe_gate_variant();
    let mut em = Emit { current: format!("{out_path}.current"), out: std::io::BufWriter::with_capacity(1 << 20, std::fs::File::create(&out_path).unwrap()), langs_seen: BTreeMap::new(), cases: 0, side: Vec::new() };
    let eof_variant = probe_eof_variant();
    writeln!(em.out, "variant colfix {variant}").unwrap();
    writeln!(em.out, "variant eoffix {eof_variant}").unwrap();
    eprintln!("c01: gate variant probed behaviourally: colfix={variant} eoffix={eof_variant}");
    let mut built: BTreeMap<String, zoo::Built> = BTreeMap::new();
    let mut get = |id: &str, built: &mut BTreeMap<String, zoo::Built>| -> bool {
        if !built.contains_key(id) {
            match zoo::load(id) {
                Ok(b) => {
                    built.insert(id.to_string(), b);
                }
                Err(e) => {
                    eprintln!("skip {id}: {e}");
                    return false;
                }
            }
        }
        true
    };
    let finish = |em: &mut Emit, langs_path: &str| {
        em.out.flush().unwrap();
        let _ = std::fs::remove_file(&em.current);
        let mut f = std::fs::File::create(langs_path).unwrap();
        for v in em.langs_seen.values() {
            writeln!(f, "{v}").unwrap();
        }
        let mut sf = std::io::BufWriter::new(std::fs::File::create(format!("{}.treediff", em.current.trim_end_matches(".current"))).unwrap());
        for l in &em.side {
            writeln!(sf, "{l}").unwrap();
        }
    };
    if args.get(3).map(|s| s == "--spec").unwrap_or(false) {
        let specs = std::fs::read_to_string(&args[4]).unwrap();
        for (i, line) in specs.lines().enumerate() {
            if let Some(h) = History::parse(line) {
                if get(&h.lang, &mut built) {
                    em.history(&format!("{}-r{i}", h.lang), &h, &built[&h.lang]);
                }
            }
        }
        finish(&mut em, &langs_path);
        eprintln!("c01: replayed {} cases", em.cases);
        return;
    }
    let only: Vec<String> = args[3..].to_vec();
    let do_colwords = only.is_empty() || only.iter().any(|l| l == "colwords");
    let mut rng = Rng::new(seed_from_env());
    let thorough = tier_is_thorough();
    // corpus first
    if let Some(corpus) = zoo_corpus("c01") {
        for (i, line) in corpus.lines().enumerate() {
            if line.starts_with('#') {
                continue;
            }
            if let Some(h) = History::parse(line) {
                if get(&h.lang, &mut built) {
                    em.history(&format!("{}-c{i}", h.lang), &h, &built[&h.lang]);
                }
            }
        }
    }
    let corpus_cases = em.cases;
    let langs: Vec<String> = if only.is_empty() { zoo::list() } else { only.into_iter().filter(|l| l != "colwords").collect() };
    let (docs_per_lang, hist_per_doc, exh_docs, exh_max) = if thorough { (48, 14, 8, 200) } else { (16, 6, 3, 60) };
    let mut hist_no = 0usize;
    let mut exhaustive_cases = 0usize;
    for id in langs {
        if !get(&id, &mut built) {
            continue;
        }
        let b = &built[&id];
        let gg = gen::GrammarGen::new(&b.grammar_json, zoo::read_zoo_file(&id, "samples.json").as_deref());
        let mut probe = Parser::new();
        probe.set_language(&b.language).unwrap();
        let mut exh_done = 0;
        // pool of token texts by kind, harvested from error-free documents of this language
        let mut pool: BTreeMap<u16, Vec<Vec<u8>>> = BTreeMap::new();
        for _ in 0..12 {
            let toks = gg.sentence(&mut rng, 30);
            let (mut text, _) = gg.render(&toks, &mut rng);
            if id == "pyish" {
                text = gen_pyish(&mut rng, 30);
            }
            if let Some(t) = probe.parse(&text, None) {
                if !t.root_node().has_error() {
                    for (k, a, b) in leaves(&t) {
                        let e = pool.entry(k).or_default();
                        if e.len() < 24 && !e.contains(&text[a..b].to_vec()) {
                            e.push(text[a..b].to_vec());
                        }
                    }
                }
            }
        }
        for d in 0..docs_per_lang {
            let budget = [4, 10, 25, 60][d % 4];
            let toks = gg.sentence(&mut rng, budget);
            let (mut text, mut bounds) = gg.render(&toks, &mut rng);
            if id == "pyish" {
                text = gen_pyish(&mut rng, budget);
                bounds.clear();
            } else if d % 4 == 3 {
                // glue: drop single blanks between tokens that do not need them (`a /*b` instead of
                // `a / * b`), so that multi-character tokens that start like shorter ones occur
                let mut glued = Vec::with_capacity(text.len());
                for i in 0..text.len() {
                    let c = text[i];
                    if c == b' ' && i > 0 && i + 1 < text.len() {
                        let (p, n) = (text[i - 1], text[i + 1]);
                        let word = |b: u8| b.is_ascii_alphanumeric() || b == b'_' || b >= 0x80;
                        if !(word(p) && word(n)) && p != b' ' && n != b' ' && rng.chance(2, 3) {
                            continue;
                        }
                    }
                    glued.push(c);
                }
                text = glued;
                bounds.clear();
            }
            if d % 5 == 4 {
                text = gen::mutate_bytes(&mut rng, &text);
            }
            if text.len() > 4000 {
                continue;
            }
            if let Some(t) = probe.parse(&text, None) {
                bounds.extend(token_bounds(&t));
                bounds.sort();
                bounds.dedup();
            }
            let mut alphabet: Vec<Vec<u8>> = toks.iter().take(12).map(|t| t.text.clone().into_bytes()).collect();
            alphabet.extend([b" ".to_vec(), b"\n".to_vec(), b"x".to_vec(), b"(".to_vec(), "é".as_bytes().to_vec(), b"\n\n".to_vec(), b"1".to_vec(), b"\"".to_vec(), b"  ".to_vec(), b"\n  ".to_vec()]);
            let alpha_refs: Vec<&[u8]> = alphabet.iter().map(|v| v.as_slice()).collect();
            for _h in 0..hist_per_doc {
                let steps = rng.range(1, 8);
                let chunk = *rng.pick(&[0usize, 0, 0, 1, 2, 3, 5, 7]);
                let use_ranges = rng.chance(1, 4);
                let ranges0 = if use_ranges { random_ranges(&mut rng, &text, &bounds) } else { vec![] };
                let mut cur = text.clone();
                let mut cur_ranges = ranges0.clone();
                let mut hs = Vec::new();
                for _ in 0..steps {
                    let te = match rng.below(8) {
                        // replace one token by another text of the same kind (usually stays in the language)
                        0 | 1 | 2 => match probe.parse(&cur, None).map(|t| leaves(&t)) {
                            Some(ls) if !ls.is_empty() => {
                                let (k, a, b) = *rng.pick(&ls);
                                match pool.get(&k) {
                                    Some(alts) => TextEdit { start: a, old_end: b, ins: rng.pick(alts).clone() },
                                    None => random_edit(&mut rng, &cur, &bounds, &alpha_refs),
                                }
                            }
                            _ => random_edit(&mut rng, &cur, &bounds, &alpha_refs),
                        },
                        // whitespace at a token boundary
                        3 => {
                            let at = if bounds.is_empty() { 0 } else { (*rng.pick(&bounds)).min(cur.len()) };
                            if rng.chance(1, 3) && at < cur.len() && (cur[at] == b' ' || cur[at] == b'\n') {
                                TextEdit { start: at, old_end: at + 1, ins: if rng.chance(1, 2) { vec![] } else { b"  ".to_vec() } }
                            } else {
                                TextEdit { start: at, old_end: at, ins: rng.pick(&[&b" "[..], &b"\n"[..], &b"\n  "[..]]).to_vec() }
                            }
                        }
                        // delete 1-3 consecutive tokens (changes what FOLLOWS the preceding subtree)
                        6 => match probe.parse(&cur, None).map(|t| leaves(&t)) {
                            Some(ls) if !ls.is_empty() => {
                                let i = rng.below(ls.len());
                                let j = (i + rng.range(0, 2)).min(ls.len() - 1);
                                TextEdit { start: ls[i].1, old_end: ls[j].2, ins: vec![] }
                            }
                            _ => random_edit(&mut rng, &cur, &bounds, &alpha_refs),
                        },
                        // back to the original document (out of an erroneous intermediate state)
                        4 if cur != text => diff_edit(&cur, &text),
                        // towards a freshly derived sentence
                        5 => {
                            let toks2 = gg.sentence(&mut rng, budget);
                            let (mut t2, _) = gg.render(&toks2, &mut rng);
                            if id == "pyish" {
                                t2 = gen_pyish(&mut rng, budget);
                            }
                            diff_edit(&cur, &t2)
                        }
                        _ => random_edit(&mut rng, &cur, &bounds, &alpha_refs),
                    };
                    let new = te.apply(&cur);
                    let ranges = if !use_ranges {
                        vec![]
                    } else {
                        match rng.below(6) {
                            0 => random_ranges(&mut rng, &new, &bounds),
                            1 => vec![],
                            _ => {
                                if cur_ranges.is_empty() {
                                    random_ranges(&mut rng, &new, &bounds)
                                } else {
                                    cur_ranges.iter().map(|&(a, b)| (map_pos(&te, a), map_pos(&te, b))).collect()
                                }
                            }
                        }
                    };
                    cur_ranges = ranges.clone();
                    cur = new;
                    hs.push(Step { edit: te, ranges });
                }
                hist_no += 1;
                let h = History { lang: id.clone(), chunk, text: text.clone(), ranges0, steps: hs };
                em.history(&format!("{id}-{hist_no}"), &h, b);
            }
            // exhaustive single-character edits at every byte of small documents
            if exh_done < exh_docs && !text.is_empty() && text.len() <= exh_max && d % 5 != 4 {
                exh_done += 1;
                let ins_choices: Vec<Vec<u8>> = alphabet.iter().filter(|a| a.len() <= 2).cloned().collect();
                for i in 0..=text.len() {
                    let mut edits = Vec::new();
                    if i < text.len() {
                        edits.push(TextEdit { start: i, old_end: i + 1, ins: vec![] });
                        edits.push(TextEdit { start: i, old_end: i + 1, ins: rng.pick(&ins_choices).clone() });
                    }
                    edits.push(TextEdit { start: i, old_end: i, ins: rng.pick(&ins_choices).clone() });
                    for te in edits {
                        hist_no += 1;
                        let h = History { lang: id.clone(), chunk: 0, text: text.clone(), ranges0: vec![], steps: vec![Step { edit: te, ranges: vec![] }] };
                        exhaustive_cases += em.history(&format!("{id}-x{hist_no}"), &h, b);
                    }
                }
            }
        }
    }
    // Round 11: PRIVATE grammar zoo/colwords (zero-width odd/even token by lexer->get_column before every
    // `x`).  Every document over {x, blank, tab, newline} is in the language, so every scratch tree is
    // error-free.  Multi-line documents; edits that JOIN lines (delete/replace a range containing a line
    // break), SPLIT lines (insert a line break) and SHIFT columns (same-line insert/delete before later
    // `x` tokens of that line).  Runs last, so the random streams of the shared languages are unchanged.
    let mut colwords_cases = 0usize;
    if do_colwords && get("colwords", &mut built) {
        let b = &built["colwords"];
        let docs = if thorough { 400 } else { 70 };
        for d in 0..docs {
            // every 7th document is ONE line (control: neither cause of the known finding applies there, so a
            // stale column token in such a history is reported as a violation, not as the known finding)
            let one_line = d % 7 == 6;
            let nlines = if one_line { 1 } else { rng.range(2, if d % 3 == 0 { 8 } else { 4 }) };
            let mut text: Vec<u8> = Vec::new();
            for l in 0..nlines {
                let len = match rng.below(4) {
                    0 => rng.range(0, 3),
                    1 => rng.range(3, 6),
                    _ => rng.range(2, 12),
                };
                for _ in 0..len {
                    text.push(match rng.below(10) {
                        0 | 1 => b' ',
                        2 if rng.chance(1, 3) => b'\t',
                        _ => b'x',
                    });
                }
                if l + 1 < nlines || (!one_line && rng.chance(1, 3)) {
                    text.push(b'\n');
                }
            }
            for _h in 0..(if thorough { 12 } else { 8 }) {
                let steps = rng.range(1, 3);
                let chunk = *rng.pick(&[0usize, 0, 0, 1, 3]);
                let mut cur = text.clone();
                let mut hs = Vec::new();
                for _ in 0..steps {
                    let n = cur.len();
                    let nls: Vec<usize> = (0..n).filter(|&i| cur[i] == b'\n').collect();
                    let small_ins = |rng: &mut Rng| -> Vec<u8> { rng.pick(&[&b""[..], &b""[..], &b" "[..], &b"x"[..], &b"xx"[..], &b"x x"[..]]).to_vec() };
                    let te = match if one_line { 3 + rng.below(3) } else { rng.below(6) } {
                        // JOIN: a range that contains a line break is deleted or replaced by line-break-free text
                        0 | 1 if !nls.is_empty() => {
                            let nl = *rng.pick(&nls);
                            let a = nl - rng.below(4).min(nl);
                            let e = (nl + 1 + rng.below(4)).min(n);
                            TextEdit { start: a, old_end: e, ins: small_ins(&mut rng) }
                        }
                        // SPLIT: a line break is inserted (optionally replacing 1-2 bytes)
                        2 => {
                            let a = rng.below(n + 1);
                            let e = (a + rng.pick(&[0usize, 0, 0, 1, 2])).min(n);
                            TextEdit { start: a, old_end: e, ins: rng.pick(&[&b"\n"[..], &b"\n"[..], &b" \n"[..], &b"x\n"[..], &b"\nx"[..], &b"\n\n"[..]]).to_vec() }
                        }
                        // SHIFT: same-line insertion / deletion / replacement of different length, placed
                        // before a later `x` of the same line whenever the line has one
                        _ => {
                            let xs: Vec<usize> = (0..n).filter(|&i| cur[i] == b'x').collect();
                            let at = if xs.is_empty() { rng.below(n + 1) } else {
                                let x = *rng.pick(&xs);
                                let ls = cur[..x].iter().rposition(|&c| c == b'\n').map(|p| p + 1).unwrap_or(0);
                                rng.range(ls, x)
                            };
                            let mut e = (at + rng.pick(&[0usize, 0, 1, 1, 2])).min(n);
                            while e > at && cur[at..e].contains(&b'\n') {
                                e -= 1;
                            }
                            let mut ins = rng.pick(&[&b" "[..], &b"x"[..], &b"  "[..], &b"xx"[..], &b""[..], &b"\t"[..], &b"x x"[..]]).to_vec();
                            if e == at && ins.is_empty() {
                                ins = b" ".to_vec();
                            }
                            TextEdit { start: at, old_end: e, ins }
                        }
                    };
                    cur = te.apply(&cur);
                    hs.push(Step { edit: te, ranges: vec![] });
                }
                hist_no += 1;
                let h = History { lang: "colwords".into(), chunk, text: text.clone(), ranges0: vec![], steps: hs };
                colwords_cases += em.history(&format!("colwords-{hist_no}"), &h, b);
            }
        }
    }
    finish(&mut em, &langs_path);
    eprintln!("c01: wrote {} cases ({} corpus, {} exhaustive single-char, {} colwords line-join/split/column-shift) to {}", em.cases, corpus_cases, exhaustive_cases, colwords_cases, out_path);
}
