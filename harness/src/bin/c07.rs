//! C07 explorer: adversarial API histories against the REAL library under a counting, poisoning
//! allocator (ts_set_allocator): after every history every handle is dropped and the number of
//! live allocations must be back where it was.  Also drives the unity build `tsv-cunit_c07`
//! (array.h operations, ts_subtree_can_inline / ts_subtree_new_leaf) for the correspondence of the
//! Lean container models.
//!
//! usage: c07 <ops-file> <cunit-exe> [--spec <file>]
//! spec lines: `hist <kind> <lang> <seed>` | `arr <seed> <n>` | `inl <seed> <n>`
use std::io::Write;
use std::os::raw::c_void;
use std::process::{Command, Stdio};
use std::sync::atomic::{AtomicI64, AtomicU64, Ordering};
use streaming_iterator::StreamingIterator;
use tree_sitter::{InputEdit, Language, Parser, Point, Query, QueryCursor, Range, Tree};
use tsv_harness::*;

static LIVE: AtomicI64 = AtomicI64::new(0);
static ALLOCS: AtomicU64 = AtomicU64::new(0);

extern "C" {
    fn malloc(n: usize) -> *mut c_void;
    fn free(p: *mut c_void);
    fn memset(p: *mut c_void, c: i32, n: usize) -> *mut c_void;
}
/// The allocator the runtime is given (tree_sitter::set_allocator):
///  * fresh memory is filled with 0xA5 (a read of an uninitialised field is deterministic),
///  * freed memory is filled with 0xA5 before it goes back to libc (a read through a dangling pointer
///    sees poison, not the old content "by luck"),
///  * realloc ALWAYS moves (so every pointer into a grown array dangles, and reads poison),
///  * the size lives in a 16-byte header in front of the block.
const HDR: usize = 16;
/// guard bytes behind every block: a write past the end (even by one byte) is detected when the block is
/// freed / reallocated (abort) or inspected (`blk_tail_ok`)
const TAIL: usize = 8;
const TAIL_BYTE: u8 = 0xC3;
unsafe fn blk_tail_ok(p: *mut c_void) -> bool {
    let n = *((p as *mut u8).sub(HDR) as *mut usize);
    (0..TAIL).all(|i| *(p as *mut u8).add(n + i) == TAIL_BYTE)
}
unsafe fn blk_new(n: usize, fill: Option<u8>) -> *mut c_void {
    let base = malloc(n + HDR + TAIL);
    if base.is_null() {
        return base;
    }
    *(base as *mut usize) = n;
    *(base as *mut usize).add(1) = 0x7573_6564; // "used"
    let p = (base as *mut u8).add(HDR) as *mut c_void;
    if let Some(f) = fill {
        memset(p, f as i32, n);
    }
    memset((p as *mut u8).add(n) as *mut c_void, TAIL_BYTE as i32, TAIL);
    p
}
unsafe fn blk_size(p: *mut c_void) -> usize {
    let base = (p as *mut u8).sub(HDR) as *mut usize;
    if *base.add(1) != 0x7573_6564 {
        // double free / free of a foreign pointer: memory-unsafe behaviour of the runtime
        eprintln!("c07: free/realloc of a block that is not live (double free or foreign pointer)");
        std::process::abort();
    }
    if !blk_tail_ok(p) {
        eprintln!("c07: heap overrun: the guard bytes behind a block of {} bytes were overwritten", *base);
        std::process::abort();
    }
    *base
}
unsafe fn blk_drop(p: *mut c_void) {
    let n = blk_size(p);
    let base = (p as *mut u8).sub(HDR);
    *(base as *mut usize).add(1) = 0x6672_6565; // "free"
    memset(p, 0xA5, n);
    free(base as *mut c_void);
}
unsafe extern "C" fn c_malloc(n: usize) -> *mut c_void {
    LIVE.fetch_add(1, Ordering::SeqCst);
    ALLOCS.fetch_add(1, Ordering::Relaxed);
    blk_new(n, Some(0xA5))
}
unsafe extern "C" fn c_calloc(n: usize, s: usize) -> *mut c_void {
    LIVE.fetch_add(1, Ordering::SeqCst);
    ALLOCS.fetch_add(1, Ordering::Relaxed);
    blk_new(n.saturating_mul(s), Some(0))
}
unsafe extern "C" fn c_realloc(p: *mut c_void, n: usize) -> *mut c_void {
    if p.is_null() {
        return c_malloc(n);
    }
    let old = blk_size(p);
    let q = blk_new(n, Some(0xA5));
    if q.is_null() {
        return q;
    }
    std::ptr::copy_nonoverlapping(p as *const u8, q as *mut u8, old.min(n));
    blk_drop(p);
    q
}
unsafe extern "C" fn c_free(p: *mut c_void) {
    if !p.is_null() {
        LIVE.fetch_sub(1, Ordering::SeqCst);
        blk_drop(p);
    }
}

fn guarded_parse(parser: &mut Parser, text: &[u8], old: Option<&Tree>, cancel_after: Option<u32>) -> Option<Tree> {
    let mut calls = 0u32;
    let limit = cancel_after.unwrap_or(400_000);
    let mut cb = |_: &tree_sitter::ParseState| {
        calls += 1;
        if calls > limit {
            std::ops::ControlFlow::Break(())
        } else {
            std::ops::ControlFlow::Continue(())
        }
    };
    let opts = tree_sitter::ParseOptions::new().progress_callback(&mut cb);
    let len = text.len();
    parser.parse_with_options(&mut |i, _| if i < len { &text[i..] } else { &[] }, old, Some(opts))
}

fn walk(tree: &Tree, rng: &mut Rng) -> usize {
    let mut c = tree.walk();
    let mut n = 0usize;
    loop {
        n += 1;
        if n > 50_000 {
            break;
        }
        if c.goto_first_child() {
            continue;
        }
        let mut up = false;
        loop {
            if c.goto_next_sibling() {
                break;
            }
            if !c.goto_parent() {
                up = true;
                break;
            }
        }
        if up {
            break;
        }
    }
    // extreme arguments
    let _ = c.goto_first_child_for_byte(rng.next() as usize & 0xffff_ffff);
    let _ = c.goto_first_child_for_point(Point { row: usize::MAX >> 40, column: 3 });
    c.reset(tree.root_node());
    let _ = c.goto_last_child();
    let _ = c.goto_previous_sibling();
    let _ = c.goto_descendant(rng.below(1 << 20));
    n
}

fn poke_nodes(tree: &Tree, rng: &mut Rng, len: usize) {
    let root = tree.root_node();
    for _ in 0..8 {
        let a = rng.below(len + 16);
        let b = if rng.chance(1, 4) { u32::MAX as usize } else { a + rng.below(32) };
        if let Some(d) = root.descendant_for_byte_range(a, b) {
            let _ = d.child(rng.next() as u32);
            let _ = d.named_child(rng.below(5) as u32);
            let _ = d.parent();
            let _ = d.next_sibling();
            let _ = d.prev_named_sibling();
            let _ = d.child_by_field_id(rng.below(70000) as u16);
            let _ = d.descendant_count();
            let _ = root.child_with_descendant(d);
            if d.descendant_count() < 2000 {
                let _ = d.to_sexp();
            }
        }
        let _ = root.named_descendant_for_point_range(Point { row: rng.below(40), column: rng.below(300) }, Point { row: usize::MAX >> 40, column: 0 });
    }
}

fn random_bytes(rng: &mut Rng, n: usize) -> Vec<u8> {
    (0..n).map(|_| if rng.chance(1, 3) { rng.next() as u8 } else { *rng.pick(b"()[]{}ab1 \n+*-,:\"x=;") }).collect()
}

fn random_query_text(rng: &mut Rng, lang: &Language) -> Vec<u8> {
    if rng.chance(1, 3) {
        let n = rng.below(60);
        return random_bytes(rng, n);
    }
    let mut parts: Vec<String> = vec!["(", ")", "_", "@a", " ", "\"a\"", "[", "]", "*", "+", "?", ".", "(#eq? @a \"x\")", "!", ":", "ERROR", "MISSING", "(_)", "\n", ";c\n", "#", "@", "\\"].iter().map(|s| s.to_string()).collect();
    for i in 0..lang.node_kind_count().min(12) {
        if let Some(k) = lang.node_kind_for_id(i as u16) {
            parts.push(format!("({k})"));
            parts.push(k.to_string());
        }
    }
    let n = rng.below(14);
    let mut s = String::new();
    for _ in 0..n {
        s.push_str(rng.pick(&parts[..]).as_str());
    }
    s.into_bytes()
}

fn run_query(lang: &Language, qtext: &[u8], tree: &Tree, text: &[u8], limit: u32) -> (bool, usize) {
    let Ok(qs) = std::str::from_utf8(qtext) else { return (false, 0) };
    match Query::new(lang, qs) {
        Ok(q) => {
            let mut qc = QueryCursor::new();
            qc.set_match_limit(limit);
            let mut n = 0;
            let mut it = qc.matches(&q, tree.root_node(), text);
            while let Some(_m) = it.next() {
                n += 1;
                if n > 5000 {
                    break;
                }
            }
            let mut qc2 = QueryCursor::new();
            qc2.set_match_limit(limit);
            qc2.set_byte_range(0..text.len() / 2);
            let mut it = qc2.captures(&q, tree.root_node(), text);
            let mut m = 0;
            while let Some(_c) = it.next() {
                m += 1;
                if m > 5000 {
                    break;
                }
            }
            (true, n)
        }
        Err(_) => (false, 0),
    }
}

fn extreme_edit(rng: &mut Rng, len: usize) -> InputEdit {
    let big = u32::MAX as usize;
    let (s, oe, ne) = match rng.below(6) {
        0 => (big - 10, big - 3, big - 7),
        1 => (len + rng.below(50), len + 60 + rng.below(50), len + rng.below(200)),
        2 => (0, big, 0),
        3 => (0, 0, big),
        4 => (rng.below(len + 1), big, rng.below(len + 1)),
        _ => {
            let s = rng.below(len + 1);
            (s, s + rng.below(10), s + rng.below(10))
        }
    };
    let ne = ne.max(s).min(big);
    InputEdit {
        start_byte: s,
        old_end_byte: oe.max(s),
        new_end_byte: ne,
        start_position: Point { row: rng.below(3), column: s },
        old_end_position: Point { row: rng.below(3) + 3, column: oe },
        new_end_position: Point { row: rng.below(3) + 3, column: ne },
    }
}

const KINDS: [&str; 7] = ["bytes", "query", "offsets", "huge", "cancel", "mix", "errors"];

/// Text for the ambiguous grammar `c07glr` (and similar): statements `id id id <digit>` whose reading
/// is only decided by the terminator (8 live stack versions), bracketed groups with three readings,
/// and a good share of wrong / missing terminators and unbalanced brackets, so that error recovery
/// starts while more than MAX_VERSION_COUNT versions are alive, versions get paused, merged and popped.
fn glr_text(rng: &mut Rng, stmts: usize) -> Vec<u8> {
    // Small tokens are inline subtrees (no allocation).  Two of the five identifier shapes must live
    // on the heap — a 300-byte identifier, and an identifier after 20 blank lines of padding — and
    // so must many terminators (18 blank lines before them), so that a reference dropped on a
    // recovery path is visible to the allocator.
    let long_id = "k".repeat(300);
    let padded_id = format!("{}pad", "\n".repeat(20));
    let mut out: Vec<String> = Vec::new();
    let mut depth = 0usize;
    for _ in 0..stmts {
        let k = rng.below(100);
        if k < 12 {
            out.push("(".into());
            depth += 1;
        } else if k < 24 && depth > 0 {
            out.push(format!(") {}", ["!", "?", ".", "", "9"][rng.below(5)]));
            depth -= 1;
        } else if k < 40 {
            // `@ x y :` / `$ x y :`: two readings with different dynamic precedence reduce to the
            // same symbol over the same span (stack_node_add_link replaces the weaker link)
            let ids = [&"x"[..], "ab", &long_id, &padded_id];
            out.push(format!(
                "{} {} {} {}",
                ["@", "$"][rng.below(2)],
                ids[rng.below(4)],
                ids[rng.below(4)],
                [":", ":", ":", "", "9"][rng.below(5)]
            ));
        } else {
            let mut st = String::new();
            for _ in 0..rng.range(1, 6) {
                st.push_str([&"x"[..], "ab", "q", &long_id, &padded_id][rng.below(5)]);
                st.push(' ');
            }
            if rng.chance(3, 10) {
                st.push_str(&"\n".repeat(18));
            }
            if rng.chance(6, 10) {
                st.push_str(["1", "2", "3", "4", "5", "6", "7", "8"][rng.below(8)]);
            } else {
                st.push_str(["9", "#", "", "1 2", ")", "("][rng.below(6)]);
            }
            out.push(st);
        }
    }
    out.join(" ").into_bytes()
}

/// One adversarial history; every handle is dropped before returning. Returns an optional dump.
/// Near-valid queries: valid patterns over the language's own node kinds and fields, mutated into
/// every class the query compiler rejects (unknown node / field / capture, a terminal given
/// children, impossible child / field / alternation branch, anchors at group edges, bad
/// predicates, damaged syntax) plus the valid ones.  The allocator must balance after EVERY
/// `Query::new`, failure or success (a successful query is also executed once).
/// Query-cursor workloads with MANY simultaneously in-progress states that hold captures, so that the
/// capture-list pool grows past 8/16/32 lists while states are being split (ts_query_cursor__copy_state):
/// sibling patterns `(P (K) @a (K) @b [(K) @c])`, quantifiers, alternations and wildcards over a node
/// with 10..40 children.  Under the poisoning, always-moving allocator a read through a pointer into the
/// old pool array yields poison (crash) or garbage (lost matches, wrong capture counts): reported as
/// `memerr=`.  Expected counts are only asserted for the plain sibling patterns on error-free trees.
fn query_cursor_load(b: &zoo::Built, lang_id: &str, seed: u64, info: &mut String) {
    let lang = &b.language;
    let mut rng = Rng::new(seed);
    let gg = gen::GrammarGen::new(&b.grammar_json, zoo::read_zoo_file(lang_id, "samples.json").as_deref());
    let mut parser = Parser::new();
    parser.set_language(lang).unwrap();
    let mut memerr: Option<String> = None;
    for round in 0..6 {
        let budget = [30, 60, 120, 200][rng.below(4)];
        let toks = gg.sentence(&mut rng, budget);
        let text = gg.render(&toks, &mut rng).0;
        let Some(tree) = guarded_parse(&mut parser, &text, None, None) else { continue };
        // the node with the most named children of one kind
        let mut best: Option<(String, String, usize)> = None;
        let mut second_kind: Option<String> = None;
        let mut stack = vec![tree.root_node()];
        let mut per_parent: Vec<(String, std::collections::BTreeMap<String, usize>)> = Vec::new();
        while let Some(n) = stack.pop() {
            let mut c = n.walk();
            let mut m: std::collections::BTreeMap<String, usize> = std::collections::BTreeMap::new();
            for ch in n.children(&mut c) {
                if ch.is_named() && !ch.is_error() && !ch.is_missing() {
                    *m.entry(ch.kind().to_string()).or_insert(0) += 1;
                }
                stack.push(ch);
            }
            for (k, &cnt) in &m {
                if best.as_ref().map(|b| cnt > b.2).unwrap_or(true) && n.is_named() && !n.is_error() {
                    best = Some((n.kind().to_string(), k.clone(), cnt));
                    second_kind = m.keys().find(|x| *x != k).cloned();
                }
            }
            if n.is_named() {
                per_parent.push((n.kind().to_string(), m));
            }
        }
        let Some((p, k, cnt)) = best else { continue };
        if cnt < 2 || !p.chars().all(|c| c.is_ascii_alphanumeric() || c == '_') || !k.chars().all(|c| c.is_ascii_alphanumeric() || c == '_') {
            continue;
        }
        let k2 = second_kind.filter(|x| x.chars().all(|c| c.is_ascii_alphanumeric() || c == '_')).unwrap_or_else(|| k.clone());
        let clean = !tree.root_node().has_error();
        let pairs: usize = per_parent.iter().filter(|(pk, _)| *pk == p).map(|(_, m)| { let n = *m.get(&k).unwrap_or(&0); n * n.saturating_sub(1) / 2 }).sum();
        let triples: usize = per_parent.iter().filter(|(pk, _)| *pk == p).map(|(_, m)| { let n = *m.get(&k).unwrap_or(&0); if n < 3 { 0 } else { n * (n - 1) * (n - 2) / 6 } }).sum();
        let mut pats: Vec<(String, Option<(usize, usize)>)> = vec![
            (format!("({p} ({k}) @a ({k}) @b)"), if clean { Some((pairs, 2)) } else { None }),
            (format!("({p} ({k})+ @a)"), None),
            (format!("({p} ({k})* @a ({k}) @b)"), None),
            (format!("({p} [({k}) ({k2})] @a ({k}) @b)"), None),
            ("(_ (_) @a (_) @b)".to_string(), None),
            (format!("(({k}) @a ({k}) @b)"), None),
            (format!("({p} ({k}) @a ({k2})? @c ({k}) @b)"), None),
        ];
        if cnt <= 24 {
            pats.push((format!("({p} ({k}) @a ({k}) @b ({k}) @c)"), if clean { Some((triples, 3)) } else { None }));
        }
        // more captures on ONE node than a query step can hold (MAX_STEP_CAPTURE_COUNT = 3): the surplus is
        // dropped, the pattern still matches every (P, K-child) pair and every match carries 3 captures
        let singles: usize = per_parent.iter().filter(|(pk, _)| *pk == p).map(|(_, m)| *m.get(&k).unwrap_or(&0)).sum();
        pats.push((format!("({p} ({k}) @a @b @c @d)"), if clean { Some((singles, 3)) } else { None }));
        pats.push((format!("({p} ({k}) @a @b @c @d @e ({k}) @f)"), if clean { Some((pairs, 4)) } else { None }));
        // ONE cursor reused across executions, the match limit lowered after an execution that needed many
        // capture lists (capture_list_pool_reset must free the lists beyond the new limit), then raised again
        {
            let mut qc = QueryCursor::new();
            let srcs = [format!("({p} ({k}) @a ({k}) @b)"), format!("({p} ({k})* @a ({k}) @b)"), "(_ (_) @a (_) @b)".to_string()];
            let limits = [u32::MAX, [1u32, 2, 5, 8][rng.below(4)], u32::MAX, [3u32, 7, 9, 16][rng.below(4)], 1];
            for (li, lim) in limits.iter().enumerate() {
                let Ok(q) = Query::new(lang, &srcs[li % srcs.len()]) else { continue };
                qc.set_match_limit(*lim);
                let mut it = qc.matches(&q, tree.root_node(), text.as_slice());
                let mut got = 0usize;
                while let Some(_m) = it.next() {
                    got += 1;
                    if got > 200_000 {
                        break;
                    }
                }
            }
        }
        for (src, expect) in pats {
            let Ok(q) = Query::new(lang, &src) else { continue };
            for mode in 0..3 {
                let mut qc = QueryCursor::new();
                if mode == 2 {
                    qc.set_match_limit([8u32, 16, 32, 64][rng.below(4)]);
                }
                let mut got = 0usize;
                let mut badcaps = 0usize;
                if mode == 1 {
                    let mut it = qc.captures(&q, tree.root_node(), text.as_slice());
                    while let Some((m, _)) = it.next() {
                        got += 1;
                        for c in m.captures {
                            let r = c.node.byte_range();
                            if r.end > text.len() || r.start > r.end || c.node.kind_id() as usize >= lang.node_kind_count() {
                                badcaps += 1;
                            }
                        }
                        if got > 200_000 {
                            break;
                        }
                    }
                } else {
                    let mut it = qc.matches(&q, tree.root_node(), text.as_slice());
                    while let Some(m) = it.next() {
                        got += 1;
                        if let Some((_, ncap)) = expect {
                            if m.captures.len() != ncap {
                                badcaps += 1;
                            }
                        }
                        for c in m.captures {
                            let r = c.node.byte_range();
                            if r.end > text.len() || r.start > r.end || c.node.kind_id() as usize >= lang.node_kind_count() {
                                badcaps += 1;
                            }
                        }
                        if got > 200_000 {
                            break;
                        }
                    }
                    if mode == 0 && got <= 200_000 {
                        if let Some((want, _)) = expect {
                            if got != want && memerr.is_none() {
                                memerr = Some(format!("query-cursor-lost-matches:round:{round}:got:{got}:want:{want}:pattern:{}", src.replace(' ', "_")));
                            }
                        }
                    }
                }
                if badcaps > 0 && memerr.is_none() {
                    memerr = Some(format!("query-cursor-garbage-captures:round:{round}:bad:{badcaps}:mode:{mode}:pattern:{}", src.replace(' ', "_")));
                }
            }
        }
    }
    if let Some(m) = memerr {
        info.push_str(&format!(" memerr={m}"));
    }
}

/// Does the query contain a parenthesised group whose direct children are all predicates `(#…)` (so that the
/// group produces no step) and that is followed by a quantifier / capture or preceded by `field:`?  Such a
/// query makes `ts_query__parse_pattern` index `steps[steps.size]` (finding C07-query-suffix-on-empty-pattern:
/// assertion in this build, out-of-bounds access without assertions).  These queries are compiled in a CHILD
/// process so that the finding is reported as such and the explorer goes on.
fn empty_group_with_suffix(q: &str) -> bool {
    let c: Vec<char> = q.chars().collect();
    // positions of matching parentheses, string literals skipped
    let mut stack: Vec<usize> = Vec::new();
    let mut pairs: Vec<(usize, usize)> = Vec::new();
    let mut i = 0;
    while i < c.len() {
        match c[i] {
            '"' => {
                i += 1;
                while i < c.len() && c[i] != '"' {
                    if c[i] == '\\' {
                        i += 1;
                    }
                    i += 1;
                }
            }
            '(' => stack.push(i),
            ')' => {
                if let Some(o) = stack.pop() {
                    pairs.push((o, i));
                }
            }
            _ => {}
        }
        i += 1;
    }
    for &(o, e) in &pairs {
        // direct children: top-level groups inside (o, e)
        let kids: Vec<&(usize, usize)> = pairs.iter().filter(|(a, b)| *a > o && *b < e && !pairs.iter().any(|(x, y)| *x > o && *y < e && *x < *a && *y > *b)).collect();
        if kids.is_empty() {
            continue;
        }
        let all_pred = kids.iter().all(|(a, _)| c.get(a + 1) == Some(&'#'));
        // nothing but predicates and blanks directly inside
        let mut only = all_pred;
        let mut j = o + 1;
        while only && j < e {
            if let Some((_, b)) = kids.iter().find(|(a, _)| *a == j) {
                j = b + 1;
            } else {
                if !c[j].is_whitespace() {
                    only = false;
                }
                j += 1;
            }
        }
        if !only {
            continue;
        }
        let after = c[e + 1..].iter().find(|ch| !ch.is_whitespace());
        let before = c[..o].iter().rev().find(|ch| !ch.is_whitespace());
        if matches!(after, Some('+') | Some('*') | Some('?') | Some('@')) || before == Some(&':') {
            return true;
        }
    }
    false
}

/// `Query::new(lang, q)` in a child process: "ok", "err:<kind>" or "crash:<status>".
fn probe_query(lang_id: &str, q: &str) -> String {
    let o = Command::new(std::env::current_exe().unwrap()).arg("--query-probe").arg(lang_id).arg(hex(q.as_bytes())).stderr(Stdio::piped()).stdout(Stdio::piped()).output();
    match o {
        Ok(o) if o.status.success() => String::from_utf8_lossy(&o.stdout).trim().to_string(),
        Ok(o) => {
            let err = String::from_utf8_lossy(&o.stderr);
            let site = err.lines().find(|l| l.contains("Assertion")).map(|l| l.split(':').nth(3).unwrap_or("?").trim().to_string()).unwrap_or_else(|| "no-assertion-message".into());
            format!("crash:{}:{}", o.status, site).replace(' ', "_")
        }
        Err(e) => format!("spawn-failed:{e}").replace(' ', "_"),
    }
}

const DELIMS: [char; 4] = ['(', ')', '[', ']'];

/// All single-delimiter mutations of a query at delimiter position `k` (k-th of `( ) [ ]`): the three
/// replacements, the deletion, and the four insertions in front of it.
fn delimiter_mutations_at(q: &str, k: usize) -> Vec<String> {
    let chars: Vec<char> = q.chars().collect();
    let Some((pos, _)) = chars.iter().enumerate().filter(|(_, c)| DELIMS.contains(c)).nth(k) else { return Vec::new() };
    let mut out = Vec::new();
    for d in DELIMS {
        if d != chars[pos] {
            let mut c = chars.clone();
            c[pos] = d;
            out.push(c.iter().collect());
        }
        let mut c = chars.clone();
        c.insert(pos, d);
        out.push(c.iter().collect());
    }
    let mut c = chars.clone();
    c.remove(pos);
    out.push(c.iter().collect());
    out
}

fn mutate_delimiter(rng: &mut Rng, q: &str) -> String {
    let n = q.chars().filter(|c| DELIMS.contains(c)).count();
    if n == 0 {
        return q.to_string();
    }
    let ms = delimiter_mutations_at(q, rng.below(n));
    if ms.is_empty() { q.to_string() } else { rng.pick(&ms).clone() }
}

fn near_queries(b: &zoo::Built, lang_id: &str, seed: u64, info: &mut String) {
    let mut qcrash: Option<String> = None;
    let lang = &b.language;
    let mut rng = Rng::new(seed);
    let mut named: Vec<String> = Vec::new();
    let mut anon: Vec<String> = Vec::new();
    for i in 0..lang.node_kind_count() {
        if let Some(k) = lang.node_kind_for_id(i as u16) {
            if !lang.node_kind_is_visible(i as u16) || k.is_empty() || k == "ERROR" {
                continue;
            }
            if lang.node_kind_is_named(i as u16) {
                if k.chars().all(|c| c.is_ascii_alphanumeric() || c == '_') && !named.contains(&k.to_string()) {
                    named.push(k.to_string());
                }
            } else if !k.contains('"') && !k.contains('\\') && !anon.contains(&k.to_string()) {
                anon.push(k.to_string());
            }
        }
    }
    if named.is_empty() {
        return;
    }
    let mut fields: Vec<String> = (1..=lang.field_count()).filter_map(|i| lang.field_name_for_id(i as u16).map(|s| s.to_string())).collect();
    fields.push("zz_no_such_field".into());
    let text = {
        let gg = gen::GrammarGen::new(&b.grammar_json, None);
        let toks = gg.sentence(&mut rng, 30);
        gg.render(&toks, &mut rng).0
    };
    let mut parser = Parser::new();
    parser.set_language(lang).unwrap();
    let tree = guarded_parse(&mut parser, &text, None, None);
    let mut counts: std::collections::BTreeMap<String, usize> = std::collections::BTreeMap::new();
    let mut first_leak: Option<(String, i64)> = None;
    let n = 70;
    for _ in 0..n {
        let k = rng.pick(&named).clone();
        let c = rng.pick(&named).clone();
        let c2 = rng.pick(&named).clone();
        let f = rng.pick(&fields).clone();
        let a = if anon.is_empty() { "+".to_string() } else { rng.pick(&anon).clone() };
        let mut q = match rng.below(30) {
            0 => format!("({k})"),
            1 | 2 | 3 => format!("({k} ({c}))"),
            4 => format!("({k} ({c} ({c2})))"),
            5 | 6 => format!("({k} {f}: ({c}))"),
            7 => format!("({k} [({c}) ({c2})])"),
            8 => format!("[({k}) ({c} ({c2}))] @x"),
            9 => format!("({k} . ({c}))"),
            10 => format!("({k} ({c}) .)"),
            11 => format!("({k} ({c}) . ({c2}))"),
            12 => format!("(({k}) . )"),
            13 => format!("(. ({k}))"),
            14 => format!("(({k}) @x (#eq? @x \"s\"))"),
            15 => format!("(({k}) @x (#eq? @nope \"s\"))"),
            16 => format!("(({k}) @x (#match? @x \"(\"))"),
            17 => format!("(({k}) @x (#eq?))"),
            18 => format!("(({k}) (#set! a) (#is-not? local))"),
            19 => format!("({k} !{f})"),
            20 => "(zz_no_such_node)".to_string(),
            21 => format!("({k} (zz_no_such_node))"),
            22 => format!("(\"{a}\" ({c}))"),
            23 => format!("({k} \"{a}\" ({c})+ ({c2})?)"),
            24 => format!("(_ ({c})) (({k} (_)* @y))"),
            25 => format!("(ERROR ({c})) (MISSING {k}) ({k} (MISSING {c}))"),
            26 => format!("({k}/{c})"),
            27 => format!("({k} ({c})) ({c} ({k})) ({c2} ({c2}))"),
            28 => format!("({k} ({c}) @a ({c2}) @b (#not-eq? @a @b))"),
            _ => format!("(({k}) @x (#any-of? @x \"a\" \"b\"))"),
        };
        // decoration: a capture and/or a quantifier after any closing parenthesis / bracket (every
        // error path of the pattern parser is then also taken with capture-quantifier arrays alive)
        if rng.chance(1, 2) {
            let mut d = String::new();
            let mut ncap = 0;
            let mut prev = ' ';
            for ch in q.chars() {
                d.push(ch);
                if ch == ')' || ch == ']' {
                    if rng.chance(1, 6) {
                        // `+` only after a leaf pattern `(kind)`: ts_query_new does not terminate on a `+` group
                        // whose content can match nothing, e.g. `((kind)*)+` (observation in notes/C07.md)
                        let leaf = prev.is_ascii_alphanumeric() || prev == '_';
                        d.push(*rng.pick(if leaf { &['+', '?', '*'][..] } else { &['?', '*'][..] }));
                    }
                    if rng.chance(1, 3) {
                        ncap += 1;
                        d.push_str(&format!(" @c{ncap}"));
                    }
                }
                prev = ch;
            }
            q = d;
        }
        // delimiter mutations at a random position: replace one delimiter by another one, delete it, or
        // insert a stray one (mismatched closers after captured / quantified children included)
        if rng.chance(1, 3) {
            q = mutate_delimiter(&mut rng, &q);
        }
        // damaged syntax
        match rng.below(14) {
            0 if q.len() > 2 => {
                q.pop();
            }
            1 => q.push(']'),
            2 => q.insert(0, '('),
            3 => q = q.replace(':', " :: "),
            _ => {}
        }
        if let Ok(one) = std::env::var("C07_ONE_QUERY") {
            q = one; // test knob: compile and run exactly this query
        }
        if std::env::var("C07_TRACE_Q").is_ok() {
            eprintln!("query: {q}");
        }
        if empty_group_with_suffix(&q) {
            let r = probe_query(lang_id, &q);
            *counts.entry(format!("probed-{}", r.split(':').next().unwrap_or("?"))).or_insert(0) += 1;
            if r.starts_with("crash") && qcrash.is_none() {
                qcrash = Some(format!("{r}:{}", hex(q.as_bytes())));
            }
            continue;
        }
        let before = LIVE.load(Ordering::SeqCst);
        let res = Query::new(lang, &q);
        if std::env::var("C07_TRACE_Q").is_ok() {
            eprintln!("compiled: {}", res.is_ok());
        }
        let key = match &res {
            Ok(query) => {
                if let Some(t) = &tree {
                    let mut qc = QueryCursor::new();
                    qc.set_match_limit(1 + rng.below(4) as u32);
                    let mut it = qc.matches(query, t.root_node(), text.as_slice());
                    let mut m = 0;
                    while let Some(_x) = it.next() {
                        m += 1;
                        if m > 2000 {
                            break;
                        }
                    }
                }
                "ok".to_string()
            }
            Err(e) => format!("{:?}", e.kind),
        };
        drop(res);
        let delta = LIVE.load(Ordering::SeqCst) - before;
        *counts.entry(key.clone()).or_insert(0) += 1;
        if delta != 0 && first_leak.is_none() {
            first_leak = Some((format!("{key}:{}", hex(q.as_bytes())), delta));
        }
    }
    // systematic part: two decorated near-valid queries, EVERY delimiter position x every operator
    let mut systematic = 0usize;
    for _ in 0..2 {
        let k = rng.pick(&named).clone();
        let c = rng.pick(&named).clone();
        let c2 = rng.pick(&named).clone();
        let f = rng.pick(&fields).clone();
        let base = match rng.below(4) {
            0 => format!("[({k} {f}: ({c}) @a ({c2}) @b) ({c})] @p"),
            1 => format!("({k} ({c}) @a [({c2}) @b ({c})]+ @l) @p"),
            2 => format!("(({k} ({c})* @a) @x (#eq? @x \"s\"))"),
            _ => format!("[({k} ({c}) @a) ({c2} {f}: ({c}) @b)]"),
        };
        let nd = base.chars().filter(|ch| DELIMS.contains(ch)).count();
        for pos in 0..nd {
            for m in delimiter_mutations_at(&base, pos) {
                if empty_group_with_suffix(&m) {
                    let r = probe_query(lang_id, &m);
                    systematic += 1;
                    *counts.entry(format!("probed-{}", r.split(':').next().unwrap_or("?"))).or_insert(0) += 1;
                    if r.starts_with("crash") && qcrash.is_none() {
                        qcrash = Some(format!("{r}:{}", hex(m.as_bytes())));
                    }
                    continue;
                }
                let before = LIVE.load(Ordering::SeqCst);
                let res = Query::new(lang, &m);
                let key = match &res { Ok(_) => "ok".to_string(), Err(e) => format!("{:?}", e.kind) };
                drop(res);
                systematic += 1;
                let delta = LIVE.load(Ordering::SeqCst) - before;
                *counts.entry(key.clone()).or_insert(0) += 1;
                if delta != 0 && first_leak.is_none() {
                    first_leak = Some((format!("{key}:{}", hex(m.as_bytes())), delta));
                }
            }
        }
    }
    let n = n + systematic;
    *info = format!(
        " queries={n} qkinds={}{}",
        counts.iter().map(|(k, v)| format!("{k}:{v}")).collect::<Vec<_>>().join(","),
        first_leak.map(|(q, d)| format!(" leak={d}:{q}")).unwrap_or_default()
    );
    if let Some(c) = qcrash {
        info.push_str(&format!(" qcrash={c}"));
    }
}

/// Number of live external-scanner instances of a zoo scanner that exports `tree_sitter_<name>_scanner_live`
/// (zoo/c08scan does): create/destroy pairing, which the library's allocator cannot see.
fn scanner_live(b: &zoo::Built) -> Option<i32> {
    unsafe {
        let lib = libloading::Library::new(b.dir.join("lang.so")).ok()?;
        let sym = format!("tree_sitter_{}_scanner_live", b.name);
        let v = {
            let f: libloading::Symbol<unsafe extern "C" fn() -> i32> = lib.get(sym.as_bytes()).ok()?;
            f()
        };
        std::mem::forget(lib);
        Some(v)
    }
}

/// Every parser-level transition after every kind of pending state: the parse finished, or was
/// cancelled by the progress callback at its first / an early / a middle / a late / its last callback;
/// then set_language (same, other), reset, set_included_ranges, set_logger, a parse of another text,
/// a resumed parse, or nothing — and the parser is dropped.  After each combination the allocator must
/// balance and (for scanners that count) no scanner instance may be left.
fn transitions(b: &zoo::Built, lang_id: &str, other: &Language, seed: u64, info: &mut String) {
    let mut rng = Rng::new(seed);
    let gg = gen::GrammarGen::new(&b.grammar_json, zoo::read_zoo_file(lang_id, "samples.json").as_deref());
    let mut text = Vec::new();
    for _ in 0..8 {
        let toks = gg.sentence(&mut rng, 200);
        text.extend_from_slice(&gg.render(&toks, &mut rng).0);
        text.push(b'\n');
    }
    if text.len() < 64 {
        text.extend_from_slice(b"#a word (#b x) ");
    }
    // long enough for many progress callbacks (one per 100 parser operations)
    let unit = text.clone();
    while text.len() < 40_000 {
        text.extend_from_slice(&unit);
    }
    text.truncate(40_000);
    let other_text = b"1 + 2 * (3 - 4)".to_vec();
    // how many progress callbacks does a full parse make?
    let total = {
        let mut p = Parser::new();
        p.set_language(&b.language).unwrap();
        let mut n = 0u32;
        let mut cb = |_: &tree_sitter::ParseState| {
            n += 1;
            std::ops::ControlFlow::Continue(())
        };
        let opts = tree_sitter::ParseOptions::new().progress_callback(&mut cb);
        let len = text.len();
        let _ = p.parse_with_options(&mut |i, _| if i < len { &text[i..] } else { &[] }, None, Some(opts));
        n
    };
    let mut pendings: Vec<Option<u32>> = vec![None, Some(0), Some(1), Some(total / 4), Some(total / 2), Some(total.saturating_sub(2)), Some(total.saturating_sub(1))];
    for _ in 0..3 {
        pendings.push(Some(rng.below(total.max(1) as usize) as u32));
    }
    let names = ["none", "set_same", "set_other", "reset", "ranges", "logger", "parse_other", "resume", "set_same_then_parse"];
    let base_live = scanner_live(b);
    let mut first_leak: Option<String> = None;
    let mut combos = 0;
    for pend in &pendings {
        for (ti, tname) in names.iter().enumerate() {
            let before = LIVE.load(Ordering::SeqCst);
            {
                let mut p = Parser::new();
                p.set_language(&b.language).unwrap();
                let t1 = guarded_parse(&mut p, &text, None, *pend);
                let mut t2 = None;
                match ti {
                    1 => {
                        let _ = p.set_language(&b.language);
                    }
                    2 => {
                        let _ = p.set_language(other);
                        t2 = guarded_parse(&mut p, &other_text, None, None);
                    }
                    3 => p.reset(),
                    4 => {
                        let r = [Range { start_byte: 0, end_byte: text.len() / 2, start_point: Point { row: 0, column: 0 }, end_point: Point { row: 9999, column: 0 } }];
                        let _ = p.set_included_ranges(&r);
                    }
                    5 => {
                        p.set_logger(Some(Box::new(|_, _| {})));
                        p.set_logger(None);
                    }
                    6 => t2 = guarded_parse(&mut p, b"#a word (#b)", None, None),
                    7 => t2 = guarded_parse(&mut p, &text, None, None),
                    8 => {
                        let _ = p.set_language(&b.language);
                        t2 = guarded_parse(&mut p, &text, None, Some(3));
                    }
                    _ => {}
                }
                drop(t1);
                drop(t2);
                drop(p);
            }
            combos += 1;
            let delta = LIVE.load(Ordering::SeqCst) - before;
            let sl = scanner_live(b);
            let sdelta = match (sl, base_live) {
                (Some(a), Some(b0)) => a - b0,
                _ => 0,
            };
            if (delta != 0 || sdelta != 0) && first_leak.is_none() {
                first_leak = Some(format!("{delta}:scanner_instances_left:{sdelta}:pending:{}:then:{tname}", pend.map(|k| format!("cancel@{k}/{total}")).unwrap_or_else(|| "finished".into())));
            }
        }
    }
    *info = format!(" combos={combos} callbacks={total} scanner_counter={}{}", base_live.is_some() as u8, first_leak.map(|l| format!(" leak={l}")).unwrap_or_default());
}

fn history(kind: &str, lang_id: &str, b: &zoo::Built, seed: u64, thorough: bool, dump: &mut Option<String>, info: &mut String) {
    if kind == "nearquery" {
        near_queries(b, lang_id, seed, info);
        return;
    }
    if kind == "qprobe" {
        // seed = index into the fixed list of shapes of finding C07-query-suffix-on-empty-pattern
        let shapes = ["((#set! a b)) @c", "((#set! a b))?", "(_ f: ((#set! a b)))", "[((#set! a b))] @c", "(_ ((#eq? @x \"(\")) @c)"];
        let q = shapes[(seed as usize) % shapes.len()].to_string();
        let q = if q.contains(" f: ") {
            match b.language.field_name_for_id(1) {
                Some(f) => q.replace(" f: ", &format!(" {f}: ")),
                None => return,
            }
        } else {
            q
        };
        let r = probe_query(lang_id, &q);
        info.push_str(&format!(" queries=1 qkinds=probed-{}:1", r.split(':').next().unwrap_or("?")));
        if r.starts_with("crash") {
            info.push_str(&format!(" qcrash={r}:{}", hex(q.as_bytes())));
        }
        return;
    }
    if kind == "qcursor" {
        query_cursor_load(b, lang_id, seed, info);
        return;
    }
    if kind == "transitions" {
        if let Ok(o) = zoo::load("arith") {
            transitions(b, lang_id, &o.language, seed, info);
        }
        return;
    }
    let mut rng = Rng::new(seed);
    let mut parser = Parser::new();
    parser.set_language(&b.language).unwrap();
    let gg = gen::GrammarGen::new(&b.grammar_json, zoo::read_zoo_file(lang_id, "samples.json").as_deref());
    let sentence = |rng: &mut Rng, budget: usize| -> Vec<u8> {
        let toks = gg.sentence(rng, budget);
        gg.render(&toks, rng).0
    };
    let mut trees: Vec<Tree> = Vec::new();
    let text: Vec<u8> = match kind {
        "bytes" => {
            let n = rng.below(1500);
            random_bytes(&mut rng, n)
        }
        "huge" => {
            let unit = sentence(&mut rng, 3);
            let reps = if thorough { 100_000 } else { 6_000 };
            if rng.chance(1, 2) {
                let mut t = Vec::new();
                for _ in 0..reps {
                    t.extend_from_slice(&unit);
                    t.push(b' ');
                }
                t
            } else {
                let depth = if thorough { 10_000 } else { 1_500 };
                let mut t = vec![b'('; depth];
                t.extend_from_slice(b"a");
                t.extend(std::iter::repeat(b')').take(depth - rng.below(3)));
                t
            }
        }
        "glr" => {
            let n = [6, 20, 60][rng.below(3)];
            glr_text(&mut rng, n)
        }
        "errors" => {
            // a valid sentence with many local damages: drives error recovery with several stack versions
            let budget = [20, 60, 200][rng.below(3)];
            let toks = gg.sentence(&mut rng, budget);
            let mut words: Vec<String> = toks.iter().map(|t| t.text.clone()).collect();
            let n = words.len().max(1);
            for _ in 0..(n / 4 + 2) {
                let i = rng.below(words.len().max(1));
                match rng.below(5) {
                    0 if !words.is_empty() => {
                        let i2 = i.min(words.len() - 1);
                        words.remove(i2);
                    }
                    1 if !words.is_empty() => {
                        let w = words[rng.below(words.len())].clone();
                        let i2 = i.min(words.len());
                        words.insert(i2, w);
                    }
                    2 => {
                        let i2 = i.min(words.len());
                        words.insert(i2, ["(", ")", "{", "}", "[", "]", ",", ";", "\"", "@"][rng.below(10)].to_string());
                    }
                    3 if words.len() >= 2 => {
                        let j = rng.below(words.len());
                        let i2 = i.min(words.len() - 1);
                        words.swap(i2, j);
                    }
                    _ => {
                        let i2 = i.min(words.len());
                        let junk = String::from_utf8_lossy(&random_bytes(&mut rng, 3)).into_owned();
                        words.insert(i2, junk);
                    }
                }
            }
            words.join(" ").into_bytes()
        }
        _ => {
            let budget = [5, 30, 120][rng.below(3)];
            let mut t = sentence(&mut rng, budget);
            if rng.chance(1, 3) {
                t = gen::mutate_bytes(&mut rng, &t);
            }
            t
        }
    };
    if kind == "bytes" && rng.chance(1, 3) && text.len() > 8 {
        let a = text.len() / 3;
        let r = [
            Range { start_byte: 0, end_byte: a, start_point: Point { row: 0, column: 0 }, end_point: Point { row: 0, column: a } },
            Range { start_byte: a + 2, end_byte: text.len() + rng.below(20), start_point: Point { row: 0, column: a + 2 }, end_point: Point { row: 9, column: 0 } },
        ];
        let _ = parser.set_included_ranges(&r);
        // an invalid (overlapping) list must be rejected, not half-applied
        let bad = [r[1], r[0]];
        let _ = parser.set_included_ranges(&bad);
    }
    let mut cur = text.clone();
    match kind {
        "cancel" => {
            // cancellation at (nearly) every callback index of a small input, then resume or reset
            let small: Vec<u8> = cur.iter().take(400).cloned().collect();
            for k in 0..40u32 {
                let r = guarded_parse(&mut parser, &small, None, Some(k));
                match r {
                    Some(t) => trees.push(t),
                    None => {
                        if k % 3 == 0 {
                            parser.reset();
                        } else if k % 3 == 1 {
                            if let Some(t) = guarded_parse(&mut parser, &small, None, None) {
                                trees.push(t);
                            }
                        } // else: leave the parser paused and start a different parse next round
                    }
                }
                if trees.len() > 6 {
                    trees.remove(rng.below(trees.len()));
                }
            }
            cur = small;
        }
        _ => {
            if let Some(t) = guarded_parse(&mut parser, &cur, None, None) {
                trees.push(t);
            }
        }
    }
    let nops = if kind == "huge" { 3 } else { 14 };
    let mut extreme = false;
    for step in 0..nops {
        if trees.is_empty() {
            break;
        }
        let i = rng.below(trees.len());
        match rng.below(8) {
            0 => {
                let c = trees[i].clone();
                trees.push(c);
            }
            1 | 2 => {
                let e = if (kind == "offsets" || rng.chance(1, 4)) && std::env::var("C07_NO_EXTREME").is_err() {
                    extreme = true;
                    extreme_edit(&mut rng, cur.len())
                } else {
                    let alpha: Vec<&[u8]> = vec![b"a", b"(", b")", b" ", b"1", b"\n", b"+", b"7 ", b"9", b"!", b"x y "];
                    let te = random_edit(&mut rng, &cur, &[], &alpha);
                    let new = te.apply(&cur);
                    let ie = te.input_edit(&cur, &new);
                    cur = new;
                    ie
                };
                trees[i].edit(&e);
                if dump.is_none() && step > 2 && kind != "huge" {
                    *dump = Some(dump_tree(&trees[i]));
                }
            }
            3 => {
                let cancel = if rng.chance(1, 3) { Some(rng.below(30) as u32) } else { None };
                if let Some(t) = guarded_parse(&mut parser, &cur, Some(&trees[i]), cancel) {
                    trees.push(t);
                } else if rng.chance(1, 2) {
                    parser.reset();
                }
            }
            4 => {
                let q = random_query_text(&mut rng, &b.language);
                let _ = run_query(&b.language, &q, &trees[i], &cur, 1 + rng.below(4) as u32);
            }
            5 => {
                let _ = walk(&trees[i], &mut rng);
                if kind != "huge" {
                    poke_nodes(&trees[i], &mut rng, cur.len());
                }
            }
            6 => {
                if trees.len() >= 2 && (!extreme || std::env::var("C07_CHANGED_RANGES_AFTER_EXTREME").is_ok()) {
                    let j = (i + 1) % trees.len();
                    let _ = trees[i].changed_ranges(&trees[j]).count();
                    let _ = trees[i].included_ranges();
                }
            }
            _ => {
                trees.swap_remove(i);
            }
        }
        if trees.len() > 7 {
            trees.swap_remove(0);
        }
    }
    drop(trees);
    drop(parser);
}

fn cunit_lines(cunit: &str, input: &str) -> Vec<String> {
    let mut ch = Command::new(cunit).stdin(Stdio::piped()).stdout(Stdio::piped()).stderr(Stdio::null()).spawn().expect("cunit");
    ch.stdin.take().unwrap().write_all(input.as_bytes()).unwrap();
    let out = ch.wait_with_output().unwrap();
    String::from_utf8_lossy(&out.stdout).lines().map(|s| s.to_string()).collect()
}

fn arr_case(out: &mut impl Write, cunit: &str, cid: &str, seed: u64, n: usize) {
    let mut rng = Rng::new(seed);
    let mut size = 0usize;
    let mut ops: Vec<String> = Vec::new();
    for _ in 0..n {
        let k = rng.below(9);
        let vals = |rng: &mut Rng, c: usize| -> String { (0..c).map(|_| (rng.below(1000)).to_string()).collect::<Vec<_>>().join(" ") };
        let op = match k {
            0 | 1 => {
                size += 1;
                format!("P {}", rng.below(1000))
            }
            2 if size > 0 => {
                size -= 1;
                "O".to_string()
            }
            3 => {
                let c = [0, 1, 3, 9, 40][rng.below(5)];
                size += c;
                format!("G {c}")
            }
            4 => {
                let idx = rng.below(size + 1);
                let old = rng.below(size - idx + 1);
                let new = [0, 0, 1, 2, 5, 17][rng.below(6)];
                size = size + new - old;
                format!("S {idx} {old} {new} {}", vals(&mut rng, new)).trim_end().to_string()
            }
            5 if size > 0 => {
                let idx = rng.below(size);
                size -= 1;
                format!("E {idx}")
            }
            6 => {
                let idx = rng.below(size + 1);
                size += 1;
                format!("I {idx} {}", rng.below(1000))
            }
            7 => {
                let c = [0, 1, 4, 30][rng.below(4)];
                size += c;
                format!("X {c} {}", vals(&mut rng, c)).trim_end().to_string()
            }
            8 if rng.chance(1, 3) => {
                let c = [0, 2, 11][rng.below(3)];
                size = c;
                format!("A {c} {}", vals(&mut rng, c)).trim_end().to_string()
            }
            _ => {
                size += 1;
                format!("P {}", rng.below(1000))
            }
        };
        ops.push(op);
    }
    let input: String = ops.iter().map(|o| format!("arr {o}\n")).collect();
    let real = cunit_lines(cunit, &input);
    writeln!(out, "spec {cid} arr {seed} {n}").unwrap();
    writeln!(out, "arrcase {cid}").unwrap();
    for (o, r) in ops.iter().zip(real.iter()) {
        writeln!(out, "arrop {o}").unwrap();
        writeln!(out, "arrreal {}", r.strip_prefix("arr ").unwrap_or(r)).unwrap();
    }
    writeln!(out, "arrend {cid} ops={} answered={}", ops.len(), real.len()).unwrap();
}

/// Generic protocol case: `ops` are sent to the unity driver with `prefix`, answers are paired with them.
fn proto_case(out: &mut impl Write, cunit: &str, cid: &str, spec: &str, tag: &str, prefix: &str, header: &str, ops: &[String]) {
    let input: String = ops.iter().map(|o| format!("{prefix} {o}\n")).collect();
    let real = cunit_lines(cunit, &input);
    writeln!(out, "spec {cid} {spec}").unwrap();
    writeln!(out, "{tag}case {cid} {header}").unwrap();
    for (o, r) in ops.iter().zip(real.iter()) {
        writeln!(out, "{tag}op {o}").unwrap();
        writeln!(out, "{tag}real {}", r.splitn(2, ' ').nth(1).unwrap_or("")).unwrap();
    }
    for o in ops.iter().skip(real.len()) {
        writeln!(out, "{tag}unanswered {o}").unwrap();
    }
    writeln!(out, "{tag}end {cid} ops={} answered={}", ops.len(), real.len()).unwrap();
}

/// Recycling pools: `kind` = sub (SubtreePool, cap 32, enabled iff created with a capacity) or node (cap 50).
fn pw_case(out: &mut impl Write, cunit: &str, cid: &str, seed: u64, n: usize) {
    let mut rng = Rng::new(seed);
    let sub = rng.chance(1, 2);
    let capn = if sub { [0usize, 4, 40][rng.below(3)] } else { 0 };
    let (cap, enabled) = if sub { (32usize, capn > 0) } else { (50usize, true) };
    let mut pool: Vec<usize> = Vec::new();
    let mut live: Vec<usize> = Vec::new();
    let mut next = 0usize;
    let mut ops = vec![format!("N {capn}")];
    // phases: grow far beyond the cap, then shrink, then mix
    for step in 0..n {
        let grow = if step < n / 3 { 5 } else if step < 2 * n / 3 { 1 } else { 3 };
        if live.is_empty() || rng.below(6) < grow {
            let x = match pool.pop() {
                Some(x) => x,
                None => {
                    next += 1;
                    next - 1
                }
            };
            live.push(x);
            ops.push("A".into());
        } else {
            let i = rng.below(live.len());
            let x = live.swap_remove(i);
            if enabled && pool.len() + 1 <= cap {
                pool.push(x);
            }
            ops.push(format!("F {x}"));
        }
    }
    let kind = if sub { "sub" } else { "node" };
    proto_case(out, cunit, cid, &format!("pw {seed} {n}"), "pw", &format!("pw {kind}"), &format!("kind={kind} cap={cap} enabled={}", enabled as u8), &ops);
}

fn cl_case(out: &mut impl Write, cunit: &str, cid: &str, seed: u64, n: usize) {
    let mut rng = Rng::new(seed);
    let mut in_use: Vec<bool> = Vec::new();
    let mut max = usize::MAX;
    let mut free = 0usize;
    let mut ops = vec!["N".to_string()];
    for _ in 0..n {
        match rng.below(12) {
            0 => {
                max = [1usize, 2, 3, 8, 40][rng.below(5)];
                ops.push(format!("M {max}"));
                // lowering the limit only takes effect at the next reset (as in ts_query_cursor_exec)
                ops.push("X".into());
                let keep = in_use.len().min(max);
                in_use = vec![false; keep];
                free = keep;
            }
            1 => {
                ops.push("X".into());
                let keep = in_use.len().min(max);
                in_use = vec![false; keep];
                free = keep;
            }
            2 | 3 | 4 | 5 if in_use.iter().any(|b| *b) => {
                let used: Vec<usize> = (0..in_use.len()).filter(|i| in_use[*i]).collect();
                let id = *rng.pick(&used);
                in_use[id] = false;
                free += 1;
                ops.push(format!("R {id}"));
            }
            6 => ops.push(format!("R {}", in_use.len() + rng.below(3))), // out of range: no-op
            _ => {
                if free > 0 {
                    if let Some(i) = in_use.iter().position(|b| !*b) {
                        in_use[i] = true;
                        free -= 1;
                    }
                } else if in_use.len() < max {
                    in_use.push(true);
                }
                ops.push("A".into());
            }
        }
    }
    proto_case(out, cunit, cid, &format!("cl {seed} {n}"), "cl", "cl", "-", &ops);
}

fn ess_case(out: &mut impl Write, cunit: &str, cid: &str, seed: u64, n: usize) {
    let mut rng = Rng::new(seed);
    let edge = [0usize, 1, 8, 23, 24, 25, 26, 32, 100, 1000, 4000];
    let ops: Vec<String> = (0..n).map(|_| format!("{} {}", if rng.chance(2, 3) { *rng.pick(&edge) } else { rng.below(60) }, rng.next() % 1000)).collect();
    let input: String = ops.iter().map(|o| format!("ess {o}\n")).collect();
    let real = cunit_lines(cunit, &input);
    writeln!(out, "spec {cid} ess {seed} {n}").unwrap();
    for (k, (o, r)) in ops.iter().zip(real.iter()).enumerate() {
        writeln!(out, "essq {cid}.{k} len={} {}", o.split(' ').next().unwrap(), r.splitn(2, ' ').nth(1).unwrap_or("")).unwrap();
    }
}

fn al_case(out: &mut impl Write, cunit: &str, cid: &str, seed: u64, n: usize) {
    // A layered graph, as on a real parse stack: a node's predecessor (and every node it gets linked
    // to) is one layer below it, so positions are depths and the recursive merging descends.
    let mut rng = Rng::new(seed);
    let nodes = rng.range(4, 24);
    let nstates = [1usize, 2, 3, 16, 16][rng.below(5)];
    let wide = rng.chance(1, 2) && nodes >= 12;
    let n = if wide { n.max(90) } else { n };
    let mut layer_of: Vec<usize> = Vec::new();
    let mut ops = vec!["C".to_string()];
    for i in 0..nodes {
        if i == 0 {
            ops.push(format!("N -1 {}", 1 + rng.below(nstates)));
            layer_of.push(0);
        } else {
            // one shape in three is wide: many siblings with distinct states under the root and
            // one node above them that gets linked to all of them (fills links[] to the limit)
            let prev = if wide { if i + 1 == nodes { 1 } else { 0 } } else { rng.below(i) };
            let st = if wide { i } else { 1 + rng.below(nstates) };
            ops.push(format!("N {prev} {st}"));
            layer_of.push(layer_of[prev] + 1);
        }
    }
    let mut tries = 0;
    let mut made = 0;
    // favour one node of the deepest populated layer so that it fills up to MAX_LINK_COUNT and beyond
    let fav = (0..nodes).max_by_key(|&i| (0..nodes).filter(|&j| layer_of[j] + 1 == layer_of[i]).count()).unwrap_or(1);
    while made < n && tries < n * 20 {
        tries += 1;
        let a = if rng.chance(1, 2) { fav } else { rng.range(1, nodes - 1) };
        let below: Vec<usize> = (0..nodes).filter(|&j| layer_of[j] + 1 == layer_of[a]).collect();
        if below.is_empty() {
            continue;
        }
        let b = *rng.pick(&below);
        ops.push(format!("L {a} {b}"));
        made += 1;
    }
    proto_case(out, cunit, cid, &format!("al {seed} {n}"), "al", "al", "-", &ops);
}

fn inl_case(out: &mut impl Write, cunit: &str, cid: &str, seed: u64, n: usize) {
    let mut rng = Rng::new(seed);
    let edge = [0usize, 1, 14, 15, 16, 17, 253, 254, 255, 256, 257, 65535, 1 << 20];
    let mut qs = Vec::new();
    for _ in 0..n {
        let v: Vec<usize> = (0..7).map(|_| if rng.chance(2, 3) { *rng.pick(&edge) } else { rng.below(300) }).collect();
        qs.push(v);
    }
    let input: String = qs.iter().map(|v| format!("inl {}\n", v.iter().map(|x| x.to_string()).collect::<Vec<_>>().join(" "))).collect();
    let real = cunit_lines(cunit, &input);
    writeln!(out, "spec {cid} inl {seed} {n}").unwrap();
    for (k, (v, r)) in qs.iter().zip(real.iter()).enumerate() {
        writeln!(out, "inlq {cid}.{k} {} | {}", v.iter().map(|x| x.to_string()).collect::<Vec<_>>().join(" "), r).unwrap();
    }
}

/// `ts_node_string` (the two-pass measure-then-write of `ts_subtree__write_to_string`) on ERRONEOUS trees whose
/// MISSING / anonymous token names need escaping (zoo/c07quote: `"`, `\`, `'`, newline; jsonish: `"`), called
/// through the FFI so that the returned buffer can be inspected before it is freed: its allocated size must be
/// exactly `strlen + 1` (what the measuring pass promised = what the writing pass wrote) and the guard bytes
/// behind it intact.  For the root the tree is dumped too and the Lean port of the writer (C06 `nodeString`)
/// must produce the same string.
fn sexp_case(out: &mut impl Write, cid: &str, lang_id: &str, b: &zoo::Built, seed: u64, n: usize, langs_done: &mut Vec<String>) {
    let mut rng = Rng::new(seed);
    writeln!(out, "spec {cid} sexp {lang_id} {seed} {n}").unwrap();
    if !langs_done.contains(&lang_id.to_string()) {
        langs_done.push(lang_id.to_string());
        // the language tables in the format of TsVerif.C02.Lang (cunit_c02 `lang <so> <symbol>`, as in C06's harness)
        if let Ok(langdump) = std::env::var("C07_LANGDUMP") {
            if let Ok(o) = Command::new(&langdump).arg("lang").arg(b.dir.join("lang.so")).arg(format!("tree_sitter_{}", b.name)).output() {
                if o.status.success() {
                    writeln!(out, "deflang {lang_id}").unwrap();
                    out.write_all(&o.stdout).unwrap();
                    writeln!(out, "enddeflang").unwrap();
                }
            }
        }
    }
    let gg = gen::GrammarGen::new(&b.grammar_json, zoo::read_zoo_file(lang_id, "samples.json").as_deref());
    let mut parser = Parser::new();
    parser.set_language(&b.language).unwrap();
    for k in 0..n {
        let budget = [3, 8, 20][rng.below(3)];
        let toks = gg.sentence(&mut rng, budget);
        let mut text = gg.render(&toks, &mut rng).0;
        // damage: truncate (closing delimiters go missing), drop or duplicate a byte
        match rng.below(5) {
            0 | 1 if text.len() > 1 => text.truncate(1 + rng.below(text.len() - 1)),
            2 if !text.is_empty() => {
                let i = rng.below(text.len());
                text.remove(i);
            }
            3 if !text.is_empty() => {
                let i = rng.below(text.len());
                let c = text[i];
                text.insert(i, c);
            }
            _ => {}
        }
        let Some(tree) = guarded_parse(&mut parser, &text, None, None) else { continue };
        // every node of the tree (bounded), the root first
        let mut nodes = vec![tree.root_node()];
        let mut i = 0;
        while i < nodes.len() && nodes.len() < 60 {
            let nd = nodes[i];
            let mut c = nd.walk();
            for ch in nd.children(&mut c) {
                nodes.push(ch);
            }
            i += 1;
        }
        for (j, nd) in nodes.iter().enumerate() {
            unsafe {
                let p = tree_sitter::ffi::ts_node_string(nd.into_raw());
                if p.is_null() {
                    continue;
                }
                let len = std::ffi::CStr::from_ptr(p).to_bytes().len();
                let alloc = *((p as *mut u8).sub(HDR) as *mut usize);
                let tail_ok = blk_tail_ok(p as *mut c_void);
                let bytes: Vec<u8> = std::slice::from_raw_parts(p as *const u8, len.min(alloc + TAIL)).to_vec();
                if !tail_ok {
                    // repair so that the free below does not abort: the overrun is reported through the judge
                    memset((p as *mut u8).add(alloc) as *mut c_void, TAIL_BYTE as i32, TAIL);
                }
                c_free(p as *mut c_void);
                if j == 0 {
                    writeln!(out, "sexproot {cid}.{k} lang={lang_id} len={len} alloc={alloc} tail={} missing={} str={}", tail_ok as u8, tree.root_node().has_error() as u8, hex(&bytes)).unwrap();
                    write!(out, "{}", dump_tree(&tree)).unwrap();
                    writeln!(out, "endsexp").unwrap();
                } else if len + 1 != alloc || !tail_ok {
                    writeln!(out, "sexpnode {cid}.{k}.{j} lang={lang_id} len={len} alloc={alloc} tail={} str={}", tail_ok as u8, hex(&bytes)).unwrap();
                }
            }
        }
    }
}

/// `ts_range_array_get_changed_ranges` on explicit range lists (numbers: n_old s e … n_new s e …).
fn crx_case(out: &mut impl Write, cunit: &str, cid: &str, nums: &[&str]) {
    let q = nums.join(" ");
    let real = cunit_lines(cunit, &format!("cr {q}\n"));
    writeln!(out, "spec {cid} crx {q}").unwrap();
    writeln!(out, "crq {cid} {q} | {}", real.first().map(|s| s.as_str()).unwrap_or("cr fault=1 kind=died off=0 acc_old=1 acc_new=1 out=")).unwrap();
}

/// Random range lists, biased to the 32-bit edge (`UINT32_MAX` is the position of an exhausted list).
fn cr_case(out: &mut impl Write, cunit: &str, cid: &str, seed: u64, n: usize) {
    let mut rng = Rng::new(seed);
    const MAX: u64 = 4294967295;
    let mut list = |rng: &mut Rng| -> Vec<u64> {
        let k = rng.below(4);
        let mut v: Vec<u64> = (0..2 * k).map(|_| match rng.below(6) { 0 => MAX, 1 => MAX - rng.below(3) as u64, _ => rng.below(12) as u64 }).collect();
        if !rng.chance(1, 8) {
            v.sort();
        }
        v
    };
    writeln!(out, "spec {cid} cr {seed} {n}").unwrap();
    let mut input = String::new();
    let mut qs = Vec::new();
    for _ in 0..n {
        let (o, w) = (list(&mut rng), list(&mut rng));
        let q = format!("{} {} {} {}", o.len() / 2, o.iter().map(|x| x.to_string()).collect::<Vec<_>>().join(" "), w.len() / 2, w.iter().map(|x| x.to_string()).collect::<Vec<_>>().join(" "));
        let q = q.split_whitespace().collect::<Vec<_>>().join(" ");
        input.push_str(&format!("cr {q}\n"));
        qs.push(q);
    }
    let real = cunit_lines(cunit, &input);
    for (k, q) in qs.iter().enumerate() {
        writeln!(out, "crq {cid}.{k} {q} | {}", real.get(k).map(|s| s.as_str()).unwrap_or("cr fault=1 kind=died off=0 acc_old=1 acc_new=1 out=")).unwrap();
    }
}

/// The real Lexer, scripted: `<hexdoc> <n> s e … | ops`.
fn lxx_case(out: &mut impl Write, cunit: &str, cid: &str, words: &[&str]) {
    let q = words.join(" ");
    let real = cunit_lines(cunit, &format!("lx {q}\n"));
    writeln!(out, "spec {cid} lxx {q}").unwrap();
    writeln!(out, "lxq {cid} {q} | {}", real.first().map(|s| s.as_str()).unwrap_or("lx fault=1 kind=died off=0 acc=1 trace=")).unwrap();
}

/// Random lexer scripts in the shape the parser and an external scanner produce: rounds of
/// reset — start — (get_column | advance | skip | mark_end | eof)* — finish, on short documents with
/// included ranges that end at line starts, at the end of the document or beyond it.
fn lx_case(out: &mut impl Write, cunit: &str, cid: &str, seed: u64, n: usize) {
    let mut rng = Rng::new(seed);
    writeln!(out, "spec {cid} lx {seed} {n}").unwrap();
    let mut input = String::new();
    let mut qs = Vec::new();
    for _ in 0..n {
        let len = rng.below(10);
        let doc: Vec<u8> = (0..len).map(|_| *rng.pick(&[b'a', b'b', b'\n', b'\n', b' '])).collect();
        let hex: String = if doc.is_empty() { "-".into() } else { doc.iter().map(|b| format!("{b:02x}")).collect() };
        let k = 1 + rng.below(3);
        let mut v: Vec<usize> = (0..2 * k).map(|_| rng.below(len + 3)).collect();
        v.sort();
        let mut ops: Vec<String> = Vec::new();
        for _ in 0..1 + rng.below(3) {
            ops.push(format!("R{}", rng.below(len + 1)));
            ops.push("S".into());
            for _ in 0..rng.below(7) {
                ops.push(rng.pick(&["C", "A", "A", "K", "M", "E", "C"]).to_string());
            }
            ops.push("F".into());
        }
        let q = format!("{hex} {k} {} | {}", v.iter().map(|x| x.to_string()).collect::<Vec<_>>().join(" "), ops.join(" "));
        input.push_str(&format!("lx {q}\n"));
        qs.push(q);
    }
    let real = cunit_lines(cunit, &input);
    for (k, q) in qs.iter().enumerate() {
        writeln!(out, "lxq {cid}.{k} {q} | {}", real.get(k).map(|s| s.as_str()).unwrap_or("lx fault=1 kind=died off=0 acc=1 trace=")).unwrap();
    }
}

/// Compile-time facts of the REAL headers, measured through the unity build: the largest value each
/// size field of the inline subtree representation can hold (all-ones object read back through the
/// runtime's own accessors) and the number of slots of a stack node's link array.
fn bits_case(out: &mut impl Write, cunit: &str, cid: &str) {
    let real = cunit_lines(cunit, "bits\n");
    writeln!(out, "spec {cid} bits").unwrap();
    writeln!(out, "bitsq {cid} | {}", real.first().map(|s| s.as_str()).unwrap_or("bits missing")).unwrap();
}

fn main() {
    limit_resources();
    unsafe {
        tree_sitter::set_allocator(Some(tree_sitter::Allocator { malloc: c_malloc, calloc: c_calloc, realloc: c_realloc, free: c_free }));
    }
    let args: Vec<String> = std::env::args().collect();
    if args.get(1).map(|s| s == "--query-probe").unwrap_or(false) {
        let b = zoo::load(&args[2]).expect("language");
        let q = String::from_utf8_lossy(&unhex(&args[3])).into_owned();
        match Query::new(&b.language, &q) {
            Ok(_) => println!("ok"),
            Err(e) => println!("err:{:?}", e.kind),
        }
        return;
    }
    let out_path = args.get(1).expect("usage: c07 <ops-file> <cunit-exe> [--spec file]").clone();
    let cunit = args.get(2).expect("cunit exe").clone();
    let mut out = std::io::BufWriter::new(std::fs::File::create(&out_path).unwrap());
    let thorough = tier_is_thorough();
    let mut specs: Vec<String> = Vec::new();
    if args.get(3).map(|s| s == "--spec").unwrap_or(false) {
        specs = std::fs::read_to_string(&args[4]).unwrap().lines().map(|s| s.to_string()).collect();
    } else {
        if let Some(c) = zoo_corpus("c07") {
            specs.extend(c.lines().filter(|l| !l.trim().is_empty() && !l.starts_with('#')).map(|s| s.to_string()));
        }
        let mut rng = Rng::new(seed_from_env());
        let langs = ["arith", "lst", "stmt", "jsonish", "fx_inline_rules", "fx_dynamic_precedence", "fx_readme_grammar", "c08scan"];
        let per = if thorough { 120 } else { 14 };
        for lang in langs {
            for kind in KINDS {
                for _ in 0..per {
                    specs.push(format!("hist {kind} {lang} {}", rng.next() % 1_000_000_007));
                }
            }
        }
        for _ in 0..(if thorough { 600 } else { 120 }) {
            specs.push(format!("hist glr c07glr {}", rng.next() % 1_000_000_007));
        }
        for lang in langs.iter().chain(["c07glr", "fx_external_tokens", "fx_reserved_words"].iter()) {
            for _ in 0..(if thorough { 40 } else { 6 }) {
                specs.push(format!("hist nearquery {lang} {}", rng.next() % 1_000_000_007));
            }
        }
        for kind in ["errors", "mix", "cancel"] {
            for _ in 0..(if thorough { 60 } else { 10 }) {
                specs.push(format!("hist {kind} c07glr {}", rng.next() % 1_000_000_007));
            }
        }
        for lang in ["c08scan", "c08scan", "arith", "c07glr", "stmt", "fx_external_tokens"] {
            for _ in 0..(if thorough { 10 } else { 2 }) {
                specs.push(format!("hist transitions {lang} {}", rng.next() % 1_000_000_007));
            }
        }
        for lang in ["lst", "c08scan", "jsonish", "stmt", "arith", "c07glr"] {
            for _ in 0..(if thorough { 12 } else { 2 }) {
                specs.push(format!("hist qcursor {lang} {}", rng.next() % 1_000_000_007));
            }
        }
        for _ in 0..(if thorough { 60 } else { 12 }) {
            specs.push(format!("arr {} {}", rng.next() % 1_000_000_007, rng.range(20, 120)));
        }
        for _ in 0..(if thorough { 20 } else { 4 }) {
            specs.push(format!("inl {} {}", rng.next() % 1_000_000_007, 200));
        }
        for _ in 0..(if thorough { 60 } else { 10 }) {
            specs.push(format!("pw {} {}", rng.next() % 1_000_000_007, rng.range(40, 400)));
            specs.push(format!("cl {} {}", rng.next() % 1_000_000_007, rng.range(20, 150)));
            specs.push(format!("al {} {}", rng.next() % 1_000_000_007, rng.range(5, 60)));
        }
        for _ in 0..(if thorough { 10 } else { 3 }) {
            specs.push(format!("ess {} {}", rng.next() % 1_000_000_007, 60));
        }
        specs.push("bits".to_string());
        for lang in ["c07quote", "jsonish", "c07quote", "stmt", "c08role"] {
            for _ in 0..(if thorough { 10 } else { 2 }) {
                specs.push(format!("sexp {lang} {} {}", rng.next() % 1_000_000_007, 40));
            }
        }
        for _ in 0..(if thorough { 12 } else { 2 }) {
            specs.push(format!("cr {} {}", rng.next() % 1_000_000_007, 150));
            specs.push(format!("lx {} {}", rng.next() % 1_000_000_007, 150));
        }
    }
    let mut langs_cache: std::collections::HashMap<String, Option<zoo::Built>> = std::collections::HashMap::new();
    let mut nhist = 0;
    let mut sexp_langs: Vec<String> = Vec::new();
    for (i, line) in specs.iter().enumerate() {
        let f: Vec<&str> = line.split_whitespace().collect();
        let f: Vec<&str> = if f.len() >= 2 && ["hist", "arr", "inl", "pw", "cl", "ess", "al", "bits", "cr", "crx", "lx", "lxx", "sexp"].contains(&f[1]) { f[1..].to_vec() } else { f };
        match f.as_slice() {
            ["hist", kind, lang, seed] => {
                let b = langs_cache.entry(lang.to_string()).or_insert_with(|| zoo::load(lang).ok());
                let Some(b) = b.as_ref() else { continue };
                let cid = format!("h{i}");
                writeln!(out, "spec {cid} hist {kind} {lang} {seed}").unwrap();
                out.flush().unwrap();
                let before = LIVE.load(Ordering::SeqCst);
                let a0 = ALLOCS.load(Ordering::Relaxed);
                let mut dump = None;
                let mut info = String::new();
                let sl0 = scanner_live(b);
                history(kind, lang, b, seed.parse().unwrap(), thorough, &mut dump, &mut info);
                // create/destroy pairing of the external scanner over the whole history (any kind)
                if let (Some(a0), Some(a1)) = (sl0, scanner_live(b)) {
                    if a1 != a0 && !info.contains(" leak=") {
                        info.push_str(&format!(" leak=0:scanner_instances_left:{}:history", a1 - a0));
                    }
                }
                let delta = LIVE.load(Ordering::SeqCst) - before;
                let hasext = b.grammar_json.contains("\"externals\"") && !b.grammar_json.contains("\"externals\": []") && !b.grammar_json.contains("\"externals\":[]");
                writeln!(out, "hist {cid} kind={kind} lang={lang} allocs={} live_delta={delta}{info}", ALLOCS.load(Ordering::Relaxed) - a0).unwrap();
                if let Some(d) = dump {
                    writeln!(out, "dump {cid} hasext={}", hasext as u8).unwrap();
                    write!(out, "{d}").unwrap();
                    writeln!(out, "enddump").unwrap();
                }
                nhist += 1;
                out.flush().unwrap();
            }
            ["arr", seed, n] => arr_case(&mut out, &cunit, &format!("a{i}"), seed.parse().unwrap(), n.parse().unwrap()),
            ["inl", seed, n] => inl_case(&mut out, &cunit, &format!("i{i}"), seed.parse().unwrap(), n.parse().unwrap()),
            ["pw", seed, n] => pw_case(&mut out, &cunit, &format!("p{i}"), seed.parse().unwrap(), n.parse().unwrap()),
            ["cl", seed, n] => cl_case(&mut out, &cunit, &format!("c{i}"), seed.parse().unwrap(), n.parse().unwrap()),
            ["ess", seed, n] => ess_case(&mut out, &cunit, &format!("e{i}"), seed.parse().unwrap(), n.parse().unwrap()),
            ["sexp", lang, seed, n] => {
                let b = langs_cache.entry(lang.to_string()).or_insert_with(|| zoo::load(lang).ok());
                if let Some(b) = b.as_ref() {
                    sexp_case(&mut out, &format!("s{i}"), lang, b, seed.parse().unwrap(), n.parse().unwrap(), &mut sexp_langs);
                }
            }
            ["cr", seed, n] => cr_case(&mut out, &cunit, &format!("r{i}"), seed.parse().unwrap(), n.parse().unwrap()),
            ["lx", seed, n] => lx_case(&mut out, &cunit, &format!("x{i}"), seed.parse().unwrap(), n.parse().unwrap()),
            ["crx", rest @ ..] => crx_case(&mut out, &cunit, &format!("r{i}"), rest),
            ["lxx", rest @ ..] => lxx_case(&mut out, &cunit, &format!("x{i}"), rest),
            ["bits"] => bits_case(&mut out, &cunit, &format!("b{i}")),
            ["al", seed, n] => al_case(&mut out, &cunit, &format!("l{i}"), seed.parse().unwrap(), n.parse().unwrap()),
            _ => {}
        }
    }
    langs_cache.clear();
    out.flush().unwrap();
    eprintln!("c07: {nhist} histories, allocations total {}, live now {}", ALLOCS.load(Ordering::Relaxed), LIVE.load(Ordering::SeqCst));
}
