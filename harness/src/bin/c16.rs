//! C16 explorer: zoo + random grammars → REAL generator (parser.c + node-types.json from one call of
//! `generate_parser_in_directory`) → compile → documents from random derivations.
//! Writes  <ops>      : spec lines, node-types files, answers of the Rust `Language` API
//!         <list>     : languages (+ documents) for the C unit `tsv-cunit_c16`, which dumps the
//!                      tables, runs the real C functions over all states/symbols and parses the documents.
//! usage: c16 <ops-file> <list-file> [--spec <file>]
//! spec line: `<zoo:ID | json:HEX> <dochex | - (empty) | @ (no document)>`
use serde_json::{json, Value};
use std::collections::HashSet;
use std::io::Write;
use std::path::{Path, PathBuf};
use tree_sitter::Language;
use tree_sitter_generate::{generate_parser_in_directory, OptLevel};
use tsv_harness::*;

#[path = "c16_flatten.rs"]
mod c16_flatten;

struct Lang {
    id: String,
    spec: String,
    language: Language,
    grammar_json: String,
    samples: Option<String>,
}

/// Generate parser.c and node-types.json with the real generator (one call), compile, load.
fn build(work: &Path, id: &str, spec: &str, grammar_json: &str, scanner: Option<&str>, samples: Option<String>,
         ops: &mut impl Write, list: &mut impl Write) -> Result<Lang, String> {
    let dir = work.join("gen").join(id);
    let src = dir.join("src");
    let _ = std::fs::remove_dir_all(&dir);
    std::fs::create_dir_all(&src).map_err(|e| e.to_string())?;
    let gpath = src.join("grammar.json");
    std::fs::write(&gpath, grammar_json).map_err(|e| e.to_string())?;
    let mut diags = Vec::new();
    generate_parser_in_directory(dir.clone(), Some(src.clone()), Some(gpath), tree_sitter::LANGUAGE_VERSION, None, None, true,
                                 OptLevel::default(), &mut diags)
        .map_err(|e| format!("generate: {e}"))?;
    let parser_c = std::fs::read_to_string(src.join("parser.c")).map_err(|e| e.to_string())?;
    let node_types = std::fs::read_to_string(src.join("node-types.json")).map_err(|e| e.to_string())?;
    let g: Value = serde_json::from_str(grammar_json).map_err(|e| e.to_string())?;
    let name = g["name"].as_str().unwrap_or("x").to_string();
    let (language, libdir) = zoo::compile_and_load(&name, &parser_c, scanner)?;
    let _ = std::fs::remove_dir_all(&dir);
    writeln!(ops, "spec L-{id} {spec} @").unwrap();
    writeln!(ops, "nodetypes {id} {}", hex(node_types.as_bytes())).unwrap();
    // the grammar's productions for the derivation model (Closed is evaluated on the real node-types file)
    match c16_flatten::flatten(grammar_json) {
        Ok(f) => {
            let hx = |s: &str| if s.is_empty() { "-".to_string() } else { hex(s.as_bytes()) };
            for (i, (is_rule, var, vis, name)) in f.syms.iter().enumerate() {
                writeln!(ops, "gsym {id} {i} {} {var} {vis} {}", if *is_rule { 'R' } else { 'T' }, hx(name)).unwrap();
            }
            for (v, ps) in f.prods.iter().enumerate() {
                for p in ps {
                    let steps: Vec<String> = p.iter().map(|(s, fld, al)| format!("{s},{},{},{}", fld.as_deref().map(hx).unwrap_or("-".into()),
                        al.as_ref().map(|a| if a.1 { "n" } else { "a" }).unwrap_or("-"), al.as_ref().map(|a| hx(&a.0)).unwrap_or("-".into()))).collect();
                    writeln!(ops, "gprod {id} {v} {}", if steps.is_empty() { "-".to_string() } else { steps.join(";") }).unwrap();
                }
            }
            let list = |v: &Vec<usize>| if v.is_empty() { "-".to_string() } else { v.iter().map(|r| r.to_string()).collect::<Vec<_>>().join(",") };
            writeln!(ops, "ginl {id} {}", list(&f.inl)).unwrap();
            writeln!(ops, "gextra {id} {}", list(&f.extras)).unwrap();
            writeln!(ops, "gorig {id} {}", f.n_orig).unwrap();
            writeln!(ops, "gend {id} {}", f.roots.iter().map(|r| r.to_string()).collect::<Vec<_>>().join(",")).unwrap();
        }
        Err(e) => { writeln!(ops, "gskip {id} {}", e.replace(' ', "_")).unwrap(); }
    }
    writeln!(list, "lang {id} {} tree_sitter_{name} 0", libdir.join("lang.so").display()).unwrap();
    ops.flush().unwrap();
    list.flush().unwrap();
    rust_api(&language, id, ops);
    ops.flush().unwrap();
    Ok(Lang { id: id.to_string(), spec: spec.to_string(), language, grammar_json: grammar_json.to_string(), samples })
}

/// Answers of the Rust binding: look-ahead iterator of every state, name round trips of every id.
fn rust_api(l: &Language, id: &str, ops: &mut impl Write) {
    for s in 0..l.parse_state_count() {
        let syms: Vec<String> = l.lookahead_iterator(s as u16).map(|it| it.take(l.node_kind_count() + 8).map(|x| x.to_string()).collect()).unwrap_or_default();
        writeln!(ops, "rla {id} {s} {}", if syms.is_empty() { "-".to_string() } else { syms.join(",") }).unwrap();
    }
    for k in 0..l.node_kind_count() {
        let k = k as u16;
        let kind = l.node_kind_for_id(k).unwrap_or("");
        let named = l.node_kind_is_named(k);
        let sup = l.node_kind_is_supertype(k);
        let vis = l.node_kind_is_visible(k);
        let back = l.id_for_node_kind(kind, named || sup);
        writeln!(ops, "rrt {id} {k} {} {} {} {back} {}", vis as u8, named as u8, sup as u8, if kind.is_empty() { "-".to_string() } else { hex(kind.as_bytes()) }).unwrap();
    }
    for f in 1..=l.field_count() {
        let name = l.field_name_for_id(f as u16).unwrap_or("");
        let back = l.field_id_for_name(name).map(|x| x.get()).unwrap_or(0);
        writeln!(ops, "rfld {id} {f} {back} {}", hex(name.as_bytes())).unwrap();
    }
    // out-of-range ids must not be named
    let n = l.node_kind_count() as u16;
    writeln!(ops, "rout {id} {} {}", l.node_kind_for_id(n).is_some() as u8, l.field_name_for_id(l.field_count() as u16 + 1).is_some() as u8).unwrap();
}

// ------------------------------------------------------------------------------------------------
// random grammars: a statement/expression family with random aliases, inlining, hidden rules with
// fields, supertypes, extras, repeats.  Every statement kind starts with its own keyword, so most
// instances are conflict-free; whatever the generator rejects is skipped and counted.

fn sym(n: &str) -> Value { json!({"type":"SYMBOL","name":n}) }
fn lit(s: &str) -> Value { json!({"type":"STRING","value":s}) }
fn pat(p: &str) -> Value { json!({"type":"PATTERN","value":p}) }
fn seq(v: Vec<Value>) -> Value { json!({"type":"SEQ","members":v}) }
fn choice(v: Vec<Value>) -> Value { json!({"type":"CHOICE","members":v}) }
fn opt(x: Value) -> Value { choice(vec![x, json!({"type":"BLANK"})]) }
fn rep(x: Value) -> Value { json!({"type":"REPEAT","content":x}) }
fn rep1(x: Value) -> Value { json!({"type":"REPEAT1","content":x}) }
fn field(n: &str, x: Value) -> Value { json!({"type":"FIELD","name":n,"content":x}) }
fn alias(x: Value, v: &str, named: bool) -> Value { json!({"type":"ALIAS","content":x,"named":named,"value":v}) }
fn prec_left(n: i32, x: Value) -> Value { json!({"type":"PREC_LEFT","value":n,"content":x}) }
fn prec(n: i32, x: Value) -> Value { json!({"type":"PREC","value":n,"content":x}) }
fn token(x: Value) -> Value { json!({"type":"TOKEN","content":x}) }
fn sep1(sep: &str, x: Value) -> Value { seq(vec![x.clone(), rep(seq(vec![lit(sep), x]))]) }

fn random_grammar(rng: &mut Rng, name: &str) -> (String, Vec<&'static str>) {
    let mut feats: Vec<&'static str> = Vec::new();
    let mut rules: Vec<(String, Value)> = Vec::new();
    let mut inline: Vec<Value> = Vec::new();
    let mut supertypes: Vec<Value> = Vec::new();
    let expr_mode = rng.below(3);
    let expr_name = if expr_mode == 2 { "expr" } else { "_expr" };
    let e = || sym(expr_name);
    let ident_variants = |rng: &mut Rng, feats: &mut Vec<&'static str>, nm: &str| -> Value {
        match rng.below(4) {
            0 => { feats.push("alias-named"); alias(sym("identifier"), nm, true) }
            1 => { feats.push("alias-to-existing-kind"); alias(sym("identifier"), "number", true) }
            _ => sym("identifier"),
        }
    };
    // statements
    let mut kinds: Vec<usize> = (0..8).collect();
    for i in (1..kinds.len()).rev() { let j = rng.below(i + 1); kinds.swap(i, j); }
    let n_kinds = rng.range(2, 8);
    let mut chosen: HashSet<usize> = kinds[..n_kinds].iter().copied().collect();
    if chosen.contains(&5) || chosen.contains(&6) { chosen.insert(1); }
    let mut items: Vec<Value> = Vec::new();
    let mut need_pair = false;
    let mut need_attr = false;
    let mut need_params = 0usize;
    let mut need_type_expr = false;
    for k in 0..8 {
        if !chosen.contains(&k) { continue; }
        match k {
            0 => {
                let name_v = ident_variants(rng, &mut feats, "var_name");
                let ty = match rng.below(3) { 0 => sym("identifier"), 1 => { feats.push("alias-named"); alias(sym("identifier"), "type_name", true) }, _ => { need_type_expr = true; sym("type_expr") } };
                rules.push(("let_stmt".into(), seq(vec![lit("let"), field("name", name_v), opt(seq(vec![lit(":"), field("type", ty)])), lit("="), field("value", e()), lit(";")])));
                items.push(sym("let_stmt"));
            }
            1 => { rules.push(("block".into(), seq(vec![lit("{"), rep(sym("_item")), lit("}")]))); items.push(sym("block")); feats.push("repeat"); }
            2 => {
                let elem = match rng.below(3) { 0 => { need_pair = true; feats.push("hidden-with-fields"); sym("_pair") }, 1 => field("item", e()), _ => e() };
                let body = if rng.chance(1, 2) { opt(sep1(",", elem)) } else { feats.push("repeat1"); opt(seq(vec![rep1(seq(vec![elem.clone(), lit(",")])), elem])) };
                rules.push(("list_stmt".into(), seq(vec![lit("list"), lit("["), body, lit("]"), lit(";")])));
                items.push(sym("list_stmt"));
            }
            3 => { rules.push(("ret_stmt".into(), seq(vec![lit("ret"), opt(e()), lit(";")]))); items.push(sym("ret_stmt")); }
            4 => {
                let tn = match rng.below(3) { 0 => { feats.push("alias-anonymous"); alias(sym("identifier"), "tagname", false) }, 1 => { feats.push("alias-to-existing-kind"); alias(sym("number"), "identifier", true) }, _ => sym("identifier") };
                need_attr = true;
                rules.push(("tag_stmt".into(), seq(vec![lit("tag"), tn, rep(field("attr", sym("_attr"))), lit(";")])));
                items.push(sym("tag_stmt"));
            }
            5 => {
                need_params = 1 + rng.below(3);
                let params = match need_params { 1 => { feats.push("field-on-hidden"); field("params", sym("_params")) }, 2 => { feats.push("hidden-with-fields"); sym("_params") }, _ => sym("params") };
                rules.push(("def_stmt".into(), seq(vec![lit("def"), field("name", sym("identifier")), params, field("body", sym("block"))])));
                items.push(sym("def_stmt"));
            }
            6 => {
                rules.push(("if_stmt".into(), seq(vec![lit("if"), field("cond", e()), field("then", sym("block")),
                    opt(seq(vec![lit("else"), field("else", choice(vec![sym("block"), sym("if_stmt")]))]))])));
                items.push(sym("if_stmt"));
            }
            _ => { rules.push(("expr_stmt".into(), seq(vec![lit("do"), e(), lit(";")]))); items.push(sym("expr_stmt")); }
        }
    }
    if need_type_expr {
        rules.push(("type_expr".into(), seq(vec![sym("identifier"), opt(seq(vec![lit("<"), sep1(",", field("arg", sym("identifier"))), lit(">")]))])));
    }
    if need_pair {
        rules.push(("_pair".into(), seq(vec![field("key", sym("identifier")), lit(":"), field("value", e())])));
    }
    if need_attr {
        let a = choice(vec![sym("number"), alias(sym("identifier"), "attr_name", true), seq(vec![lit("@"), field("deco", sym("identifier"))])]);
        rules.push(("_attr".into(), a));
        if rng.chance(1, 2) { inline.push(json!("_attr")); feats.push("inline"); } else { feats.push("hidden-with-fields"); }
    }
    if need_params > 0 {
        let p = if rng.chance(1, 2) { sym("identifier") } else { feats.push("alias-named"); alias(sym("identifier"), "param_name", true) };
        let nm = if need_params == 3 { "params" } else { "_params" };
        rules.push((nm.into(), seq(vec![lit("("), opt(sep1(",", field("param", p))), lit(")")])));
    }
    // expressions
    let mut alts = vec![sym("identifier"), sym("number")];
    if rng.chance(3, 4) { alts.push(sym("paren_expr")); rules.push(("paren_expr".into(), seq(vec![lit("("), e(), lit(")")]))); }
    if rng.chance(3, 4) {
        alts.push(sym("call_expr"));
        let hidden_args = rng.chance(1, 2);
        let an = if hidden_args { feats.push("field-on-hidden"); "_arg_list" } else { "arg_list" };
        rules.push(("call_expr".into(), prec(3, seq(vec![field("callee", sym("identifier")), field("args", sym(an))]))));
        if rng.chance(1, 2) {
            // hidden rule nested in a hidden rule under a field: quantities travel through two levels
            feats.push("nested-hidden");
            rules.push((an.into(), seq(vec![lit("("), opt(sym("_arg_items")), lit(")")])));
            let item = if rng.chance(1, 2) { e() } else { field("arg", e()) };
            rules.push(("_arg_items".into(), sep1(",", item)));
        } else {
            rules.push((an.into(), seq(vec![lit("("), opt(sep1(",", e())), lit(")")])));
        }
    }
    if rng.chance(3, 4) {
        alts.push(sym("binary_expr"));
        let opf = |s: &str| if s == "+" { field("op", lit("+")) } else { field("op", lit("*")) };
        rules.push(("binary_expr".into(), choice(vec![
            prec_left(1, seq(vec![field("left", e()), opf("+"), field("right", e())])),
            prec_left(2, seq(vec![field("left", e()), opf("*"), field("right", e())]))])));
    }
    // two differently shaped rules merged into ONE node type through an alias: `alias($.v_X, $.X)`;
    // the variant may be childless, have other fields, the same field with another type, or repeats
    if rng.chance(1, 2) {
        let names: Vec<String> = items.iter().filter_map(|v| v["name"].as_str().map(|x| x.to_string())).collect();
        for _ in 0..rng.range(1, 2) {
            let target = rng.pick(&names).clone();
            let vname = format!("v_{target}");
            if rules.iter().any(|(n, _)| *n == vname) { continue; }
            let kw = format!("v{}", target.replace('_', ""));
            let body = match rng.below(6) {
                0 => seq(vec![lit(&kw), lit(";")]),
                1 => seq(vec![lit(&kw), sym("identifier"), lit(";")]),
                2 => seq(vec![lit(&kw), field("extra", sym("number")), lit(";")]),
                3 => seq(vec![lit(&kw), field(*rng.pick(&["name", "value", "body", "cond", "attr"]), sym("number")), lit(";")]),
                4 => seq(vec![lit(&kw), rep(sym("number")), lit(";")]),
                _ => seq(vec![lit(&kw), opt(field("name", sym("identifier"))), opt(sym("number")), lit(";")]),
            };
            rules.push((vname.clone(), body));
            items.push(alias(sym(&vname), &target, true));
            feats.push("alias-merged-node-type");
        }
    }
    // a string literal, a named token rule and an alias target that SHARE A NAME (`"str"`, `str`,
    // alias(number, $.str)): the public symbol map must keep the anonymous and the named kind apart
    if rng.chance(1, 2) {
        feats.push("literal-and-named-token-share-name");
        rules.push(("str".into(), token(seq(vec![lit("\""), pat("[a-z]*"), lit("\"")]))));
        let v = match rng.below(3) { 0 => sym("str"), 1 => choice(vec![sym("str"), alias(sym("number"), "str", true)]), _ => choice(vec![sym("str"), alias(sym("identifier"), "str", false)]) };
        rules.push(("str_stmt".into(), seq(vec![lit("str"), field("v", v), lit(";")])));
        items.push(sym("str_stmt"));
        if rng.chance(1, 2) {
            // the same for `num`: keyword "num" and named token `num`
            rules.push(("num".into(), token(seq(vec![lit("0x"), pat("[0-9]+")]))));
            rules.push(("num_stmt".into(), seq(vec![lit("num"), sym("num"), lit(";")])));
            items.push(sym("num_stmt"));
        }
    }
    // a field on a hidden rule whose ONLY child is another hidden rule with repeated children:
    // the field's quantity has to travel through two hidden levels without any sibling token
    if rng.chance(1, 3) {
        feats.push("nested-hidden");
        let inner = if rng.chance(1, 2) { e() } else { sym("number") };
        rules.push(("_tup_items".into(), seq(vec![inner.clone(), rep(seq(vec![lit(","), inner]))])));
        rules.push(("_tup_wrap".into(), choice(vec![sym("_tup_items"), lit("nil")])));
        let body = if rng.chance(2, 3) { field("items", sym("_tup_wrap")) } else { sym("_tup_wrap") };
        rules.push(("tup_stmt".into(), seq(vec![lit("tup"), body, lit(";")])));
        items.push(sym("tup_stmt"));
    }
    // alias nesting through inlining: an INLINED rule used under an alias, whose body contains symbols
    // that carry their own alias (rule or token) and plain ones of a different shape; the inner-aliased
    // rule is also used un-aliased elsewhere, so its alias does not become a default alias
    if rng.chance(1, 2) {
        feats.push("alias-of-inlined-with-inner-alias");
        rules.push(("rec_pair".into(), seq(vec![field("key", sym("identifier")), lit(":"), field("value", e())])));
        rules.push(("rec_group".into(), seq(vec![lit("["), rep(field("member", sym("identifier"))), opt(sym("number")), lit("]")])));
        let inner = match rng.below(3) {
            0 => alias(sym("rec_group"), "bundle", true),
            1 => alias(sym("rec_group"), "rec_pair", true),
            _ => alias(sym("rec_group"), "bundle", false),
        };
        let mut alts2 = vec![sym("rec_pair"), inner];
        if rng.chance(1, 2) { alts2.push(alias(sym("number"), "rec_num", true)); }
        // (a multi-step alternative here would be aliased step by step after inlining — see the
        // known finding aliased-inline-multistep in corpus/c16.txt; kept out of the random family)
        rules.push(("_rec_entry".into(), choice(alts2)));
        inline.push(json!("_rec_entry"));
        let outer = match rng.below(3) { 0 => "record", 1 => "rec_pair", _ => "rec_group" };
        let body = if rng.chance(1, 2) { alias(sym("_rec_entry"), outer, true) } else { field("entry", alias(sym("_rec_entry"), outer, true)) };
        rules.push(("rec_stmt".into(), seq(vec![lit("rec"), body, lit(";")])));
        items.push(sym("rec_stmt"));
        rules.push(("grp_stmt".into(), seq(vec![lit("grp"), sym("rec_group"), opt(sym("rec_pair")), lit(";")])));
        items.push(sym("grp_stmt"));
        if rng.chance(1, 2) {
            // the inlined rule is also used without the outer alias
            rules.push(("ent_stmt".into(), seq(vec![lit("ent"), sym("_rec_entry"), lit(";")])));
            items.push(sym("ent_stmt"));
        }
    }
    // alias CHAINS over a default-aliased name: `ch_b` is ALWAYS used as alias($.ch_b, $.ch_a), so `ch_a` becomes its
    // default alias (the symbol `ch_b` is published under the name `ch_a`) and the NAME `ch_b` is free again; another
    // rule `ch_c` is used as alias($.ch_c, $.ch_b) and also un-aliased.  The alias `ch_b` must be a symbol of its own,
    // not the (renamed) symbol of the rule `ch_b`.  Rules or tokens, named or anonymous aliases.
    if rng.chance(1, 2) {
        feats.push("alias-chain-over-default-aliased-name");
        let as_tokens = rng.chance(1, 2);
        if as_tokens {
            rules.push(("ch_b".into(), token(seq(vec![lit("@"), pat("[0-9]+")]))));
            rules.push(("ch_c".into(), token(seq(vec![lit("$"), pat("[a-z]+")]))));
        } else {
            rules.push(("ch_b".into(), seq(vec![lit("@["), field("n", sym("number")), lit("]")])));
            rules.push(("ch_c".into(), seq(vec![lit("$<"), rep(sym("identifier")), lit(">")])));
        }
        let named = rng.chance(3, 4);
        rules.push(("cha_stmt".into(), seq(vec![lit("cha"), alias(sym("ch_b"), "ch_a", named), lit(";")])));
        let second = if rng.chance(1, 2) { alias(sym("ch_c"), "ch_b", named) } else { field("link", alias(sym("ch_c"), "ch_b", named)) };
        rules.push(("chb_stmt".into(), seq(vec![lit("chb"), second, lit(";")])));
        rules.push(("chc_stmt".into(), seq(vec![lit("chc"), sym("ch_c"), opt(alias(sym("ch_b"), "ch_a", named)), lit(";")])));
        items.push(sym("cha_stmt")); items.push(sym("chb_stmt")); items.push(sym("chc_stmt"));
        if rng.chance(1, 3) {
            // a third link: `ch_d` aliased to the (free) name `ch_c`?  no — `ch_c` is used un-aliased, so this is an
            // alias to an EXISTING kind (node types merge)
            rules.push(("ch_d".into(), seq(vec![lit("%%"), sym("number")])));
            rules.push(("chd_stmt".into(), seq(vec![lit("chd"), alias(sym("ch_d"), "ch_c", true), lit(";")])));
            items.push(sym("chd_stmt"));
        }
    }
    // a field list that contains the expression rule (a SUPERTYPE in a third of the grammars) next to ANONYMOUS
    // literals whose text equals the name of one of its (named) subtypes: `type: choice($._expr, "number", …)`
    if rng.chance(1, 2) {
        feats.push("literal-named-like-subtype");
        let mut members = vec![e()];
        let sub_names: Vec<String> = alts.iter().filter_map(|a| a["name"].as_str().map(|x| x.to_string())).collect();
        for _ in 0..rng.range(1, 2) { let n = rng.pick(&sub_names).clone(); if !members.iter().any(|m| m["value"].as_str() == Some(n.as_str())) { members.push(lit(&n)); } }
        let body = match rng.below(3) {
            0 => field("type", choice(members)),
            1 => seq(vec![field("type", choice(members.clone())), opt(seq(vec![lit("|"), field("type", choice(members))]))]),
            _ => choice(vec![field("type", members[0].clone()), field("kind", choice(members[1..].to_vec()))]),
        };
        rules.push(("ty_stmt".into(), seq(vec![lit("ty"), body, lit(";")])));
        items.push(sym("ty_stmt"));
    }
    rules.push((expr_name.into(), choice(alts)));
    if expr_mode == 0 { supertypes.push(json!("_expr")); feats.push("supertype"); }
    let item_super = rng.chance(1, 3);
    if item_super { supertypes.push(json!("_item")); feats.push("supertype"); } else if rng.chance(1, 4) { inline.push(json!("_item")); feats.push("inline"); }
    rules.push(("identifier".into(), pat("[a-z]+")));
    rules.push(("number".into(), pat("[0-9]+")));
    let mut extras = vec![pat("\\s+")];
    if rng.chance(1, 2) {
        rules.push(("comment".into(), token(seq(vec![lit("#"), pat("[^\\n]*")]))));
        extras.push(sym("comment"));
        feats.push("extra-token");
    }
    if rng.chance(1, 3) {
        // a NON-TERMINAL extra (may appear anywhere, has children of its own)
        rules.push(("pragma".into(), seq(vec![lit("%"), field("what", sym("identifier")), opt(sym("number")), lit("%")])));
        extras.push(sym("pragma"));
        feats.push("extra-nonterminal");
    }
    let mut all: Vec<(String, Value)> = vec![("source_file".into(), rep(sym("_item"))), ("_item".into(), choice(items))];
    all.extend(rules);
    let mut map = serde_json::Map::new();
    for (k, v) in all { map.insert(k, v); }
    let mut g = json!({"name": name, "rules": Value::Object(map), "extras": extras, "conflicts": [], "precedences": [],
                       "externals": [], "inline": inline, "supertypes": supertypes});
    if rng.chance(1, 2) { g["word"] = json!("identifier"); feats.push("word"); }
    (serde_json::to_string(&g).unwrap(), feats)
}

/// Small grammars made of a CHAIN of unit rules over hidden rules with a recursive bottom, mostly declared top-down:
/// the node-type information of the upper rules then needs several passes of the generator's fixed-point loop, and
/// single quantities (total children, children without fields, one field) can settle in different passes — nothing
/// else in such a small grammar keeps the loop alive.
fn chain_grammar(rng: &mut Rng, name: &str) -> String {
    let mut rules: Vec<(String, Value)> = Vec::new();
    let n_top = rng.below(4);
    let mut names: Vec<String> = (0..n_top).map(|i| format!("top{i}")).collect();
    names.push("wrapper".into());
    let hidden_mid = rng.chance(1, 3);
    let below = if hidden_mid { "_m" } else { "_c" };
    for (i, n) in names.iter().enumerate() {
        let next = if i + 1 < names.len() { names[i + 1].clone() } else { below.to_string() };
        let body = match rng.below(6) {
            0 => seq(vec![lit(&format!("k{i}")), sym(&next)]),
            1 => seq(vec![sym(&next), lit(&format!("e{i}"))]),
            2 if i + 1 == names.len() => field("body", sym(&next)),
            _ => sym(&next),
        };
        rules.push((n.clone(), body));
    }
    if hidden_mid { rules.push(("_m".into(), choice(vec![sym("_c"), seq(vec![lit("("), sym("_c"), lit(")")])]))); }
    let base = |rng: &mut Rng| if rng.chance(1, 4) { field("item", sym("name")) } else { sym("name") };
    let mut c_alts = vec![sym("_d")];
    if rng.chance(3, 4) { let b = base(rng); c_alts.push(seq(vec![b, lit(";")])); }
    if rng.chance(1, 3) { let b = base(rng); c_alts.push(seq(vec![lit("<"), b, lit(">")])); }
    if rng.chance(1, 4) { let (b1, b2) = (base(rng), base(rng)); c_alts.push(seq(vec![lit("["), b1, b2, lit("]")])); }
    if rng.chance(1, 2) { c_alts.rotate_left(1); }
    rules.push(("_c".into(), choice(c_alts)));
    let (b1, b2) = (base(rng), base(rng));
    let rec_alt = match rng.below(4) {
        0 => seq(vec![b2, sym("_d")]),
        1 => seq(vec![sym("_d"), lit(","), b2]),
        _ => seq(vec![sym("_d"), b2]),
    };
    let d_alts = if rng.chance(1, 2) { vec![b1, rec_alt] } else { vec![rec_alt, b1] };
    rules.push(("_d".into(), choice(d_alts)));
    // declared top-down, sometimes with the rules below the start rule shuffled
    if rng.chance(1, 4) && rules.len() > 2 {
        for i in (2..rules.len()).rev() { let j = 1 + rng.below(i); rules.swap(i, j); }
    }
    rules.push(("name".into(), pat("[a-z]+")));
    let mut map = serde_json::Map::new();
    for (k, v) in rules { map.insert(k, v); }
    serde_json::to_string(&json!({"name": name, "rules": Value::Object(map), "extras": [pat("\\s")], "conflicts": [], "precedences": [],
                                  "externals": [], "inline": [], "supertypes": []})).unwrap()
}

fn emit_docs(l: &Lang, rng: &mut Rng, n_docs: usize, sizes: &[usize], ops: &mut impl Write, list: &mut impl Write, case_no: &mut usize) {
    let gg = gen::GrammarGen::new(&l.grammar_json, l.samples.as_deref());
    for d in 0..n_docs {
        let budget = sizes[d % sizes.len()];
        let toks = gg.sentence(rng, budget);
        let (mut text, _) = gg.render(&toks, rng);
        if text.len() > 60_000 { text.truncate(60_000); }
        *case_no += 1;
        let cid = format!("T-{}-{}", l.id, *case_no);
        let h = if text.is_empty() { "-".to_string() } else { hex(&text) };
        writeln!(ops, "spec {cid} {} {h}", l.spec).unwrap();
        writeln!(ops, "doc {cid} {} tokens={}", l.id, toks.len()).unwrap();
        writeln!(list, "doc {cid} {h}").unwrap();
    }
}

fn lang_from_spec(work: &Path, id: &str, spec: &str, ops: &mut impl Write, list: &mut impl Write) -> Result<Lang, String> {
    if let Some(z) = spec.strip_prefix("zoo:") {
        let d = zoo::zoo_dir(z);
        let json = std::fs::read_to_string(d.join("grammar.json")).map_err(|e| format!("{z}: {e}"))?;
        let scanner = std::fs::read_to_string(d.join("scanner.c")).ok();
        build(work, id, spec, &json, scanner.as_deref(), zoo::read_zoo_file(z, "samples.json"), ops, list)
    } else if let Some(h) = spec.strip_prefix("json:") {
        let json = String::from_utf8(unhex(h)).map_err(|e| e.to_string())?;
        build(work, id, spec, &json, None, None, ops, list)
    } else {
        Err(format!("bad language spec {spec}"))
    }
}

fn main() {
    limit_resources();
    let args: Vec<String> = std::env::args().collect();
    let ops_path = PathBuf::from(args.get(1).expect("usage: c16 <ops> <list> [--spec file]"));
    let list_path = PathBuf::from(args.get(2).expect("usage: c16 <ops> <list> [--spec file]"));
    let work = ops_path.parent().unwrap().to_path_buf();
    let mut ops = std::io::BufWriter::new(std::fs::File::create(&ops_path).unwrap());
    let mut list = std::io::BufWriter::new(std::fs::File::create(&list_path).unwrap());
    let mut case_no = 0usize;
    let mut run_spec_lines = |text: &str, prefix: &str, ops: &mut std::io::BufWriter<std::fs::File>, list: &mut std::io::BufWriter<std::fs::File>, case_no: &mut usize| {
        for (i, line) in text.lines().enumerate() {
            let line = line.trim();
            if line.is_empty() || line.starts_with('#') { continue; }
            let parts: Vec<&str> = line.split_whitespace().collect();
            let (spec, doc) = (parts[0], parts.get(1).copied().unwrap_or("@"));
            let id = format!("{prefix}{i}");
            match lang_from_spec(&work, &id, spec, ops, list) {
                Ok(l) => {
                    if doc != "@" {
                        *case_no += 1;
                        let cid = format!("T-{}-{}", l.id, *case_no);
                        writeln!(ops, "spec {cid} {spec} {doc}").unwrap();
                        writeln!(ops, "doc {cid} {} tokens=0", l.id).unwrap();
                        writeln!(list, "doc {cid} {doc}").unwrap();
                    }
                }
                Err(e) => { writeln!(ops, "skip {id} {}", e.replace('\n', " ")).unwrap(); }
            }
        }
    };
    if args.get(3).map(|s| s == "--spec").unwrap_or(false) {
        let text = std::fs::read_to_string(&args[4]).unwrap();
        run_spec_lines(&text, "r", &mut ops, &mut list, &mut case_no);
        ops.flush().unwrap();
        list.flush().unwrap();
        eprintln!("c16: replayed");
        return;
    }
    if let Some(c) = zoo_corpus("c16") {
        run_spec_lines(&c, "c", &mut ops, &mut list, &mut case_no);
    }
    let mut rng = Rng::new(seed_from_env());
    let thorough = tier_is_thorough();
    let (docs_zoo, n_random, docs_rnd) = if thorough { (30, 300, 20) } else { (6, 60, 6) };
    let sizes: Vec<usize> = if thorough { vec![10, 30, 100, 300, 1000, 60] } else { vec![10, 30, 100, 300, 1000, 20] };
    let mut built = 0usize;
    let mut rejected = 0usize;
    for z in zoo::list() {
        let id = z.replace('-', "_");
        match lang_from_spec(&work, &id, &format!("zoo:{z}"), &mut ops, &mut list) {
            Ok(l) => { built += 1; emit_docs(&l, &mut rng, docs_zoo, &sizes, &mut ops, &mut list, &mut case_no); }
            Err(e) => { rejected += 1; writeln!(ops, "skip {id} {}", e.replace('\n', " ")).unwrap(); }
        }
    }
    let mut rnd_built = 0usize;
    for k in 0..n_random {
        let mut grng = rng.fork();
        let name = format!("rg{}_{}", seed_from_env() % 100000, k);
        let (json, feats) = random_grammar(&mut grng, &name);
        let spec = format!("json:{}", hex(json.as_bytes()));
        // documents: separators sometimes contain the grammar's extras
        let mut ws = vec![" ", "\n", "  "];
        if feats.contains(&"extra-token") { ws.push(" # note\n"); }
        if feats.contains(&"extra-nonterminal") { ws.push(" % ab % "); ws.push(" % cd 12 %\n"); }
        let samples = serde_json::to_string(&json!({"whitespace": ws})).unwrap();
        match build(&work, &name, &spec, &json, None, Some(samples), &mut ops, &mut list) {
            Ok(l) => {
                rnd_built += 1;
                writeln!(ops, "feat {name} {}", feats.join(",")).unwrap();
                emit_docs(&l, &mut rng, docs_rnd, &sizes, &mut ops, &mut list, &mut case_no);
            }
            Err(e) => { rejected += 1; writeln!(ops, "skip {name} {}", e.replace('\n', " ").chars().take(200).collect::<String>()).unwrap(); }
        }
    }
    // chains of unit rules over hidden recursive rules (own random stream: the families above keep their grammars)
    let mut crng = Rng::new(seed_from_env() ^ 0x5eed_c4a1);
    let n_chain = if thorough { 160 } else { 48 };
    for k in 0..n_chain {
        let mut grng = crng.fork();
        let name = format!("hc{}_{}", seed_from_env() % 100000, k);
        let json = chain_grammar(&mut grng, &name);
        let spec = format!("json:{}", hex(json.as_bytes()));
        match build(&work, &name, &spec, &json, None, None, &mut ops, &mut list) {
            Ok(l) => { rnd_built += 1; writeln!(ops, "feat {name} hidden-chain").unwrap(); emit_docs(&l, &mut crng, 4, &[6, 12, 30, 8], &mut ops, &mut list, &mut case_no); }
            Err(e) => { rejected += 1; writeln!(ops, "skip {name} {}", e.replace('\n', " ").chars().take(200).collect::<String>()).unwrap(); }
        }
    }
    ops.flush().unwrap();
    list.flush().unwrap();
    eprintln!("c16: {built} zoo + {rnd_built} random languages built, {rejected} rejected by the generator, {case_no} documents");
}
