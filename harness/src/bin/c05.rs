//! C05 explorer: generated queries compiled by the real `Query::new` and run with
//! `QueryCursor::matches` to exhaustion (match limit unbounded) on real trees; the visible tree is
//! dumped through a cursor walk so the Lean matcher (`tsv-c05`) sees what the API shows.
//! usage: c05 <ops-file> [--spec <file>] [lang...]
//! spec / corpus line: `<lang> <texthex|-> <queryhex>`.
//!
//! Case format:
//!   case <id> / haserror <0|1> / query <hex> / compile ok | compile err <offset> <kind> <srclen> | compile crash
//!   n <id> <named> <missing> <error> <extra> <sb> <eb> <nchildren> <kindhex> <fieldhex|->   (preorder)
//!   caps <name>*            capture names by index
//!   m <pattern> <ncaps> (<capindex> <nodeid>)*
//!   run
use std::collections::HashMap;
use std::fmt::Write as _;
use std::io::Write;
use tree_sitter::{Language, Node, Parser, Query, QueryCursor, QueryErrorKind, StreamingIterator, Tree};
use tsv_harness::*;

extern "C" {
    // the function of lib/src/tree_cursor.c the query cursor itself asks for a node's field,
    // sibling status and hidden supertype chain
    fn ts_tree_cursor_current_status(
        cursor: *const tree_sitter::ffi::TSTreeCursor,
        field_id: *mut u16,
        has_later_siblings: *mut bool,
        has_later_named_siblings: *mut bool,
        can_have_later_siblings_with_this_field: *mut bool,
        supertypes: *mut u16,
        supertype_count: *mut u32,
    );
}

/// Names of the hidden supertype nodes between the cursor's node and its visible parent.
fn supertypes_at(cursor: &tree_sitter::TreeCursor, lang: &Language) -> Vec<String> {
    let mut field = 0u16;
    let (mut a, mut b, mut c) = (false, false, false);
    let mut sups = [0u16; 8];
    let mut n = 8u32;
    unsafe {
        // TreeCursor is a newtype around ffi::TSTreeCursor
        let raw = cursor as *const tree_sitter::TreeCursor as *const tree_sitter::ffi::TSTreeCursor;
        ts_tree_cursor_current_status(raw, &mut field, &mut a, &mut b, &mut c, sups.as_mut_ptr(), &mut n);
    }
    sups[..(n as usize).min(8)].iter().filter_map(|s| lang.node_kind_for_id(*s).map(|x| x.to_string())).collect()
}

fn quote(s: &str) -> String {
    let mut o = String::from("\"");
    for ch in s.chars() {
        match ch {
            '"' => o.push_str("\\\""),
            '\\' => o.push_str("\\\\"),
            '\n' => o.push_str("\\n"),
            '\r' => o.push_str("\\r"),
            '\t' => o.push_str("\\t"),
            '\0' => o.push_str("\\0"),
            c => o.push(c),
        }
    }
    o.push('"');
    o
}

struct QGen {
    named_kinds: Vec<String>,
    anon_kinds: Vec<String>,
    fields: Vec<String>,
    quant_ok: bool,
    sup_of: HashMap<usize, Vec<String>>,
    lang: Language,
    lang_supertypes: Vec<String>,
}

impl QGen {
    fn new(lang: &Language) -> Self {
        let mut named_kinds = Vec::new();
        let mut anon_kinds = Vec::new();
        for id in 0..lang.node_kind_count() as u16 {
            if !lang.node_kind_is_visible(id) {
                continue;
            }
            if let Some(k) = lang.node_kind_for_id(id) {
                if lang.node_kind_is_named(id) {
                    if k != "ERROR" && !k.starts_with('_') && !named_kinds.contains(&k.to_string()) {
                        named_kinds.push(k.to_string());
                    }
                } else if k != "end" && !anon_kinds.contains(&k.to_string()) {
                    anon_kinds.push(k.to_string());
                }
            }
        }
        let mut fields = Vec::new();
        for f in 1..=lang.field_count() as u16 {
            if let Some(n) = lang.field_name_for_id(f) {
                fields.push(n.to_string());
            }
        }
        let lang_supertypes: Vec<String> = lang.supertypes().iter().filter_map(|s| lang.node_kind_for_id(*s).map(|x| x.to_string())).collect();
        QGen { named_kinds, anon_kinds, fields, quant_ok: true, sup_of: HashMap::new(), lang: lang.clone(), lang_supertypes }
    }

    fn capture(&self, rng: &mut Rng) -> String {
        format!(" @c{}", rng.below(4))
    }

    /// A pattern for `node` (no field prefix, no quantifier, no capture).
    fn pat(&self, rng: &mut Rng, node: &Node, depth: usize) -> Option<String> {
        if node.is_missing() {
            return Some(match rng.below(3) {
                0 => "(MISSING)".to_string(),
                _ => {
                    if node.is_named() {
                        format!("(MISSING {})", node.kind())
                    } else {
                        format!("(MISSING {})", quote(node.kind()))
                    }
                }
            });
        }
        if !node.is_named() {
            return Some(if rng.chance(1, 6) { "_".to_string() } else { quote(node.kind()) });
        }
        if rng.chance(1, 10) && !node.is_error() && (depth == 0 || rng.chance(1, 2)) {
            return Some("(_)".to_string());
        }
        if rng.chance(1, 10) && !node.is_error() && !self.named_kinds.is_empty() {
            // alternation; one branch is derived from the node, the other is random
            let a = self.pat_node(rng, node, depth.min(1))?;
            let b = if rng.chance(1, 3) && !self.anon_kinds.is_empty() { quote(rng.pick(&self.anon_kinds).as_str()) } else { format!("({})", rng.pick(&self.named_kinds)) };
            let (x, y) = if rng.chance(1, 2) { (a, b) } else { (b, a) };
            let cx = if rng.chance(1, 3) { self.capture(rng) } else { String::new() };
            return Some(format!("[{x}{cx} {y}]"));
        }
        self.pat_node(rng, node, depth)
    }

    fn pat_node(&self, rng: &mut Rng, node: &Node, depth: usize) -> Option<String> {
        let sups = self.sup_of.get(&node.id()).cloned().unwrap_or_default();
        let mut s = if node.is_error() {
            "(ERROR".to_string()
        } else if !sups.is_empty() && rng.chance(1, 3) {
            // through a supertype: `(sup …)` or `(sup/kind …)`
            let sup = rng.pick(&sups).clone();
            if rng.chance(1, 2) { format!("({sup}") } else { format!("({sup}/{}", node.kind()) }
        } else if !self.sup_of.is_empty() && rng.chance(1, 25) {
            // a supertype the node does not go through (mostly no match / rejected subtype)
            let any: Vec<&String> = self.sup_of.values().flatten().collect();
            format!("({}/{}", rng.pick(&any), node.kind())
        } else if rng.chance(1, 14) {
            "(_".to_string()
        } else if rng.chance(1, 12) && !self.named_kinds.is_empty() {
            // perturbation: a different kind (often impossible -> compile verdicts, non-matches)
            format!("({}", rng.pick(&self.named_kinds))
        } else {
            format!("({}", node.kind())
        };
        if depth > 0 {
            let mut cur = node.walk();
            let mut kids: Vec<(Node, Option<String>)> = Vec::new();
            if cur.goto_first_child() {
                loop {
                    kids.push((cur.node(), cur.field_name().map(|s| s.to_string())));
                    if !cur.goto_next_sibling() {
                        break;
                    }
                }
            }
            let mut chosen = 0;
            let mut open_group = 0;
            let nk = kids.len();
            for (i, (k, f)) in kids.iter().enumerate() {
                if chosen >= 3 {
                    break;
                }
                let p = if k.is_named() { 2 } else { 5 };
                if k.is_extra() && !rng.chance(1, 3) {
                    continue;
                }
                if !rng.chance(1, p) {
                    continue;
                }
                let sub = match self.pat(rng, k, depth - 1) {
                    Some(x) => x,
                    None => continue,
                };
                if rng.chance(1, 7) {
                    s.push_str(" .");
                }
                s.push(' ');
                if open_group == 0 && rng.chance(1, 9) {
                    // a plain group: the next two child patterns as one parenthesised sequence
                    s.push('(');
                    open_group = 2;
                }
                if let Some(f) = f {
                    if rng.chance(2, 3) {
                        s.push_str(f.as_str());
                        s.push_str(": ");
                    }
                }
                s.push_str(&sub);
                if self.quant_ok && rng.chance(1, 3) {
                    s.push_str(*rng.pick(&["+", "*", "?"]));
                }
                if rng.chance(1, 2) {
                    let c = self.capture(rng);
                    s.push_str(&c);
                }
                chosen += 1;
                if open_group > 0 {
                    open_group -= 1;
                    if open_group == 0 {
                        s.push(')');
                        // quantified / captured groups
                        if self.quant_ok && rng.chance(1, 3) {
                            s.push_str(*rng.pick(&["+", "*", "?"]));
                        }
                        if rng.chance(1, 3) {
                            let c = self.capture(rng);
                            s.push_str(&c);
                        }
                    }
                }
                if (i + 1 == nk || chosen == 3) && open_group == 0 && rng.chance(1, 7) {
                    s.push_str(" .");
                }
            }
            if open_group > 0 {
                s.push(')');
            }
            if !self.fields.is_empty() && rng.chance(1, 10) {
                let f = rng.pick(&self.fields).clone();
                s.push_str(&format!(" !{f}"));
            }
        }
        s.push(')');
        Some(s)
    }
}

fn all_nodes<'t>(tree: &'t Tree) -> Vec<Node<'t>> {
    let mut v = Vec::new();
    let mut c = tree.walk();
    'outer: loop {
        v.push(c.node());
        if c.goto_first_child() {
            continue;
        }
        loop {
            if c.goto_next_sibling() {
                break;
            }
            if !c.goto_parent() {
                break 'outer;
            }
        }
    }
    v
}

/// Family 1: several patterns whose negated-field lists are related (sub-lists, suffixes, prefixes,
/// permutations of one base list) — the compiler shares identical lists between patterns.
fn gen_negated_family(rng: &mut Rng, g: &QGen, named: &[&Node]) -> Option<String> {
    if g.fields.len() < 2 {
        return None;
    }
    // base list: 2-3 distinct fields in random order
    let mut base: Vec<String> = Vec::new();
    let want = 2 + rng.below(2);
    for _ in 0..8 {
        let f = rng.pick(&g.fields).clone();
        if !base.contains(&f) {
            base.push(f);
        }
        if base.len() == want {
            break;
        }
    }
    let npat = 2 + rng.below(3);
    let mut q = String::new();
    for _ in 0..npat {
        let list: Vec<String> = match rng.below(5) {
            0 => base.clone(),
            1 => base[rng.range(1, base.len() - 1)..].to_vec(), // proper suffix
            2 => base[..rng.range(1, base.len() - 1)].to_vec(), // proper prefix
            3 => vec![rng.pick(&base).clone()],
            _ => {
                let mut l = base.clone();
                l.reverse();
                l
            }
        };
        let head = if rng.chance(1, 2) {
            "_".to_string()
        } else {
            // the kind of a node that has at least one field child, else any named node
            let with_field: Vec<&&Node> = named.iter().filter(|n| {
                let mut c = n.walk();
                let mut has = false;
                if c.goto_first_child() {
                    loop {
                        if c.field_name().is_some() {
                            has = true;
                            break;
                        }
                        if !c.goto_next_sibling() {
                            break;
                        }
                    }
                }
                has
            }).collect();
            if with_field.is_empty() || rng.chance(1, 4) { rng.pick(named).kind().to_string() } else { rng.pick(&with_field).kind().to_string() }
        };
        if head == "ERROR" {
            continue;
        }
        let negs: String = list.iter().map(|f| format!(" !{f}")).collect();
        let cap = if rng.chance(2, 3) { g.capture(rng) } else { String::new() };
        q.push_str(&format!("({head}{negs}){cap}\n"));
    }
    if q.is_empty() {
        None
    } else {
        Some(q)
    }
}

/// Family 2: a window of adjacent named children of one parent, joined by anchors, taken from a
/// random offset (not only the first children), captures on none / first / last / all elements.
fn gen_sibling_window(rng: &mut Rng, g: &QGen, named: &[&Node]) -> Option<String> {
    let parents: Vec<&&Node> = named.iter().filter(|n| n.named_child_count() >= 3 && !n.is_error()).collect();
    if parents.is_empty() {
        return None;
    }
    let p = **rng.pick(&parents);
    let mut cur = p.walk();
    let kids: Vec<Node> = p.named_children(&mut cur).collect();
    let w = 2 + rng.below(2).min(kids.len() - 2);
    let off = rng.below(kids.len() - w + 1);
    let capmode = rng.below(4); // 0 none, 1 first, 2 last, 3 all
    let mut s = format!("({}", p.kind());
    if rng.chance(1, 5) {
        s.push_str(" .");
    }
    // sometimes an optional / starred element of some kind in front of the (anchored) window: when it
    // matches nothing its anchor is waived and a trailing anchor moves to the last matched node
    let mut lead_opt = false;
    if rng.chance(1, 3) && !g.named_kinds.is_empty() {
        let k = if rng.chance(1, 2) && off > 0 { kids[off - 1].kind().to_string() } else { rng.pick(&g.named_kinds).clone() };
        s.push_str(&format!(" ({k}){}", rng.pick(&["?", "*"])));
        if rng.chance(1, 3) {
            s.push_str(&g.capture(rng));
        }
        lead_opt = true;
    }
    for i in 0..w {
        let k = &kids[off + i];
        if k.is_missing() || k.is_error() {
            return None;
        }
        if i == 0 && lead_opt && rng.chance(3, 4) {
            s.push_str(" .");
        }
        if i > 0 {
            // mostly anchored, sometimes a plain sibling
            if rng.chance(4, 5) {
                s.push_str(" .");
            }
        }
        s.push(' ');
        let sub = if rng.chance(1, 4) { g.pat_node(rng, k, 1)? } else if rng.chance(1, 6) { "(_)".to_string() } else { format!("({})", k.kind()) };
        s.push_str(&sub);
        let cap = match capmode {
            1 => i == 0,
            2 => i + 1 == w,
            3 => true,
            _ => false,
        };
        if cap {
            s.push_str(&g.capture(rng));
        }
    }
    let mut trailing_opt = false;
    if rng.chance(1, 2) && !g.named_kinds.is_empty() {
        // an optional / starred last element: when it matches nothing a trailing anchor applies to
        // the last node that did match
        let k = if rng.chance(1, 2) && off + w < kids.len() { kids[off + w].kind().to_string() } else { rng.pick(&g.named_kinds).clone() };
        s.push_str(&format!(" ({k}){}", rng.pick(&["?", "*"])));
        trailing_opt = true;
    }
    if rng.chance(if trailing_opt { 4 } else { 1 }, 6) {
        s.push_str(" .");
    }
    s.push(')');
    let cap = if rng.chance(1, 2) { g.capture(rng) } else { String::new() };
    Some(format!("{s}{cap}\n"))
}

/// Family 3: a parent with several children of one kind; the pattern describes (uncaptured, with
/// child patterns of its own) one of the LATER ones, so a state that commits to the first child of
/// that kind fails inside it — the matcher has to keep the choice open (state splitting / fallibility).
fn gen_late_child(rng: &mut Rng, g: &QGen, named: &[&Node]) -> Option<String> {
    let mut cands: Vec<(Node, Node)> = Vec::new();
    for p in named.iter() {
        if p.is_error() || p.named_child_count() < 2 {
            continue;
        }
        let mut cur = p.walk();
        let kids: Vec<Node> = p.named_children(&mut cur).collect();
        for (i, k) in kids.iter().enumerate() {
            if i > 0 && k.child_count() > 0 && !k.is_error() && kids[..i].iter().any(|e| e.kind_id() == k.kind_id()) {
                cands.push((**p, *k));
            }
        }
    }
    if cands.is_empty() {
        return None;
    }
    let (p, k) = *rng.pick(&cands);
    // the child pattern: kind + patterns of (some of) its children, no captures inside
    let mut cur = k.walk();
    let gk: Vec<Node> = k.children(&mut cur).collect();
    let mut inner = format!("({}", k.kind());
    let mut n = 0;
    for c in gk.iter() {
        if n >= 2 || c.is_missing() || c.is_error() {
            continue;
        }
        if c.is_named() && rng.chance(2, 3) {
            inner.push_str(&format!(" ({})", c.kind()));
            n += 1;
        } else if !c.is_named() && rng.chance(1, 3) {
            inner.push(' ');
            inner.push_str(&quote(c.kind()));
            n += 1;
        }
    }
    inner.push(')');
    let mut s = format!("({} {inner}", p.kind());
    if rng.chance(1, 3) {
        // a further, unspecific sibling after it
        s.push_str(" (_)");
        if rng.chance(1, 2) {
            s.push_str(&g.capture(rng));
        }
    }
    s.push(')');
    let cap = if rng.chance(2, 3) { g.capture(rng) } else { String::new() };
    Some(format!("{s}{cap}\n"))
}

/// Family 4: an EXTRA node (comment) as a child pattern, captured and anchored before / after /
/// on both sides, optionally with the neighbouring sibling as a further child pattern.  Extras are
/// real siblings for anchors and last-child tests; their sibling status goes through the
/// structural-index bookkeeping of the tree cursor (alias sequences skip extras).
fn gen_extra_anchor(rng: &mut Rng, g: &QGen, nodes: &[Node]) -> Option<String> {
    let extras: Vec<&Node> = nodes.iter().filter(|n| n.is_extra() && n.is_named() && !n.is_error() && !n.is_missing() && n.parent().is_some()).collect();
    if extras.is_empty() {
        return None;
    }
    let x = **rng.pick(&extras);
    let p = x.parent()?;
    if p.is_error() {
        return None;
    }
    let prev = x.prev_sibling();
    let next = x.next_sibling();
    let simple = |n: &Node| -> Option<String> {
        if n.is_error() || n.is_missing() {
            None
        } else if n.is_named() {
            Some(format!("({})", n.kind()))
        } else {
            Some(quote(n.kind()))
        }
    };
    let mut s = format!("({}", p.kind());
    let xcap = if rng.chance(3, 4) { g.capture(rng) } else { String::new() };
    match rng.below(6) {
        0 => s.push_str(&format!(" ({}){xcap} .", x.kind())),                    // last-child test on the extra
        1 => s.push_str(&format!(" . ({}){xcap}", x.kind())),                    // first-child test
        2 => s.push_str(&format!(" . ({}){xcap} .", x.kind())),
        3 => {
            // the sibling before it, anchored
            match prev.as_ref().and_then(simple) {
                Some(a) => s.push_str(&format!(" {a} . ({}){xcap}{}", x.kind(), if rng.chance(1, 2) { " ." } else { "" })),
                None => s.push_str(&format!(" ({}){xcap} .", x.kind())),
            }
        }
        4 => {
            // the sibling after it, anchored
            match next.as_ref().and_then(simple) {
                Some(b) => s.push_str(&format!("{} ({}){xcap} . {b}{}", if rng.chance(1, 3) { " ." } else { "" }, x.kind(), if rng.chance(1, 3) { g.capture(rng) } else { String::new() })),
                None => s.push_str(&format!(" ({}){xcap} .", x.kind())),
            }
        }
        _ => {
            // unanchored pair with a neighbour, trailing anchor on whichever comes last
            match next.as_ref().and_then(simple) {
                Some(b) => s.push_str(&format!(" ({}){xcap} {b} .", x.kind())),
                None => s.push_str(&format!(" ({}){xcap}", x.kind())),
            }
        }
    }
    s.push(')');
    let cap = if rng.chance(1, 2) { g.capture(rng) } else { String::new() };
    Some(format!("{s}{cap}\n"))
}

/// Family 5: patterns for the MISSING (zero-width) nodes the parser inserted: the wildcard form
/// `(MISSING)`, the typed forms, alone or as a child of the actual parent, with and without anchors.
fn gen_missing(rng: &mut Rng, g: &QGen, nodes: &[Node]) -> Option<String> {
    let missing: Vec<&Node> = nodes.iter().filter(|n| n.is_missing()).collect();
    if missing.is_empty() {
        return None;
    }
    let m = **rng.pick(&missing);
    let form = match rng.below(3) {
        0 | 1 => "(MISSING)".to_string(),
        _ => {
            if m.is_named() {
                format!("(MISSING {})", m.kind())
            } else {
                format!("(MISSING {})", quote(m.kind()))
            }
        }
    };
    let cap = if rng.chance(3, 4) { g.capture(rng) } else { String::new() };
    let q = match (rng.below(3), m.parent()) {
        (0, _) | (_, None) => format!("{form}{cap}\n"),
        (1, Some(p)) if !p.is_error() => format!("({} {form}{cap}){}\n", p.kind(), if rng.chance(1, 2) { g.capture(rng) } else { String::new() }),
        (_, Some(p)) if !p.is_error() => format!("({} {form}{cap} .)\n", p.kind()),
        _ => format!("{form}{cap}\n"),
    };
    Some(q)
}

/// Family 6: a QUANTIFIED ALTERNATION as child pattern: `[A B]?`, `[A B]*`, `[A B]+`, captured or not,
/// single-step and multi-step branches in either order; the branch that actually matches a child of
/// the parent is as often the last as the first one.
fn gen_quant_alt(rng: &mut Rng, g: &QGen, named: &[&Node]) -> Option<String> {
    let parents: Vec<&&Node> = named.iter().filter(|n| n.named_child_count() >= 1 && !n.is_error()).collect();
    if parents.is_empty() {
        return None;
    }
    let p = **rng.pick(&parents);
    let mut cur = p.walk();
    let kids: Vec<Node> = p.children(&mut cur).filter(|k| !k.is_error() && !k.is_missing()).collect();
    if kids.is_empty() {
        return None;
    }
    let k = *rng.pick(&kids);
    let simple = |n: &Node| if n.is_named() { format!("({})", n.kind()) } else { quote(n.kind()) };
    // the branch for the real child: single step, or with one child pattern
    let real = if k.named_child_count() > 0 && rng.chance(1, 3) {
        let mut c2 = k.walk();
        let gk: Vec<Node> = k.named_children(&mut c2).filter(|x| !x.is_error() && !x.is_missing()).collect();
        if gk.is_empty() { simple(&k) } else { format!("({} ({}))", k.kind(), rng.pick(&gk).kind()) }
    } else {
        simple(&k)
    };
    // the other branch: another child's kind, a random kind, or a multi-step pattern
    let other = match rng.below(4) {
        0 => simple(rng.pick(&kids)),
        1 if !g.anon_kinds.is_empty() => quote(rng.pick(&g.anon_kinds).as_str()),
        2 if !g.named_kinds.is_empty() => format!("({} (_))", rng.pick(&g.named_kinds)),
        _ => if g.named_kinds.is_empty() { "(_)".to_string() } else { format!("({})", rng.pick(&g.named_kinds)) },
    };
    let bcap = |rng: &mut Rng| if rng.chance(1, 4) { g.capture(rng) } else { String::new() };
    // sometimes the real branch is itself an alternation (nested)
    let real = if rng.chance(1, 5) {
        let o = simple(rng.pick(&kids));
        if rng.chance(1, 2) { format!("[{real} {o}]") } else { format!("[{o} {real}]") }
    } else {
        real
    };
    let (b1, b2) = if rng.chance(1, 2) { (real, other) } else { (other, real) };
    let c1 = bcap(rng);
    let c2 = bcap(rng);
    let q = *rng.pick(&["?", "?", "*", "+"]);
    let cap = if rng.chance(3, 4) { g.capture(rng) } else { String::new() };
    let mut s = format!("({}", p.kind());
    if rng.chance(1, 4) {
        if let Some(first) = kids.first() {
            if first.id() != k.id() {
                s.push_str(&format!(" {}", simple(first)));
            }
        }
    }
    s.push_str(&format!(" [{b1}{c1} {b2}{c2}]{q}{cap}"));
    if rng.chance(1, 4) {
        if let Some(last) = kids.last() {
            if last.id() != k.id() {
                s.push_str(&format!(" {}", simple(last)));
            }
        }
    }
    s.push(')');
    let pc = if rng.chance(1, 2) { g.capture(rng) } else { String::new() };
    Some(format!("{s}{pc}\n"))
}

/// Family 7: a QUANTIFIED and/or CAPTURED GROUP of 2-3 adjacent children of a real parent:
/// `(p ((a) (b))* @g)`, anchors inside the group / after it, captures on the group's items, neighbours.
fn gen_quant_group(rng: &mut Rng, g: &QGen, named: &[&Node]) -> Option<String> {
    let parents: Vec<&&Node> = named.iter().filter(|n| n.child_count() >= 2 && !n.is_error()).collect();
    if parents.is_empty() {
        return None;
    }
    let p = **rng.pick(&parents);
    let mut cur = p.walk();
    let kids: Vec<Node> = p.children(&mut cur).filter(|k| !k.is_error() && !k.is_missing()).collect();
    if kids.len() < 2 {
        return None;
    }
    let simple = |n: &Node| if n.is_named() { format!("({})", n.kind()) } else { quote(n.kind()) };
    let len = if kids.len() >= 3 && rng.chance(1, 3) { 3 } else { 2 };
    let start = rng.below(kids.len() - len + 1);
    let mut s = format!("({}", p.kind());
    if start > 0 && rng.chance(1, 3) {
        s.push_str(&format!(" {}", simple(&kids[start - 1])));
        if rng.chance(1, 3) {
            s.push_str(&g.capture(rng));
        }
        if rng.chance(1, 4) {
            s.push_str(" .");
        }
    }
    if rng.chance(1, 6) {
        // an anchor before the (plain or optional-free) group: goes to its first element only
        s.push_str(" .");
    }
    s.push_str(" (");
    // the elements are adjacent children, or (1 in 3 steps) leave one child out in between
    let mut at = start;
    let mut last = start;
    for i in 0..len {
        if i > 0 {
            at += 1;
            if at + 1 < kids.len() && at + (len - i) < kids.len() && rng.chance(1, 3) {
                at += 1;
            }
            s.push(' ');
            if rng.chance(1, 3) {
                s.push_str(". ");
            }
        }
        last = at;
        s.push_str(&simple(&kids[at]));
        if rng.chance(1, 2) {
            s.push_str(&g.capture(rng));
        }
    }
    let len = last + 1 - start;
    s.push(')');
    let q = *rng.pick(&["", "?", "?", "*", "+"]);
    s.push_str(q);
    if q.is_empty() || rng.chance(1, 2) {
        s.push_str(&g.capture(rng));
    }
    if start + len < kids.len() && rng.chance(1, 3) {
        if rng.chance(1, 4) {
            s.push_str(" .");
        }
        s.push_str(&format!(" {}", simple(&kids[start + len])));
        if rng.chance(1, 3) {
            s.push_str(&g.capture(rng));
        }
    }
    s.push(')');
    let pc = if rng.chance(1, 2) { g.capture(rng) } else { String::new() };
    Some(format!("{s}{pc}\n"))
}

/// Family 8: a ROOT-LEVEL alternation `[A B …] @x`, preferably of kinds that occur directly under an
/// ERROR node (patterns that are not "rooted" may not start there), the real kind in any position.
fn gen_root_alt(rng: &mut Rng, g: &QGen, nodes: &[&Node]) -> Option<String> {
    let under_error: Vec<&&Node> = nodes.iter().filter(|n| n.parent().map(|p| p.is_error()).unwrap_or(false) && !n.is_error()).collect();
    let real: Node = if !under_error.is_empty() && rng.chance(2, 3) { ***rng.pick(&under_error) } else { **rng.pick(nodes) };
    if real.is_error() || real.is_missing() {
        return None;
    }
    let simple = |n: &Node| if n.is_named() { format!("({})", n.kind()) } else { quote(n.kind()) };
    let real_pat = if real.named_child_count() > 0 && rng.chance(1, 3) {
        let mut c = real.walk();
        let kids: Vec<Node> = real.named_children(&mut c).filter(|k| !k.is_error() && !k.is_missing()).collect();
        if kids.is_empty() { simple(&real) } else { format!("({} ({}))", real.kind(), rng.pick(&kids).kind()) }
    } else {
        simple(&real)
    };
    // sometimes the real branch is itself an alternation (nested), the real pattern first or last in it
    let real_pat = if rng.chance(1, 4) {
        let o = **rng.pick(nodes);
        let op = if o.is_error() || o.is_missing() { "(_)".to_string() } else { simple(&o) };
        if rng.chance(1, 2) { format!("[{real_pat} {op}]") } else { format!("[{op} {real_pat}]") }
    } else {
        real_pat
    };
    let n_branches = 2 + rng.below(2);
    let pos = rng.below(n_branches);
    let mut s = String::from("[");
    for i in 0..n_branches {
        if i > 0 {
            s.push(' ');
        }
        if i == pos {
            s.push_str(&real_pat);
        } else {
            let other = **rng.pick(nodes);
            if other.is_error() || other.is_missing() {
                s.push_str(&if g.named_kinds.is_empty() { "(_)".to_string() } else { format!("({})", rng.pick(&g.named_kinds)) });
            } else {
                s.push_str(&simple(&other));
            }
        }
        if rng.chance(1, 4) {
            s.push_str(&g.capture(rng));
        }
    }
    s.push(']');
    if rng.chance(3, 4) {
        s.push_str(&g.capture(rng));
    }
    Some(format!("{s}\n"))
}

/// Family 9: the SAME capture name on alternation branches of different depth over a unary chain: a node
/// and its same-extent only child (`[(atom) @x (atom (word) @x)]`), usually followed by a later sibling
/// step so that both states are alive at the same step with captures that differ only in the node.
fn gen_same_extent_alt(rng: &mut Rng, g: &QGen, nodes: &[&Node]) -> Option<String> {
    let unary: Vec<&&Node> = nodes
        .iter()
        .filter(|n| {
            !n.is_error()
                && !n.is_missing()
                && n.child_count() == 1
                && n.child(0).map(|c| !c.is_error() && !c.is_missing() && c.start_byte() == n.start_byte() && c.end_byte() == n.end_byte()).unwrap_or(false)
        })
        .collect();
    if unary.is_empty() {
        return None;
    }
    let n = ***rng.pick(&unary);
    let c = n.child(0)?;
    let simple = |x: &Node| if x.is_named() { format!("({})", x.kind()) } else { quote(x.kind()) };
    let head = |x: &Node| if x.is_named() { x.kind().to_string() } else { "_".to_string() };
    let x1 = g.capture(rng);
    let x2 = if rng.chance(4, 5) { x1.clone() } else { g.capture(rng) };
    let outer = format!("{}{x1}", simple(&n));
    // the inner branch binds the child, or (for a longer chain) the grandchild
    let inner = match c.child(0) {
        Some(d) if c.child_count() == 1 && !d.is_error() && !d.is_missing() && rng.chance(1, 3) => {
            format!("({} ({} {}{x2}))", head(&n), head(&c), simple(&d))
        }
        _ => format!("({} {}{x2})", head(&n), simple(&c)),
    };
    let alt = match rng.below(3) {
        0 => format!("[{outer} {inner}]"),
        1 => format!("[{inner} {outer}]"),
        _ => format!("[{outer} {inner} {}]", simple(&c)),
    };
    let altcap = if rng.chance(1, 4) { g.capture(rng) } else { String::new() };
    match n.parent() {
        Some(p) if !p.is_error() && rng.chance(4, 5) => {
            let mut s = format!("({} {alt}{altcap}", p.kind());
            // a later sibling step (any later sibling of n), sometimes anchored
            let mut later = Vec::new();
            let mut sib = n.next_sibling();
            while let Some(x) = sib {
                if !x.is_error() && !x.is_missing() {
                    later.push(x);
                }
                sib = x.next_sibling();
            }
            if !later.is_empty() && rng.chance(4, 5) {
                let l = *rng.pick(&later);
                if rng.chance(1, 5) {
                    s.push_str(" .");
                }
                s.push_str(&format!(" {}{}", simple(&l), g.capture(rng)));
            }
            s.push(')');
            if rng.chance(1, 3) {
                s.push_str(&g.capture(rng));
            }
            Some(format!("{s}\n"))
        }
        _ => Some(format!("{alt}{altcap}\n")),
    }
}

/// Family 10: `(sup/kind)` for (supertype, kind) pairs OBSERVED in this tree: each must compile and match.
/// 1-3 patterns, bare or inside the real parent, with or without a field.
fn gen_supertype_pairs(rng: &mut Rng, g: &QGen, nodes: &[&Node]) -> Option<String> {
    let with_sup: Vec<&&Node> = nodes.iter().filter(|n| !n.is_error() && !n.is_missing() && g.sup_of.get(&n.id()).map(|v| !v.is_empty()).unwrap_or(false)).collect();
    if with_sup.is_empty() {
        return None;
    }
    let mut q = String::new();
    for _ in 0..(1 + rng.below(3)) {
        let n = ***rng.pick(&with_sup);
        let sup = rng.pick(&g.sup_of[&n.id()]).clone();
        let sub = if n.is_named() { n.kind().to_string() } else { quote(n.kind()) };
        let core = format!("({sup}/{sub})");
        let pat = match n.parent() {
            Some(p) if !p.is_error() && rng.chance(1, 3) => {
                let mut c = p.walk();
                let mut field = None;
                if c.goto_first_child() {
                    loop {
                        if c.node().id() == n.id() {
                            field = c.field_name().map(|s| s.to_string());
                            break;
                        }
                        if !c.goto_next_sibling() {
                            break;
                        }
                    }
                }
                match field {
                    Some(f) if rng.chance(1, 2) => format!("({} {f}: {core}{})", p.kind(), g.capture(rng)),
                    _ => format!("({} {core}{})", p.kind(), g.capture(rng)),
                }
            }
            _ => format!("{core}{}", g.capture(rng)),
        };
        q.push_str(&pat);
        q.push('\n');
    }
    Some(q)
}

/// Family 11: `(parent field: (kind))` for (parent, field, kind) triples OBSERVED in this tree (fields may be
/// inherited through hidden rules that carry several fields): each must compile and match.  1-3 patterns,
/// one or two fielded children each.
fn gen_field_triples(rng: &mut Rng, g: &QGen, nodes: &[&Node]) -> Option<String> {
    let mut triples: Vec<(Node, Vec<(String, Node)>)> = Vec::new();
    for n in nodes.iter() {
        if n.is_error() || n.is_missing() {
            continue;
        }
        let mut c = n.walk();
        let mut fs = Vec::new();
        if c.goto_first_child() {
            loop {
                if let Some(f) = c.field_name() {
                    let k = c.node();
                    if !k.is_error() && !k.is_missing() {
                        fs.push((f.to_string(), k));
                    }
                }
                if !c.goto_next_sibling() {
                    break;
                }
            }
        }
        if !fs.is_empty() {
            triples.push((**n, fs));
        }
    }
    if triples.is_empty() {
        return None;
    }
    let simple = |x: &Node| if x.is_named() { format!("({})", x.kind()) } else { quote(x.kind()) };
    let mut q = String::new();
    for _ in 0..(1 + rng.below(3)) {
        let (p, fs) = rng.pick(&triples);
        let i = rng.below(fs.len());
        let mut s = format!("({} {}: {}", p.kind(), fs[i].0, simple(&fs[i].1));
        if rng.chance(1, 2) {
            s.push_str(&g.capture(rng));
        }
        if i + 1 < fs.len() && rng.chance(1, 3) {
            let j = rng.range(i + 1, fs.len() - 1);
            s.push_str(&format!(" {}: {}", fs[j].0, simple(&fs[j].1)));
            if rng.chance(1, 2) {
                s.push_str(&g.capture(rng));
            }
        }
        s.push(')');
        if rng.chance(1, 3) {
            s.push_str(&g.capture(rng));
        }
        q.push_str(&s);
        q.push('\n');
    }
    Some(q)
}

fn gen_query(rng: &mut Rng, g: &mut QGen, tree: &Tree) -> Option<String> {
    let nodes = all_nodes(tree);
    let named: Vec<&Node> = nodes.iter().filter(|n| n.is_named() && !n.is_missing()).collect();
    if named.is_empty() {
        return None;
    }
    g.quant_ok = !rng.chance(3, 5); // 60 % of the queries are quantifier-free
    g.sup_of.clear();
    if !g.lang_supertypes.is_empty() {
        let mut c = tree.walk();
        'outer: loop {
            let sv = supertypes_at(&c, &g.lang);
            if !sv.is_empty() {
                g.sup_of.insert(c.node().id(), sv);
            }
            if c.goto_first_child() {
                continue;
            }
            loop {
                if c.goto_next_sibling() {
                    break;
                }
                if !c.goto_parent() {
                    break 'outer;
                }
            }
        }
    }
    match rng.below(19) {
        0 => {
            if let Some(q) = gen_negated_family(rng, g, &named) {
                return Some(q);
            }
        }
        3 => {
            if let Some(q) = gen_late_child(rng, g, &named) {
                return Some(q);
            }
        }
        4 | 5 | 6 => {
            if let Some(q) = gen_extra_anchor(rng, g, &nodes) {
                return Some(q);
            }
        }
        7 => {
            if let Some(q) = gen_missing(rng, g, &nodes) {
                return Some(q);
            }
        }
        8 => {
            if let Some(q) = gen_quant_alt(rng, g, &named) {
                return Some(q);
            }
        }
        9 => {
            if let Some(q) = gen_quant_group(rng, g, &named) {
                return Some(q);
            }
        }
        10 => {
            let all: Vec<&Node> = nodes.iter().collect();
            if let Some(q) = gen_root_alt(rng, g, &all) {
                return Some(q);
            }
        }
        15 | 16 => {
            let all: Vec<&Node> = nodes.iter().collect();
            if let Some(q) = gen_field_triples(rng, g, &all) {
                return Some(q);
            }
        }
        13 | 14 => {
            let all: Vec<&Node> = nodes.iter().collect();
            if let Some(q) = gen_supertype_pairs(rng, g, &all) {
                return Some(q);
            }
        }
        11 | 12 => {
            let all: Vec<&Node> = nodes.iter().collect();
            if let Some(q) = gen_same_extent_alt(rng, g, &all) {
                return Some(q);
            }
        }
        1 | 2 => {
            let saved = g.quant_ok;
            g.quant_ok = false;
            let r = gen_sibling_window(rng, g, &named);
            g.quant_ok = saved;
            if let Some(q) = r {
                return Some(q);
            }
        }
        _ => {}
    }
    let npat = 1 + rng.below(2);
    let mut q = String::new();
    for _ in 0..npat {
        let node = **rng.pick(&named);
        let node = if node.child_count() == 0 && rng.chance(2, 3) { node.parent().unwrap_or(node) } else { node };
        let depth = rng.below(3).max(if node.child_count() > 0 { 1 } else { 0 });
        let body = g.pat(rng, &node, depth)?;
        let cap = if rng.chance(2, 3) { g.capture(rng) } else { String::new() };
        q.push_str(&format!("{body}{cap}\n"));
    }
    Some(q)
}

struct Stats {
    cases: usize,
    compiled: usize,
    rejected: usize,
    with_match: usize,
    qfree: usize,
    matches: usize,
}

fn hexs(s: &str) -> String {
    if s.is_empty() {
        "-".to_string()
    } else {
        hex(s.as_bytes())
    }
}

/// Does the query text contain a parenthesised GROUP (its `(` is followed by `(`, `[` or `"`) with a
/// `+` quantifier?  Those are compiled in a child process first (see `guarded_compile_ok`).
fn has_plus_group(q: &str) -> bool {
    let b = q.as_bytes();
    let mut stack: Vec<bool> = Vec::new();
    let mut i = 0;
    let mut in_str = false;
    while i < b.len() {
        let c = b[i];
        if in_str {
            if c == b'\\' {
                i += 1;
            } else if c == b'"' {
                in_str = false;
            }
        } else if c == b'"' {
            in_str = true;
        } else if c == b'(' {
            let mut j = i + 1;
            while j < b.len() && (b[j] == b' ' || b[j] == b'\n') {
                j += 1;
            }
            stack.push(j < b.len() && (b[j] == b'(' || b[j] == b'[' || b[j] == b'"'));
        } else if c == b')' {
            let g = stack.pop().unwrap_or(false);
            if g && i + 1 < b.len() && b[i + 1] == b'+' {
                return true;
            }
        }
        i += 1;
    }
    false
}

/// `Query::new` (or running the query) on a `+` group whose body can match nothing does not terminate /
/// exhausts memory in the library, which would take the explorer down with it.  Such queries are compiled
/// in a child process (this executable, `--compile-probe`) with a 1 GB address space and a 5 s
/// budget first; `false` = the child crashed or ran out of time.
fn guarded_compile_ok(lang_id: &str, qt: &str, text: &[u8]) -> bool {
    let exe = match std::env::current_exe() {
        Ok(e) => e,
        Err(_) => return true,
    };
    let child = std::process::Command::new(exe)
        .args(["--compile-probe", lang_id, &hex(qt.as_bytes()), &(if text.is_empty() { "-".to_string() } else { hex(text) })])
        .env("VERIF_MEM_GB", "1")
        .stdout(std::process::Stdio::null())
        .stderr(std::process::Stdio::null())
        .spawn();
    let mut child = match child {
        Ok(c) => c,
        Err(_) => return true,
    };
    let start = std::time::Instant::now();
    loop {
        match child.try_wait() {
            Ok(Some(status)) => return status.success(),
            Ok(None) => {
                if start.elapsed().as_secs() >= 5 {
                    let _ = child.kill();
                    let _ = child.wait();
                    return false;
                }
                std::thread::sleep(std::time::Duration::from_millis(2));
            }
            Err(_) => return false,
        }
    }
}

fn emit_case(out: &mut impl Write, cid: &str, lang_id: &str, lang: &Language, tree: &Tree, text: &[u8], qt: &str, st: &mut Stats) {
    writeln!(out, "spec {cid} {lang_id} {} {}", if text.is_empty() { "-".into() } else { hex(text) }, hex(qt.as_bytes())).unwrap();
    writeln!(out, "case {cid}").unwrap();
    writeln!(out, "haserror {}", if tree.root_node().has_error() { 1 } else { 0 }).unwrap();
    writeln!(out, "query {}", hex(qt.as_bytes())).unwrap();
    {
        let mut l = String::from("supertypes");
        for s in lang.supertypes() {
            if let Some(n) = lang.node_kind_for_id(*s) {
                write!(l, " {}", hexs(n)).unwrap();
            }
        }
        writeln!(out, "{l}").unwrap();
    }
    // visible tree through a cursor walk
    let mut ids: HashMap<(usize, usize, usize, u16), usize> = HashMap::new();
    {
        let mut c = tree.walk();
        let mut n = 0usize;
        'outer: loop {
            let nd = c.node();
            ids.entry((nd.id(), nd.start_byte(), nd.end_byte(), nd.kind_id())).or_insert(n);
            let sv = supertypes_at(&c, lang);
            let svs = if sv.is_empty() { "-".to_string() } else { sv.iter().map(|x| hexs(x)).collect::<Vec<_>>().join(",") };
            writeln!(
                out,
                "n {} {} {} {} {} {} {} {} {} {} {}",
                n,
                nd.is_named() as u8,
                nd.is_missing() as u8,
                nd.is_error() as u8,
                nd.is_extra() as u8,
                nd.start_byte(),
                nd.end_byte(),
                nd.child_count(),
                hexs(nd.kind()),
                c.field_name().map(hexs).unwrap_or_else(|| "-".to_string()),
                svs
            )
            .unwrap();
            n += 1;
            if c.goto_first_child() {
                continue;
            }
            loop {
                if c.goto_next_sibling() {
                    break;
                }
                if !c.goto_parent() {
                    break 'outer;
                }
            }
        }
    }
    st.cases += 1;
    if !qt.chars().any(|c| c == '+' || c == '*' || c == '?') {
        st.qfree += 1;
    }
    if has_plus_group(qt) && !guarded_compile_ok(lang_id, qt, text) {
        writeln!(out, "compile crash").unwrap();
        writeln!(out, "run").unwrap();
        return;
    }
    if std::env::var("C05_TRACE").is_ok() {
        eprintln!("C05_TRACE {} {} {:?} text={:?}", cid, lang_id, qt, String::from_utf8_lossy(text));
    }
    match Query::new(lang, qt) {
        Err(e) => {
            st.rejected += 1;
            let kind = match e.kind {
                QueryErrorKind::Syntax => "syntax",
                QueryErrorKind::NodeType => "nodetype",
                QueryErrorKind::Field => "field",
                QueryErrorKind::Capture => "capture",
                QueryErrorKind::Predicate => "predicate",
                QueryErrorKind::Structure => "structure",
                QueryErrorKind::Language => "language",
            };
            writeln!(out, "compile err {} {} {}", e.offset, kind, qt.len()).unwrap();
        }
        Ok(q) => {
            st.compiled += 1;
            writeln!(out, "compile ok").unwrap();
            let mut l = String::from("caps");
            for n in q.capture_names() {
                write!(l, " {n}").unwrap();
            }
            writeln!(out, "{l}").unwrap();
            // capture quantifiers as the compiler computed them: cq <pattern> (<0..4>)* in capture order
            for p in 0..q.pattern_count() {
                let mut l = format!("cq {p}");
                for cq in q.capture_quantifiers(p) {
                    let k = match cq {
                        tree_sitter::CaptureQuantifier::Zero => 0,
                        tree_sitter::CaptureQuantifier::ZeroOrOne => 1,
                        tree_sitter::CaptureQuantifier::ZeroOrMore => 2,
                        tree_sitter::CaptureQuantifier::One => 3,
                        tree_sitter::CaptureQuantifier::OneOrMore => 4,
                    };
                    write!(l, " {k}").unwrap();
                }
                writeln!(out, "{l}").unwrap();
            }
            let mut cur = QueryCursor::new();
            cur.set_match_limit(u32::MAX);
            let mut it = cur.matches(&q, tree.root_node(), text);
            let mut nm = 0;
            while let Some(m) = it.next() {
                let mut l = format!("m {} {}", m.pattern_index, m.captures.len());
                for c in m.captures {
                    let key = (c.node.id(), c.node.start_byte(), c.node.end_byte(), c.node.kind_id());
                    let id = ids.get(&key).copied().unwrap_or(999999);
                    write!(l, " {} {}", c.index, id).unwrap();
                }
                writeln!(out, "{l}").unwrap();
                nm += 1;
            }
            st.matches += nm;
            if nm > 0 {
                st.with_match += 1;
            }
        }
    }
    writeln!(out, "run").unwrap();
}

fn parse_spec(line: &str) -> Option<(String, Vec<u8>, String)> {
    let line = line.split('#').next().unwrap_or("");
    let parts: Vec<&str> = line.split_whitespace().collect();
    let parts = if parts.len() == 4 { &parts[1..] } else { &parts[..] };
    if parts.len() != 3 {
        return None;
    }
    let text = if parts[1] == "-" { vec![] } else { unhex(parts[1]) };
    Some((parts[0].to_string(), text, String::from_utf8(unhex(parts[2])).ok()?))
}

fn main() {
    limit_resources();
    let args: Vec<String> = std::env::args().collect();
    if args.get(1).map(|s| s == "--compile-probe").unwrap_or(false) {
        // child of `guarded_compile_ok`: exit 0 whatever the verdict; a crash / timeout is the signal
        if let (Some(lang), Some(qh)) = (args.get(2), args.get(3)) {
            match zoo::load(lang) {
                Ok(b) => {
                    if let Ok(q) = String::from_utf8(unhex(qh)) {
                        let r = Query::new(&b.language, &q);
                        if std::env::var("C05_TRACE").is_ok() {
                            eprintln!("compile-probe: {:?} -> {}", q, if r.is_ok() { "ok" } else { "err" });
                        }
                        // ... and run it on the document
                        if let (Ok(q), Some(th)) = (r, args.get(4)) {
                            let text = if th == "-" { vec![] } else { unhex(th) };
                            let mut parser = Parser::new();
                            parser.set_language(&b.language).unwrap();
                            if let Some(tree) = parser.parse(&text, None) {
                                let mut cur = QueryCursor::new();
                                cur.set_match_limit(u32::MAX);
                                let mut it = cur.matches(&q, tree.root_node(), text.as_slice());
                                let mut n = 0u64;
                                while let Some(_) = it.next() {
                                    n += 1;
                                }
                                if std::env::var("C05_TRACE").is_ok() {
                                    eprintln!("compile-probe: {n} matches");
                                }
                            }
                        }
                    }
                }
                Err(e) => {
                    // not being able to probe must not look like a successful probe
                    eprintln!("compile-probe: cannot load {lang}: {e}");
                    std::process::exit(3);
                }
            }
        }
        return;
    }
    let out_path = args.get(1).expect("usage: c05 <ops-file> [--spec file] [lang...]").clone();
    let mut out = std::io::BufWriter::new(std::fs::File::create(&out_path).unwrap());
    let mut st = Stats { cases: 0, compiled: 0, rejected: 0, with_match: 0, qfree: 0, matches: 0 };
    let mut cache: HashMap<String, zoo::Built> = HashMap::new();
    let mut run_specs = |out: &mut std::io::BufWriter<std::fs::File>, src: &str, tag: &str, st: &mut Stats| {
        for (i, line) in src.lines().enumerate() {
            if let Some((lang, text, q)) = parse_spec(line) {
                if !cache.contains_key(&lang) {
                    match zoo::load(&lang) {
                        Ok(b) => {
                            cache.insert(lang.clone(), b);
                        }
                        Err(e) => {
                            eprintln!("skip {lang}: {e}");
                            continue;
                        }
                    }
                }
                let b = &cache[&lang];
                let mut parser = Parser::new();
                parser.set_language(&b.language).unwrap();
                if let Some(tree) = parser.parse(&text, None) {
                    emit_case(out, &format!("{lang}-{tag}{i}"), &lang, &b.language, &tree, &text, &q, st);
                }
            }
        }
    };
    if args.get(2).map(|s| s == "--spec").unwrap_or(false) {
        let specs = std::fs::read_to_string(&args[3]).unwrap();
        run_specs(&mut out, &specs, "r", &mut st);
        out.flush().unwrap();
        eprintln!("c05: replayed {} cases", st.cases);
        return;
    }
    if let Some(corpus) = zoo_corpus("c05") {
        run_specs(&mut out, &corpus, "c", &mut st);
    }
    let only: Vec<String> = args[2..].to_vec();
    let mut rng = Rng::new(seed_from_env());
    let thorough = tier_is_thorough();
    let default_langs = ["lst", "arith", "jsonish", "stmt", "fx_readme_grammar", "fx_aliased_rules", "fx_inline_rules", "fx_extra_non_terminals", "fx_immediate_tokens", "fx_aliased_inlined_rules", "pairs", "zsup", "twofld", "zzfld", "zzdeep"];
    let langs: Vec<String> = if !only.is_empty() {
        only
    } else if thorough {
        // a fixed list (the zoo grows while other properties are built; a check must not change with it)
        let allow: &[&str] = &["arith","fx_aliased_inlined_rules","fx_aliased_rules","fx_aliased_token_rules","fx_aliased_unit_reductions","fx_anonymous_error","fx_associativity_left","fx_associativity_right","fx_depends_on_column","fx_dynamic_precedence","fx_epsilon_external_tokens","fx_external_and_internal_tokens","fx_external_tokens","fx_external_unicode_column_alignment","fx_extra_non_terminals","fx_extra_non_terminals_with_shared_rules","fx_immediate_tokens","fx_inline_rules","fx_inlined_aliased_rules","fx_lexical_conflicts_due_to_state_merging","fx_named_rule_aliased_as_anonymous","fx_nested_inlined_rules","fx_next_sibling_from_zwt","fx_precedence_on_subsequence","fx_readme_grammar","fx_reserved_words","fx_unicode_classes","jsonish","lst","stmt","pairs","zsup","twofld","zzfld"];
        // + the PRIVATE grammar zoo/zzdeep (deep hidden-rule nesting; not in zoo::list())
        let mut v: Vec<String> = zoo::list().into_iter().filter(|l| allow.contains(&l.as_str())).collect();
        if zoo::zoo_dir("zzdeep").join("grammar.json").exists() {
            v.push("zzdeep".to_string());
        }
        v
    } else {
        default_langs.iter().map(|s| s.to_string()).filter(|s| zoo::zoo_dir(s).join("grammar.json").exists()).collect()
    };
    let (docs_per_lang, q_per_doc) = if thorough { (40, 60) } else { (9, 14) };
    let mut n = 0usize;
    for id in langs {
        let b = match zoo::load(&id) {
            Ok(b) => b,
            Err(e) => {
                eprintln!("skip {id}: {e}");
                continue;
            }
        };
        let gg = gen::GrammarGen::new(&b.grammar_json, zoo::read_zoo_file(&id, "samples.json").as_deref());
        let mut g = QGen::new(&b.language);
        let mut parser = Parser::new();
        parser.set_language(&b.language).unwrap();
        // languages with comment extras get twice the documents (half of them with comments sprinkled in)
        let ndocs = if matches!(id.as_str(), "pairs" | "arith" | "stmt") { docs_per_lang * 2 } else { docs_per_lang };
        for d in 0..ndocs {
            let budget = [5, 10, 18, 30][d % 4];
            let toks = gg.sentence(&mut rng, budget);
            let (mut text, bounds) = gg.render(&toks, &mut rng);
            // comments (extras) between tokens: they are siblings of whatever they land between
            let comments: &[&str] = match id.as_str() {
                "pairs" => &["#c#", "#x y#"],
                "arith" => &["# note\n"],
                "stmt" => &["// c\n"],
                _ => &[],
            };
            if !comments.is_empty() && d % 2 == 0 {
                let mut starts: Vec<usize> = bounds.iter().step_by(2).copied().collect();
                starts.dedup();
                for &pos in starts.iter().rev() {
                    if pos > 0 && pos <= text.len() && rng.chance(1, 4) {
                        let c = format!("{} ", rng.pick(comments));
                        text.splice(pos..pos, c.bytes());
                    }
                }
            }
            if d % 3 == 1 {
                text = gen::mutate_bytes(&mut rng, &text);
            } else if d % 3 == 0 && d > 0 && text.len() > 4 {
                // truncated: dropped closers / terminators make the parser insert MISSING tokens
                let cut = rng.range(text.len() / 2, text.len() - 1);
                text.truncate(cut);
            }
            if text.len() > 300 {
                text.truncate(300);
            }
            let mut tree = match parser.parse(&text, None) {
                Some(t) => t,
                None => continue,
            };
            if d % 3 == 2 {
                // edited and re-parsed incrementally
                let alphabet: Vec<Vec<u8>> = toks.iter().take(8).map(|t| t.text.clone().into_bytes()).chain([b" ".to_vec(), b"(".to_vec()]).collect();
                let refs: Vec<&[u8]> = alphabet.iter().map(|v| v.as_slice()).collect();
                let te = random_edit(&mut rng, &text, &bounds, &refs);
                let new = te.apply(&text);
                let ie = te.input_edit(&text, &new);
                tree.edit(&ie);
                if let Some(t2) = parser.parse(&new, Some(&tree)) {
                    tree = t2;
                    text = new;
                }
            }
            for _ in 0..q_per_doc {
                if let Some(q) = gen_query(&mut rng, &mut g, &tree) {
                    n += 1;
                    emit_case(&mut out, &format!("{id}-{n}"), &id, &b.language, &tree, &text, &q, &mut st);
                }
            }
        }
    }
    out.flush().unwrap();
    eprintln!(
        "c05: wrote {} cases: {} compiled ({} with >=1 match = {}% of all queries), {} rejected, {} quantifier-free, {} matches, to {out_path}",
        st.cases,
        st.compiled,
        st.with_match,
        if st.cases > 0 { 100 * st.with_match / st.cases } else { 0 },
        st.rejected,
        st.qfree,
        st.matches
    );
}
