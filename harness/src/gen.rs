//! Grammar-directed document generation from grammar.json.

use crate::Rng;
use serde_json::Value;
use std::collections::HashMap;

pub struct GrammarGen {
    pub rules: HashMap<String, Value>,
    pub start: String,
    /// pattern text -> example strings (from zoo/<id>/samples.json), plus built-in guesses
    pub samples: HashMap<String, Vec<String>>,
    pub externals: HashMap<String, Vec<String>>,
    pub ws: Vec<String>,
}

#[derive(Clone, Debug)]
pub struct Tok {
    pub text: String,
    pub immediate: bool,
}

impl GrammarGen {
    pub fn new(grammar_json: &str, samples_json: Option<&str>) -> Self {
        let g: Value = serde_json::from_str(grammar_json).unwrap();
        let mut rules = HashMap::new();
        let mut start = String::new();
        for (k, v) in g["rules"].as_object().unwrap() {
            if start.is_empty() {
                start = k.clone();
            }
            rules.insert(k.clone(), v.clone());
        }
        let mut samples: HashMap<String, Vec<String>> = HashMap::new();
        let mut externals = HashMap::new();
        let mut ws = vec![" ".to_string()];
        if let Some(sj) = samples_json {
            let s: Value = serde_json::from_str(sj).unwrap();
            if let Some(o) = s.get("patterns").and_then(|x| x.as_object()) {
                for (k, v) in o {
                    samples.insert(k.clone(), v.as_array().unwrap().iter().map(|x| x.as_str().unwrap().to_string()).collect());
                }
            }
            if let Some(o) = s.get("externals").and_then(|x| x.as_object()) {
                for (k, v) in o {
                    externals.insert(k.clone(), v.as_array().unwrap().iter().map(|x| x.as_str().unwrap().to_string()).collect());
                }
            }
            if let Some(a) = s.get("whitespace").and_then(|x| x.as_array()) {
                ws = a.iter().map(|x| x.as_str().unwrap().to_string()).collect();
            }
        }
        GrammarGen { rules, start, samples, externals, ws }
    }

    fn min_depth(&self, v: &Value, memo: &mut HashMap<String, usize>, stack: &mut Vec<String>) -> usize {
        match v["type"].as_str().unwrap() {
            "SYMBOL" => {
                let n = v["name"].as_str().unwrap().to_string();
                if let Some(d) = memo.get(&n) {
                    return *d;
                }
                if stack.contains(&n) || !self.rules.contains_key(&n) {
                    return if self.rules.contains_key(&n) { 1000 } else { 0 };
                }
                stack.push(n.clone());
                let d = 1 + self.min_depth(&self.rules[&n].clone(), memo, stack);
                stack.pop();
                if d < 1000 {
                    memo.insert(n, d);
                }
                d
            }
            "SEQ" => v["members"].as_array().unwrap().iter().map(|m| self.min_depth(m, memo, stack)).max().unwrap_or(0),
            "CHOICE" => v["members"].as_array().unwrap().iter().map(|m| self.min_depth(m, memo, stack)).min().unwrap_or(0),
            "REPEAT" | "BLANK" => 0,
            "STRING" | "PATTERN" => 0,
            _ => v.get("content").map(|c| self.min_depth(c, memo, stack)).unwrap_or(0),
        }
    }

    /// Random derivation: a token list.
    pub fn sentence(&self, rng: &mut Rng, budget: usize) -> Vec<Tok> {
        let mut out = Vec::new();
        let mut memo = HashMap::new();
        let start = serde_json::json!({"type":"SYMBOL","name":self.start});
        let mut budget = budget as isize;
        self.expand(&start, rng, &mut budget, 0, false, &mut out, &mut memo);
        out
    }

    fn expand(&self, v: &Value, rng: &mut Rng, budget: &mut isize, depth: usize, imm: bool, out: &mut Vec<Tok>, memo: &mut HashMap<String, usize>) {
        match v["type"].as_str().unwrap() {
            "SYMBOL" => {
                let n = v["name"].as_str().unwrap();
                if let Some(r) = self.rules.get(n) {
                    let r = r.clone();
                    self.expand(&r, rng, budget, depth + 1, imm, out, memo);
                } else if let Some(ex) = self.externals.get(n) {
                    let t = rng.pick(ex).clone();
                    out.push(Tok { text: t, immediate: true });
                }
            }
            "STRING" => {
                *budget -= 1;
                out.push(Tok { text: v["value"].as_str().unwrap().to_string(), immediate: imm });
            }
            "PATTERN" => {
                *budget -= 1;
                let p = v["value"].as_str().unwrap();
                let t = match self.samples.get(p) {
                    Some(ex) => rng.pick(ex).clone(),
                    None => sample_regex(p, rng),
                };
                out.push(Tok { text: t, immediate: imm });
            }
            "BLANK" | "EOF" => {}
            "SEQ" => {
                let mut first = true;
                for m in v["members"].as_array().unwrap() {
                    self.expand(m, rng, budget, depth, imm && first, out, memo);
                    first = false;
                }
            }
            "CHOICE" => {
                let ms = v["members"].as_array().unwrap();
                let tight = *budget <= 0 || depth > 40;
                let m = if tight {
                    let mut best = &ms[0];
                    let mut bd = usize::MAX;
                    for m in ms {
                        let d = self.min_depth(m, memo, &mut Vec::new());
                        if d < bd {
                            bd = d;
                            best = m;
                        }
                    }
                    best
                } else {
                    &ms[rng.below(ms.len())]
                };
                self.expand(m, rng, budget, depth, imm, out, memo);
            }
            "REPEAT" | "REPEAT1" => {
                let min = if v["type"] == "REPEAT1" { 1 } else { 0 };
                let n = if *budget <= 0 { min } else { min + rng.below(((*budget as usize).min(6)) + 1) };
                for _ in 0..n {
                    self.expand(&v["content"], rng, budget, depth, false, out, memo);
                }
            }
            "IMMEDIATE_TOKEN" => {
                let start = out.len();
                self.expand(&v["content"], rng, budget, depth, true, out, memo);
                merge_token(out, start, true);
            }
            "TOKEN" => {
                let start = out.len();
                self.expand(&v["content"], rng, budget, depth, imm, out, memo);
                merge_token(out, start, imm);
            }
            _ => {
                // FIELD, ALIAS, PREC*, RESERVED
                if v.get("content").is_some() {
                    self.expand(&v["content"], rng, budget, depth, imm, out, memo);
                }
            }
        }
    }

    pub fn render(&self, toks: &[Tok], rng: &mut Rng) -> (Vec<u8>, Vec<usize>) {
        let mut text = Vec::new();
        let mut bounds = Vec::new();
        for (i, t) in toks.iter().enumerate() {
            if i > 0 && !t.immediate {
                let w = if rng.chance(1, 8) && self.ws.len() > 1 { rng.pick(&self.ws).clone() } else { self.ws[0].clone() };
                text.extend_from_slice(w.as_bytes());
            }
            bounds.push(text.len());
            text.extend_from_slice(t.text.as_bytes());
            bounds.push(text.len());
        }
        (text, bounds)
    }
}

fn merge_token(out: &mut Vec<Tok>, start: usize, imm: bool) {
    if out.len() > start {
        let s: String = out[start..].iter().map(|t| t.text.clone()).collect();
        out.truncate(start);
        out.push(Tok { text: s, immediate: imm });
    }
}

/// Very small regex sampler: literals, escapes, classes, groups, alternation, ? * + {m,n}.
pub fn sample_regex(p: &str, rng: &mut Rng) -> String {
    let cs: Vec<char> = p.chars().collect();
    let mut i = 0;
    let s = sample_alt(&cs, &mut i, rng);
    s
}

fn sample_alt(cs: &[char], i: &mut usize, rng: &mut Rng) -> String {
    let mut alts = vec![sample_seq(cs, i, rng)];
    while *i < cs.len() && cs[*i] == '|' {
        *i += 1;
        alts.push(sample_seq(cs, i, rng));
    }
    let k = rng.below(alts.len());
    alts.swap_remove(k)
}

fn sample_seq(cs: &[char], i: &mut usize, rng: &mut Rng) -> String {
    let mut out = String::new();
    while *i < cs.len() && cs[*i] != '|' && cs[*i] != ')' {
        let start = *i;
        let mut atom_rng = rng.fork();
        let one = sample_atom(cs, i, &mut atom_rng);
        let end = *i;
        // quantifier
        let (lo, hi) = if *i < cs.len() {
            match cs[*i] {
                '?' => { *i += 1; (0, 1) }
                '*' => { *i += 1; (0, 3) }
                '+' => { *i += 1; (1, 3) }
                '{' => {
                    let close = cs[*i..].iter().position(|c| *c == '}').unwrap() + *i;
                    let body: String = cs[*i + 1..close].iter().collect();
                    *i = close + 1;
                    let mut it = body.split(',');
                    let lo: usize = it.next().unwrap().trim().parse().unwrap_or(0);
                    let hi = match it.next() { None => lo, Some(h) => h.trim().parse().unwrap_or(lo + 2) };
                    (lo, hi)
                }
                _ => (1, 1),
            }
        } else { (1, 1) };
        if (lo, hi) == (1, 1) {
            out.push_str(&one);
        } else {
            let n = rng.range(lo, hi);
            for _ in 0..n {
                let mut j = start;
                let mut r2 = rng.fork();
                out.push_str(&sample_atom(&cs[..end], &mut j, &mut r2));
            }
        }
    }
    out
}

fn class_chars(cs: &[char], i: &mut usize) -> (Vec<char>, bool) {
    // cs[*i] == '['
    *i += 1;
    let mut neg = false;
    if cs[*i] == '^' { neg = true; *i += 1; }
    let mut v = Vec::new();
    while cs[*i] != ']' {
        let mut c = cs[*i];
        if c == '\\' {
            *i += 1;
            c = match cs[*i] { 'n' => '\n', 't' => '\t', 'r' => '\r', 'd' => { v.extend("0123456789".chars()); *i += 1; continue; }
                'w' => { v.extend("abcxyzABC019_".chars()); *i += 1; continue; }
                's' => { v.extend(" \t\n".chars()); *i += 1; continue; }
                o => o };
        }
        if cs[*i + 1] == '-' && cs[*i + 2] != ']' {
            let hi = cs[*i + 2];
            let (a, b) = (c as u32, hi as u32);
            let mut k = a;
            while k <= b && v.len() < 400 { if let Some(ch) = char::from_u32(k) { v.push(ch); } k += 1; }
            *i += 3;
        } else {
            v.push(c);
            *i += 1;
        }
    }
    *i += 1;
    (v, neg)
}

fn sample_atom(cs: &[char], i: &mut usize, rng: &mut Rng) -> String {
    match cs[*i] {
        '(' => {
            *i += 1;
            if *i + 1 < cs.len() && cs[*i] == '?' && cs[*i + 1] == ':' { *i += 2; }
            let s = sample_alt(cs, i, rng);
            if *i < cs.len() && cs[*i] == ')' { *i += 1; }
            s
        }
        '[' => {
            let (v, neg) = class_chars(cs, i);
            if neg {
                let cand: Vec<char> = "abcxyz019 _+-".chars().filter(|c| !v.contains(c)).collect();
                if cand.is_empty() { "q".to_string() } else { rng.pick(&cand).to_string() }
            } else {
                rng.pick(&v).to_string()
            }
        }
        '\\' => {
            *i += 1;
            let c = cs[*i];
            *i += 1;
            match c {
                'd' => rng.pick(&['0', '1', '7', '9']).to_string(),
                'w' => rng.pick(&['a', 'b', 'z', '_', 'Q', '3']).to_string(),
                's' => " ".to_string(),
                'n' => "\n".to_string(),
                't' => "\t".to_string(),
                'r' => "\r".to_string(),
                'p' | 'P' => {
                    // \p{...}: skip the class name, emit a letter
                    if *i < cs.len() && cs[*i] == '{' { while cs[*i] != '}' { *i += 1; } *i += 1; }
                    rng.pick(&['a', 'é', 'Z']).to_string()
                }
                o => o.to_string(),
            }
        }
        '.' => { *i += 1; rng.pick(&['a', 'x', '1', '-']).to_string() }
        c => { *i += 1; c.to_string() }
    }
}

/// Mutate a document at the byte level (separate malformed stream).
pub fn mutate_bytes(rng: &mut Rng, text: &[u8]) -> Vec<u8> {
    let mut t = text.to_vec();
    let k = rng.range(1, 4);
    for _ in 0..k {
        let n = t.len();
        match rng.below(5) {
            0 if n > 0 => { let i = rng.below(n); t.remove(i); }
            1 => { let i = rng.below(n + 1); t.insert(i, *rng.pick(&[b'?', b'(', b')', b'{', b';', b'"', 0u8, 0xe2, 0xff, b'\n'])); }
            2 if n > 1 => { let i = rng.below(n - 1); t.swap(i, i + 1); }
            3 if n > 0 => { let i = rng.below(n); let j = rng.range(i, n.min(i + 8)); let seg: Vec<u8> = t[i..j].to_vec(); let at = rng.below(t.len() + 1); for (o, b) in seg.iter().enumerate() { t.insert(at + o, *b); } }
            _ if n > 0 => { let i = rng.below(n); let j = rng.range(i, n.min(i + 6)); t.drain(i..j); }
            _ => {}
        }
    }
    t
}
