// Unity build for C13 and C09: drives the REAL lexer of lib/src/lexer.c with scripted programs.
//   L <id> <dochex|-> <chunking> <nranges> (sb sr sc eb er ec)*n | op op …
//     chunking: w (rest of the document), c<k> (at most k bytes), s<p1,p2,…> (up to the next split point)
//     ops: S start, A advance(false), K advance(true), M mark_end, F finish, R:<byte>:<row>:<col> reset,
//          I set_input (again), C get_column (prints the column after the state)
//     answer: <id> set=<0|1> trace=<state after each op, ';'-separated>
//     state = bytes,row,col,idx,lookahead,size,eof,ts.bytes,ts.row,ts.col,te.bytes,te.row,te.col,chunk_start,chunk_size,colvalid,colvalue[,lookahead_end after F]
//   D <id> <hex>  → <id> dec=<code point>,<return value>   (ts_decode_utf8 on the bytes)
//   E <id> le|be <hex> → <id> dec16=<code point>,<return value>   (ts_decode_utf16_le/_be on the bytes)
// Other lines are ignored.
#include TSV_REPO_LIB_C
#include <stdio.h>
#include <stdlib.h>
#include <string.h>

typedef struct { const uint8_t *doc; uint32_t len; uint32_t k; uint32_t *splits; uint32_t nsplits; } Src;

static const char *src_read(void *payload, uint32_t byte, TSPoint pt, uint32_t *n) {
  Src *s = payload; (void)pt;
  if (byte >= s->len) { *n = 0; return ""; }
  uint32_t end = s->len;
  if (s->k && byte + s->k < end) end = byte + s->k;
  for (uint32_t i = 0; i < s->nsplits; i++) if (s->splits[i] > byte && s->splits[i] < end) end = s->splits[i];
  *n = end - byte;
  return (const char *)s->doc + byte;
}

static int hexv(int c) { return c >= '0' && c <= '9' ? c - '0' : c >= 'a' && c <= 'f' ? c - 'a' + 10 : c >= 'A' && c <= 'F' ? c - 'A' + 10 : 0; }
static uint8_t *unhex(const char *h, uint32_t *len) {
  if (!strcmp(h, "-")) { *len = 0; return calloc(1, 1); }
  size_t n = strlen(h) / 2; uint8_t *b = malloc(n + 8); memset(b, 0, n + 8);
  for (size_t i = 0; i < n; i++) b[i] = (uint8_t)(hexv(h[2 * i]) * 16 + hexv(h[2 * i + 1]));
  *len = (uint32_t)n; return b;
}

static void print_state(Lexer *l, int first) {
  printf("%s%u,%u,%u,%u,%d,%u,%d,%u,%u,%u,%u,%u,%u,%u,%u,%d,%u", first ? "" : ";",
    l->current_position.bytes, l->current_position.extent.row, l->current_position.extent.column,
    l->current_included_range_index, l->data.lookahead, l->lookahead_size, l->data.eof(&l->data) ? 1 : 0,
    l->token_start_position.bytes, l->token_start_position.extent.row, l->token_start_position.extent.column,
    l->token_end_position.bytes, l->token_end_position.extent.row, l->token_end_position.extent.column,
    l->chunk_start, l->chunk_size, l->column_data.valid ? 1 : 0, l->column_data.value);
}

int main(int argc, char **argv) {
  FILE *f = argc > 1 ? fopen(argv[1], "r") : stdin;
  if (!f) return 2;
  char *line = NULL; size_t cap = 0; ssize_t len;
  while ((len = getline(&line, &cap, f)) > 0) {
    if (line[len - 1] == '\n') line[--len] = 0;
    if (line[0] == 'D' && line[1] == ' ') {
      char *id = strtok(line + 2, " "); char *hx = strtok(NULL, " ");
      uint32_t n; uint8_t *b = unhex(hx ? hx : "-", &n); int32_t cp = 0;
      uint32_t r = n ? ts_decode_utf8(b, n, &cp) : 0;
      printf("%s dec=%d,%u\n", id, n ? cp : -1, r); free(b); continue;
    }
    if (line[0] == 'E' && line[1] == ' ') {
      // E <id> le|be <hex> : ts_decode_utf16_le / _be on the bytes
      char *id = strtok(line + 2, " "); char *en = strtok(NULL, " "); char *hx = strtok(NULL, " ");
      uint32_t n; uint8_t *b = unhex(hx ? hx : "-", &n); int32_t cp = 0;
      uint16_t *al = malloc(n + 8); memcpy(al, b, n);   // the decoder reads uint16_t units
      uint32_t r = (en && en[0] == 'b') ? ts_decode_utf16_be((const uint8_t *)al, n, &cp) : ts_decode_utf16_le((const uint8_t *)al, n, &cp);
      printf("%s dec16=%d,%u\n", id, cp, r); free(b); free(al); continue;
    }
    if (line[0] != 'L' || line[1] != ' ') continue;
    char *bar = strchr(line, '|'); if (!bar) continue; *bar = 0; char *script = bar + 1;
    char *id = strtok(line + 2, " "); char *hx = strtok(NULL, " "); char *ch = strtok(NULL, " "); char *nr = strtok(NULL, " ");
    if (!id || !hx || !ch || !nr) continue;
    Src s = {0}; s.doc = unhex(hx, &s.len);
    if (ch[0] == 'c') s.k = (uint32_t)strtoul(ch + 1, NULL, 10);
    if (ch[0] == 's') { s.splits = calloc(strlen(ch) + 1, sizeof(uint32_t)); char *p = ch + 1; while (*p) { s.splits[s.nsplits++] = (uint32_t)strtoul(p, &p, 10); if (*p == ',') p++; } }
    uint32_t n = (uint32_t)strtoul(nr, NULL, 10); TSRange *rs = calloc(n + 1, sizeof *rs);
    for (uint32_t i = 0; i < n; i++) {
      uint32_t v[6]; for (int j = 0; j < 6; j++) { char *t = strtok(NULL, " "); v[j] = t ? (uint32_t)strtoul(t, NULL, 10) : 0; }
      rs[i] = (TSRange){ {v[1], v[2]}, {v[4], v[5]}, v[0], v[3] };
    }
    Lexer lx; ts_lexer_init(&lx);
    TSInput in = { &s, src_read, TSInputEncodingUTF8, NULL };
    bool ok = ts_lexer_set_included_ranges(&lx, rs, n);
    ts_lexer_set_input(&lx, in);
    printf("%s set=%d trace=", id, ok ? 1 : 0);
    int first = 1; uint32_t la_end = 0; uint32_t col = 0;
    for (char *op = strtok(script, " "); op; op = strtok(NULL, " ")) {
      switch (op[0]) {
        case 'S': ts_lexer_start(&lx); break;
        // (advance at EOF with a chunk still held - possible after get_column at EOF - is a no-op since /repo 5e58eb0)
        case 'A': lx.data.advance(&lx.data, false); break;
        case 'K': lx.data.advance(&lx.data, true); break;
        case 'M': lx.data.mark_end(&lx.data); break;
        case 'F': ts_lexer_finish(&lx, &la_end); break;
        case 'I': ts_lexer_set_input(&lx, in); break;
        case 'C': col = lx.data.get_column(&lx.data); break;
        case 'R': { unsigned b = 0, r = 0, c = 0; sscanf(op, "R:%u:%u:%u", &b, &r, &c); ts_lexer_reset(&lx, (Length){b, {r, c}}); break; }
        default: continue;
      }
      print_state(&lx, first); first = 0;
      if (op[0] == 'F') printf(",%u", la_end);
      if (op[0] == 'C') printf(",%u", col);
    }
    printf("\n");
    ts_lexer_delete(&lx); free((void *)s.doc); free(s.splits); free(rs);
  }
  return 0;
}
