// C16 unity driver: dumps the parse-table data of real generated languages and the answers of the
// REAL `ts_language_lookup`, `ts_language_lookaheads` / `ts_lookahead_iterator__next`,
// `ts_language_symbol_for_name`, `ts_language_field_id_for_name` for ALL states / symbols / names.
// It also parses documents with the real parser and prints the visible tree with every field name.
// usage: tsv-cunit_c16 <list-file>   lines: "lang <id> <lang.so> <tree_sitter_fn> <small_len>" | "doc <case> <hex>"
#undef _POSIX_C_SOURCE
#define _POSIX_C_SOURCE 200809L
#include TSV_REPO_LIB_C
#include <dlfcn.h>
#include <sys/resource.h>
#include <stdio.h>
#include <string.h>

static void hexs(const char *s) {
  if (!s) { printf("?"); return; }
  if (!*s) { printf("-"); return; }
  for (; *s; s++) printf("%02x", (unsigned char)*s);
}

static void probe(const TSLanguage *l, const char *name, bool named) {
  printf("probe %d ", named); hexs(name);
  printf(" %u\n", (unsigned)ts_language_symbol_for_name(l, name, (uint32_t)strlen(name), named));
}

static const TSLanguage *dump(const char *id, const char *so, const char *fn, unsigned small_len) {
  void *h = dlopen(so, RTLD_NOW | RTLD_LOCAL);
  if (!h) { fprintf(stderr, "dlopen %s: %s\n", so, dlerror()); return NULL; }
  const TSLanguage *(*f)(void) = (const TSLanguage *(*)(void))dlsym(h, fn);
  if (!f) { fprintf(stderr, "dlsym %s\n", fn); return NULL; }
  const TSLanguage *l = f();
  unsigned total = l->symbol_count + l->alias_count;
  // TSLanguage does not store the length of small_parse_table: it is the end of the last group of
  // the small state that reaches furthest (the list file may pass 0 = unknown)
  if (small_len == 0) {
    for (unsigned st = l->large_state_count; st < l->state_count; st++) {
      unsigned i = l->small_parse_table_map[st - l->large_state_count];
      unsigned groups = l->small_parse_table[i++];
      for (unsigned g = 0; g < groups; g++) { unsigned n = l->small_parse_table[i + 1]; i += 2 + n; }
      if (i > small_len) small_len = i;
    }
  }
  fflush(stdout);
  printf("lang %s %u %u %u %u %u %u %u %u\n", id, l->symbol_count, l->alias_count, l->token_count,
         l->state_count, l->large_state_count, l->field_count, small_len, (unsigned)l->keyword_capture_token);
  printf("pt");
  for (unsigned i = 0; i < l->large_state_count * l->symbol_count; i++) printf(" %u", l->parse_table[i]);
  printf("\nspt");
  for (unsigned i = 0; i < small_len; i++) printf(" %u", l->small_parse_table[i]);
  printf("\nspm");
  for (unsigned i = 0; i + l->large_state_count < l->state_count; i++) printf(" %u", l->small_parse_table_map[i]);
  printf("\n");
  // real lookup over everything; remember the largest action index
  unsigned max_action = 0;
  for (unsigned s = 0; s < l->state_count; s++) {
    printf("nz %u", s);
    for (unsigned y = 0; y < l->symbol_count; y++) {
      uint16_t v = ts_language_lookup(l, (TSStateId)s, (TSSymbol)y);
      if (v) {
        printf(" %u:%u", y, v);
        if (y < l->token_count && v > max_action) max_action = v;
      }
    }
    printf("\n");
  }
  printf("ac");
  for (unsigned i = 0; i <= max_action; i++) printf(" %u", (unsigned)l->parse_actions[i].entry.count);
  printf("\n");
  // the action list behind every index (as ts_language_table_entry hands it to the parser), and the lex modes
  for (unsigned i = 0; i <= max_action;) {
    unsigned c = l->parse_actions[i].entry.count;
    printf("pa %u", i);
    for (unsigned j = 1; j <= c; j++) {
      TSParseAction a = l->parse_actions[i + j].action;
      switch (a.type) {
        case TSParseActionTypeShift: printf(" S,%u,%d,%d", (unsigned)a.shift.state, a.shift.extra ? 1 : 0, a.shift.repetition ? 1 : 0); break;
        case TSParseActionTypeReduce: printf(" R,%u,%u,%d,%u", (unsigned)a.reduce.symbol, (unsigned)a.reduce.child_count,
                                             (int)a.reduce.dynamic_precedence, (unsigned)a.reduce.production_id); break;
        case TSParseActionTypeAccept: printf(" A"); break;
        case TSParseActionTypeRecover: printf(" V"); break;
        default: printf(" ?%u", (unsigned)a.type); break;
      }
    }
    printf("\n");
    i += c + 1;
  }
  printf("lm");
  for (unsigned s = 0; s < l->state_count; s++) printf(" %u", (unsigned)l->lex_modes[s].lex_state);
  printf("\n");
  // every reduce action: symbol, child count, and the production's own (not inherited) fields and aliases by child index
  for (unsigned i = 0; i <= max_action;) {
    unsigned c = l->parse_actions[i].entry.count;
    for (unsigned j = 1; j <= c; j++) {
      TSParseAction a = l->parse_actions[i + j].action;
      if (a.type != TSParseActionTypeReduce) continue;
      printf("red %u %u %u f", (unsigned)a.reduce.symbol, (unsigned)a.reduce.child_count, (unsigned)a.reduce.production_id);
      const TSFieldMapEntry *fs, *fe;
      ts_language_field_map(l, a.reduce.production_id, &fs, &fe);
      for (const TSFieldMapEntry *e = fs; e && e < fe; e++)
        if (!e->inherited) printf(" %u:%u", (unsigned)e->child_index, (unsigned)e->field_id);
      printf(" a");
      const TSSymbol *as = ts_language_alias_sequence(l, a.reduce.production_id);
      for (unsigned k = 0; as && k < a.reduce.child_count; k++) if (as[k]) printf(" %u:%u", k, (unsigned)as[k]);
      printf("\n");
    }
    i += c + 1;
  }
  // real iterator for every state; two extra calls after the end must stay false
  for (unsigned s = 0; s < l->state_count; s++) {
    LookaheadIterator it = ts_language_lookaheads(l, (TSStateId)s);
    printf("la %u", s);
    unsigned guard = 0;
    while (guard++ < l->symbol_count + 8 && ts_lookahead_iterator__next(&it))
      printf(" %u:%u:%u:%u", (unsigned)it.symbol, (unsigned)it.table_value, (unsigned)it.next_state, (unsigned)it.action_count);
    bool again = guard > l->symbol_count + 8 || ts_lookahead_iterator__next(&it) || ts_lookahead_iterator__next(&it);
    printf(" end:%d\n", again ? 1 : 0);
  }
  for (unsigned i = 0; i < total; i++) {
    TSSymbolMetadata m = l->symbol_metadata[i];
    const char *name = l->symbol_names[i];
    printf("sym %u %d %d %d %u ", i, m.visible, m.named, m.supertype, (unsigned)l->public_symbol_map[i]);
    hexs(name);
    printf(" %u\n", (unsigned)ts_language_symbol_for_name(l, name, (uint32_t)strlen(name), m.named));
  }
  static const char *probes[] = {"", "E", "ER", "ERR", "ERRO", "ERROR", "ERRORX", "end", "_ERROR", "zzz_none"};
  for (unsigned i = 0; i < sizeof(probes) / sizeof(probes[0]); i++) { probe(l, probes[i], true); probe(l, probes[i], false); }
  for (unsigned i = 1; i <= l->field_count; i++) {
    const char *name = l->field_names[i];
    printf("fld %u ", i); hexs(name);
    printf(" %u\n", (unsigned)ts_language_field_id_for_name(l, name, (uint32_t)strlen(name)));
  }
  {
    uint32_t nsup = 0;
    const TSSymbol *sups = ts_language_supertypes(l, &nsup);
    for (uint32_t i = 0; i < nsup; i++) {
      uint32_t nsub = 0;
      const TSSymbol *subs = ts_language_subtypes(l, sups[i], &nsub);
      printf("sup %u ", (unsigned)sups[i]);
      if (!nsub) printf("-");
      for (uint32_t j = 0; j < nsub; j++) printf("%s%u", j ? "," : "", (unsigned)subs[j]);
      printf("\n");
    }
  }
  printf("endlang %s\n", id);
  fflush(stdout);
  return l;
}


// ---------------------------------------------------------------------------------------------
// real parses: the visible tree with ALL field names each child carries (computed from the
// production's field map through hidden ancestors), cross-checked against the public node API.

typedef struct { unsigned n; TSFieldId ids[16]; } FieldSet;
typedef struct { Subtree tree; TSSymbol symbol; uint32_t start, end; bool extra; FieldSet fields; } Kid;
typedef struct { Kid *v; size_t n, cap; } KidVec;

static void fs_add(FieldSet *f, TSFieldId id) {
  for (unsigned i = 0; i < f->n; i++) if (f->ids[i] == id) return;
  if (f->n < 16) f->ids[f->n++] = id;
}

static void collect_kids(const TSLanguage *l, Subtree parent, uint32_t pos, FieldSet inherited, KidVec *out) {
  uint32_t n = ts_subtree_child_count(parent);
  if (!n) return;
  const TSSymbol *alias_seq = ts_language_alias_sequence(l, parent.ptr->production_id);
  const TSFieldMapEntry *fm, *fm_end;
  ts_language_field_map(l, parent.ptr->production_id, &fm, &fm_end);
  uint32_t structural = 0;
  for (uint32_t i = 0; i < n; i++) {
    Subtree c = ts_subtree_children(parent)[i];
    bool extra = ts_subtree_extra(c);
    TSSymbol alias = 0;
    FieldSet fields = {0};
    if (!extra) {
      if (alias_seq) alias = alias_seq[structural];
      fields = inherited;
      for (const TSFieldMapEntry *e = fm; e < fm_end; e++)
        if (!e->inherited && e->child_index == structural) fs_add(&fields, e->field_id);
      structural++;
    }
    uint32_t start = pos + ts_subtree_padding(c).bytes;
    uint32_t end = start + ts_subtree_size(c).bytes;
    if (alias || ts_subtree_visible(c)) {
      if (out->n == out->cap) { out->cap = out->cap ? out->cap * 2 : 16; out->v = realloc(out->v, out->cap * sizeof(Kid)); }
      Kid k = { c, ts_language_public_symbol(l, alias ? alias : ts_subtree_symbol(c)), start, end, extra, fields };
      out->v[out->n++] = k;
    } else if (ts_subtree_child_count(c) > 0) {
      collect_kids(l, c, pos, fields, out);
    }
    pos = end;
  }
}

typedef struct { unsigned nodes, mismatches, with_field, multi_field, aliased, kindbad; } WalkStats;

static void walk(const TSLanguage *l, TSNode node, Subtree self, TSSymbol symbol, uint32_t start, bool extra,
                 FieldSet fields, unsigned depth, WalkStats *st) {
  TSSymbolMetadata m = ts_language_symbol_metadata(l, symbol);
  printf("v %u %u %d %d ", depth, (unsigned)symbol, m.named, extra);
  hexs(ts_language_symbol_name(l, symbol));
  printf(" ");
  if (!fields.n) printf("-");
  for (unsigned i = 0; i < fields.n; i++) { if (i) printf(","); hexs(l->field_names[fields.ids[i]]); }
  printf("\n");
  st->nodes++;
  if (fields.n) st->with_field++;
  if (fields.n > 1) st->multi_field++;
  if (symbol != ts_language_public_symbol(l, ts_subtree_symbol(self))) st->aliased++;
  // cross-check this node against the public API
  if (ts_node_symbol(node) != symbol || ts_node_start_byte(node) != start) st->mismatches++;
  // JUDGE (names round-trip on every node): the node's kind id names the node's kind, is named exactly
  // when the node is, and is found again from (kind, is_named)
  {
    const char *type = ts_node_type(node);
    bool named = ts_node_is_named(node);
    TSSymbol kind_id = ts_node_symbol(node);
    const char *name_of_id = ts_language_symbol_name(l, kind_id);
    TSSymbolType ty = ts_language_symbol_type(l, kind_id);
    if (!type || !name_of_id || strcmp(type, name_of_id) != 0 ||
        (ty == TSSymbolTypeRegular) != named ||
        ts_language_symbol_for_name(l, type, (uint32_t)strlen(type), named) != kind_id) st->kindbad++;
  }
  KidVec kv = {0};
  FieldSet none = {0};
  collect_kids(l, self, start - ts_subtree_padding(self).bytes, none, &kv);
  if (ts_node_child_count(node) != kv.n) st->mismatches++;
  // first child per field must agree with ts_node_child_by_field_id
  for (TSFieldId f = 1; f <= l->field_count; f++) {
    TSNode r = ts_node_child_by_field_id(node, f);
    size_t j = 0;
    while (j < kv.n) { bool has = false; for (unsigned q = 0; q < kv.v[j].fields.n; q++) if (kv.v[j].fields.ids[q] == f) has = true; if (has) break; j++; }
    if (j == kv.n) { if (!ts_node_is_null(r)) st->mismatches++; }
    else if (ts_node_is_null(r) || ts_node_start_byte(r) != kv.v[j].start || ts_node_symbol(r) != kv.v[j].symbol) st->mismatches++;
  }
  for (size_t i = 0; i < kv.n && i < ts_node_child_count(node); i++) {
    TSNode ch = ts_node_child(node, (uint32_t)i);
    const char *fname = ts_node_field_name_for_child(node, (uint32_t)i);
    Kid *k = &kv.v[i];
    bool ok = true;
    if (fname) {
      ok = false;
      for (unsigned q = 0; q < k->fields.n; q++) if (!strcmp(l->field_names[k->fields.ids[q]], fname)) ok = true;
    } else if (k->fields.n) ok = false;
    if (!ok || ts_node_end_byte(ch) != k->end || ts_node_is_extra(ch) != k->extra) st->mismatches++;
    walk(l, ch, k->tree, k->symbol, k->start, k->extra, k->fields, depth + 1, st);
  }
  free(kv.v);
}

// (parse_state, symbol) of every subtree: the state in which a token was lexed / a node was reduced
static void states(Subtree t, bool root) {
  TSStateId ps = ts_subtree_parse_state(t);
  if (!root && ps != TS_TREE_STATE_NONE && !ts_subtree_missing(t))
    printf(" %u:%u:%d", (unsigned)ps, (unsigned)ts_subtree_symbol(t), ts_subtree_child_count(t) == 0);
  for (uint32_t i = 0; i < ts_subtree_child_count(t); i++) states(ts_subtree_children(t)[i], false);
}

typedef struct { unsigned max_versions; int cur_state; char cur_name[256]; bool have_name; unsigned pairs; bool armed; FILE *out; } LogState;
static LogState g_log;

static void on_log(void *payload, TSLogType type, const char *msg) {
  (void)payload;
  if (type != TSLogTypeParse) return;
  unsigned v, vc; int state; unsigned row, col;
  if (sscanf(msg, "process version:%u, version_count:%u, state:%d, row:%u, col:%u", &v, &vc, &state, &row, &col) == 5) {
    if (vc > g_log.max_versions) g_log.max_versions = vc;
    g_log.cur_state = state; g_log.armed = true;
    return;
  }
  if (!strncmp(msg, "lexed_lookahead sym:", 20)) {
    const char *p = msg + 20; const char *e = strstr(p, ", size:");
    // the name may itself contain ", size:"; take the LAST occurrence
    for (const char *q = e; q; q = strstr(q + 1, ", size:")) e = q;
    size_t n = e ? (size_t)(e - p) : strlen(p);
    if (n > 255) n = 255;
    memcpy(g_log.cur_name, p, n); g_log.cur_name[n] = 0; g_log.have_name = true;
    return;
  }
  if (!strncmp(msg, "switch from_keyword:", 20)) {
    const char *p = strstr(msg, ", to_word_token:");
    for (const char *q = p; q; q = strstr(q + 1, ", to_word_token:")) p = q;
    if (p) { strncpy(g_log.cur_name, p + 16, 255); g_log.cur_name[255] = 0; }
    return;
  }
  if (!strcmp(msg, "no_lookahead_after_non_terminal_extra")) { strcpy(g_log.cur_name, "end"); g_log.have_name = true; return; }
  bool act = !strncmp(msg, "shift state:", 12) || !strcmp(msg, "shift_extra") || !strncmp(msg, "reduce sym:", 11) || !strcmp(msg, "accept");
  if (act && g_log.armed && g_log.have_name) {
    // first action after "process": the state is the logged one, the look-ahead is the current token
    g_log.armed = false;
    fprintf(g_log.out, "accn %d ", g_log.cur_state);
    for (const char *c = g_log.cur_name; *c; c++) fprintf(g_log.out, "%02x", (unsigned char)*c);
    if (!*g_log.cur_name) fprintf(g_log.out, "-");
    fprintf(g_log.out, "\n");
    g_log.pairs++;
  }
}

static unsigned g_progress;
static bool on_progress(TSParseState *st) { (void)st; return ++g_progress > 200000; }

static void parse_doc(const TSLanguage *l, TSParser *parser, const char *case_id, const char *lang_id, const char *hex) {
  size_t n = !strcmp(hex, "-") ? 0 : strlen(hex) / 2;
  char *text = malloc(n + 1);
  for (size_t i = 0; i < n; i++) { unsigned b; sscanf(hex + 2 * i, "%2x", &b); text[i] = (char)b; }
  text[n] = 0;
  char *logbuf = NULL; size_t logsz = 0;
  FILE *mem = open_memstream(&logbuf, &logsz);
  memset(&g_log, 0, sizeof g_log);
  g_log.out = mem;
  g_progress = 0;
  ts_parser_reset(parser);
  TSLogger lg = { NULL, on_log };
  ts_parser_set_logger(parser, lg);
  TSInput dummy; (void)dummy;
  TSTree *tree = ts_parser_parse_string(parser, NULL, text, (uint32_t)n);
  fclose(mem);
  if (!tree) { printf("tree %s %s none\n", case_id, lang_id); free(logbuf); free(text); return; }
  TSNode root = ts_tree_root_node(tree);
  bool err = ts_node_has_error(root);
  printf("tree %s %s %s bytes=%zu versions=%u\n", case_id, lang_id, err ? "error" : "ok", n, g_log.max_versions);
  if (!err) {
    WalkStats st = {0};
    FieldSet none = {0};
    Subtree rs = tree->root;
    walk(l, root, rs, ts_node_symbol(root), ts_node_start_byte(root), false, none, 0, &st);
    if (g_log.max_versions <= 1) { printf("accs"); states(rs, true); printf("\n"); }
    fputs(logbuf, stdout);
    printf("endtree %s nodes=%u xmismatch=%u withfield=%u multifield=%u aliased=%u kindbad=%u\n", case_id, st.nodes, st.mismatches,
           st.with_field, st.multi_field, st.aliased, st.kindbad);
  }
  ts_tree_delete(tree);
  free(logbuf); free(text);
}

int main(int argc, char **argv) {
  if (argc < 2) { fprintf(stderr, "usage: %s <list-file>\n", argv[0]); return 2; }
  struct rlimit rl = { 8ull << 30, 8ull << 30 };
  setrlimit(RLIMIT_AS, &rl);
  FILE *f = fopen(argv[1], "r");
  if (!f) { perror(argv[1]); return 2; }
  char *line = NULL; size_t cap = 0; ssize_t len;
  const TSLanguage *cur = NULL; char cur_id[512] = "";
  TSParser *parser = ts_parser_new();
  int rc = 0;
  while ((len = getline(&line, &cap, f)) > 0) {
    if (line[len - 1] == '\n') line[--len] = 0;
    if (!strncmp(line, "lang ", 5)) {
      char id[512], so[2048], fn[512]; unsigned small_len;
      if (sscanf(line + 5, "%511s %2047s %511s %u", id, so, fn, &small_len) != 4) { rc = 1; continue; }
      cur = dump(id, so, fn, small_len);
      strcpy(cur_id, id);
      if (!cur) { rc = 1; continue; }
      if (!ts_parser_set_language(parser, cur)) { fprintf(stderr, "set_language failed for %s\n", id); cur = NULL; rc = 1; }
    } else if (!strncmp(line, "doc ", 4) && cur) {
      char *id = line + 4; char *sp = strchr(id, ' ');
      if (!sp) continue;
      *sp = 0;
      parse_doc(cur, parser, id, cur_id, sp + 1);
    }
  }
  ts_parser_delete(parser);
  fclose(f);
  return rc;
}
