// Unity build for C04: calls the real (static) range-array functions of
// lib/src/get_changed_ranges.c on the `F …` lines of an ops file (argv[1]) and prints
// `<id> out=…` in the format of lean/Drivers/C04.lean.  Other lines are ignored.
#include TSV_REPO_LIB_C
#include <stdio.h>
#include <stdlib.h>
#include <string.h>

static unsigned long *nums; static size_t nnums, pos;

static int rd_range(TSRange *r) {
  if (pos + 6 > nnums) return 0;
  r->start_byte = (uint32_t)nums[pos]; r->start_point.row = (uint32_t)nums[pos + 1]; r->start_point.column = (uint32_t)nums[pos + 2];
  r->end_byte = (uint32_t)nums[pos + 3]; r->end_point.row = (uint32_t)nums[pos + 4]; r->end_point.column = (uint32_t)nums[pos + 5];
  pos += 6;
  return 1;
}

static void print_ranges(const char *id, TSRangeArray *a) {
  printf("%s out=", id);
  if (a->size == 0) printf("-");
  for (unsigned i = 0; i < a->size; i++) {
    TSRange *r = &a->contents[i];
    printf("%s%u:%u:%u-%u:%u:%u", i ? "," : "", r->start_byte, r->start_point.row, r->start_point.column,
           r->end_byte, r->end_point.row, r->end_point.column);
  }
  printf("\n");
}

int main(int argc, char **argv) {
  FILE *f = argc > 1 ? fopen(argv[1], "r") : stdin;
  if (!f) return 2;
  char *line = NULL; size_t cap = 0; ssize_t len;
  while ((len = getline(&line, &cap, f)) > 0) {
    if (line[0] != 'F' || line[1] != ' ') continue;
    char id[128], op[32]; int off = 0;
    if (sscanf(line, "F %127s %31s%n", id, op, &off) < 2) continue;
    nums = realloc(nums, (size_t)len * sizeof *nums); nnums = 0; pos = 0;
    char *p = line + off;
    for (;;) { char *e; unsigned long v = strtoul(p, &e, 10); if (e == p) break; nums[nnums++] = v; p = e; }
#ifdef TSV_NO_STATIC_ADD
    // the static `ts_range_array_add` is not reachable under its usual name (renamed / inlined): the direct
    // call sequences are skipped; `add` stays covered through ts_range_array_get_changed_ranges (symdiff lines)
    // and through ts_tree_get_changed_ranges at system level
    if (!strcmp(op, "add")) { printf("%s out=SKIP\n", id); continue; }
#else
    if (!strcmp(op, "add")) {
      size_t k = nums[pos++]; TSRangeArray a = array_new(); TSRange r; int ok = 1;
      for (size_t i = 0; i < k && ok; i++) {
        ok = rd_range(&r);
        if (ok) ts_range_array_add(&a, (Length){r.start_byte, r.start_point}, (Length){r.end_byte, r.end_point});
      }
      if (ok) print_ranges(id, &a); else printf("%s out=BADINPUT\n", id);
      array_delete(&a);
    } else
#endif
    if (!strcmp(op, "isect")) {
      size_t n = nums[pos++]; TSRangeArray a = array_new(); TSRange r; int ok = 1;
      for (size_t i = 0; i < n && ok; i++) { ok = rd_range(&r); if (ok) array_push(&a, r); }
      if (ok && pos + 3 == nnums) {
        bool b = ts_range_array_intersects(&a, (unsigned)nums[pos], (uint32_t)nums[pos + 1], (uint32_t)nums[pos + 2]);
        printf("%s out=%d\n", id, b ? 1 : 0);
      } else printf("%s out=BADINPUT\n", id);
      array_delete(&a);
    } else if (!strcmp(op, "symdiff")) {
      size_t no = nums[pos++]; TSRange *o = calloc(no + 1, sizeof *o); int ok = 1;
      for (size_t i = 0; i < no && ok; i++) ok = rd_range(&o[i]);
      size_t nn = ok && pos < nnums ? nums[pos++] : 0; TSRange *n = calloc(nn + 1, sizeof *n);
      for (size_t i = 0; i < nn && ok; i++) ok = rd_range(&n[i]);
      TSRangeArray d = array_new();
      if (ok) { ts_range_array_get_changed_ranges(o, (unsigned)no, n, (unsigned)nn, &d); print_ranges(id, &d); }
      else printf("%s out=BADINPUT\n", id);
      array_delete(&d); free(o); free(n);
    } else printf("%s out=BADINPUT\n", id);
  }
  return 0;
}
