// Unity build for C03/C15: the whole runtime of /repo (lib.c) + a language-table dumper.
// Every table cell is decoded by the REAL `ts_language_lookup` / `ts_language_table_entry` /
// `ts_language_lex_mode_for_state` / alias / field-map accessors of lib/src/language.h, so the dump is
// what the runtime itself sees when it drives a parse with this language.
//
// stdin:  dump <path/to/lang.so> <tree_sitter_NAME>
// stdout: lang … / sym … / state … / a … / g … / alias … / fmap … / field … / end   (format below)
#include TSV_REPO_LIB_C
#include <dlfcn.h>
#include <stdio.h>
#include <string.h>

static void hexname(const char *s) {
  if (!s || !*s) { printf("-"); return; }
  for (const unsigned char *p = (const unsigned char *)s; *p; p++) printf("%02x", *p);
}

static void dump_language(const TSLanguage *L) {
  printf("lang %u %u %u %u %u %u %u %u %u %u %u\n", L->abi_version, L->symbol_count, L->alias_count,
         L->token_count, L->external_token_count, L->state_count, L->large_state_count,
         L->production_id_count, L->field_count, (unsigned)L->max_alias_sequence_length,
         (unsigned)L->keyword_capture_token);
  for (uint32_t i = 0; i < L->symbol_count + L->alias_count; i++) {
    TSSymbolMetadata m = ts_language_symbol_metadata(L, (TSSymbol)i);
    printf("sym %u %d %d %d %u ", i, m.visible, m.named, m.supertype,
           (unsigned)(i < L->symbol_count ? ts_language_public_symbol(L, (TSSymbol)i) : i));
    hexname(ts_language_symbol_name(L, (TSSymbol)i));
    printf("\n");
  }
  for (uint32_t f = 1; f <= L->field_count; f++) {
    printf("field %u ", f);
    hexname(L->field_names[f]);
    printf("\n");
  }
  for (uint32_t s = 0; s < L->state_count; s++) {
    TSLexerMode m = ts_language_lex_mode_for_state(L, (TSStateId)s);
    printf("state %u %u %u %u %u\n", s, (unsigned)m.lex_state, (unsigned)m.external_lex_state,
           (unsigned)m.reserved_word_set_id,
           (unsigned)(L->abi_version >= LANGUAGE_VERSION_WITH_PRIMARY_STATES ? L->primary_state_ids[s] : s));
    // the RAW content of this state's row, not decoded by the runtime: a large state's row of
    // `parse_table`, or a small state's record of `small_parse_table` (group count, then per group:
    // value, symbol count, symbols).  The Lean side decodes it by its own model of the format and
    // compares every cell with what `ts_language_lookup` returns (`v` lines).
    if (s < L->large_state_count) {
      printf("rawL %u", s);
      for (uint32_t y = 0; y < L->symbol_count; y++) printf(" %u", (unsigned)L->parse_table[s * L->symbol_count + y]);
      printf("\n");
    } else {
      const uint16_t *d = &L->small_parse_table[L->small_parse_table_map[s - L->large_state_count]];
      uint16_t gc = *d;
      printf("rawS %u %u", s, (unsigned)gc);
      d++;
      for (unsigned i = 0; i < gc; i++) {
        uint16_t val = *(d++), cnt = *(d++);
        printf(" %u %u", (unsigned)val, (unsigned)cnt);
        for (unsigned j = 0; j < cnt; j++) printf(" %u", (unsigned)*(d++));
      }
      printf("\n");
    }
    printf("v %u", s);
    for (uint32_t y = 0; y < L->symbol_count; y++) printf(" %u", (unsigned)ts_language_lookup(L, (TSStateId)s, (TSSymbol)y));
    printf("\n");
    for (uint32_t y = 0; y < L->symbol_count; y++) {
      uint16_t v = ts_language_lookup(L, (TSStateId)s, (TSSymbol)y);
      if (!v) continue;
      if (y < L->token_count) {
        TableEntry e;
        ts_language_table_entry(L, (TSStateId)s, (TSSymbol)y, &e);
        printf("a %u %u %d %u", s, y, e.is_reusable ? 1 : 0, e.action_count);
        for (uint32_t k = 0; k < e.action_count; k++) {
          TSParseAction a = e.actions[k];
          switch (a.type) {
            case TSParseActionTypeShift:
              printf(" S,%u,%d,%d", (unsigned)a.shift.state, a.shift.extra ? 1 : 0, a.shift.repetition ? 1 : 0);
              break;
            case TSParseActionTypeReduce:
              printf(" R,%u,%u,%d,%u", (unsigned)a.reduce.symbol, (unsigned)a.reduce.child_count,
                     (int)a.reduce.dynamic_precedence, (unsigned)a.reduce.production_id);
              break;
            case TSParseActionTypeAccept: printf(" A"); break;
            case TSParseActionTypeRecover: printf(" V"); break;
            default: printf(" ?%u", (unsigned)a.type); break;
          }
        }
        printf("\n");
      } else {
        printf("g %u %u %u\n", s, y, (unsigned)v);
      }
    }
  }
  for (uint32_t p = 1; p < L->production_id_count; p++) {
    for (uint32_t c = 0; c < L->max_alias_sequence_length; c++) {
      TSSymbol a = ts_language_alias_at(L, p, c);
      if (a) printf("alias %u %u %u\n", p, c, (unsigned)a);
    }
  }
  for (uint32_t p = 0; p < L->production_id_count; p++) {
    const TSFieldMapEntry *b, *e;
    ts_language_field_map(L, p, &b, &e);
    for (const TSFieldMapEntry *q = b; q && q < e; q++)
      printf("fmap %u %u %u %d\n", p, (unsigned)q->field_id, (unsigned)q->child_index, q->inherited ? 1 : 0);
  }
  printf("end\n");
}

int main(void) {
  char line[8192], path[4096], name[1024];
  while (fgets(line, sizeof line, stdin)) {
    if (sscanf(line, "dump %4095s %1023s", path, name) == 2) {
      void *h = dlopen(path, RTLD_NOW | RTLD_LOCAL);
      if (!h) { printf("error dlopen %s\nend\n", dlerror()); fflush(stdout); continue; }
      const TSLanguage *(*fn)(void) = (const TSLanguage *(*)(void))dlsym(h, name);
      if (!fn) { printf("error dlsym %s\nend\n", name); fflush(stdout); continue; }
      dump_language(fn());
      fflush(stdout);
    }
  }
  return 0;
}
