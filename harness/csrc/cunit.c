// Unity build of the tree-sitter runtime: every function, `static` ones included, is callable.
// Line protocol for validating the translator: "<function> <uint args...>" -> result fields.
#include TSV_REPO_LIB_C
#include <stdio.h>
#include <string.h>
#include <inttypes.h>

static TSPoint P(uint32_t *a) { TSPoint p = {a[0], a[1]}; return p; }
static Length L(uint32_t *a) { Length l = {a[0], {a[1], a[2]}}; return l; }
static void pp(TSPoint p) { printf("%u %u", p.row, p.column); }
static void pl(Length l) { printf("%u %u %u", l.bytes, l.extent.row, l.extent.column); }

int main(void) {
  char line[4096];
  while (fgets(line, sizeof line, stdin)) {
    char fn[64]; uint32_t a[32] = {0}; int n = 0, off = 0, k;
    if (sscanf(line, "%63s%n", fn, &off) != 1) continue;
    char *p = line + off;
    while (n < 32 && sscanf(p, "%" SCNu32 "%n", &a[n], &k) == 1) { p += k; n++; }
    if (!strcmp(fn, "point_add")) pp(point_add(P(a), P(a + 2)));
    else if (!strcmp(fn, "point_sub")) pp(point_sub(P(a), P(a + 2)));
    else if (!strcmp(fn, "point_lte")) printf("%d", point_lte(P(a), P(a + 2)));
    else if (!strcmp(fn, "point_lt")) printf("%d", point_lt(P(a), P(a + 2)));
    else if (!strcmp(fn, "point_gt")) printf("%d", point_gt(P(a), P(a + 2)));
    else if (!strcmp(fn, "point_gte")) printf("%d", point_gte(P(a), P(a + 2)));
    else if (!strcmp(fn, "point_eq")) printf("%d", point_eq(P(a), P(a + 2)));
    else if (!strcmp(fn, "length_add")) pl(length_add(L(a), L(a + 3)));
    else if (!strcmp(fn, "length_sub")) pl(length_sub(L(a), L(a + 3)));
    else if (!strcmp(fn, "length_min")) pl(length_min(L(a), L(a + 3)));
    else if (!strcmp(fn, "length_saturating_sub")) pl(length_saturating_sub(L(a), L(a + 3)));
    else if (!strcmp(fn, "length_is_undefined")) printf("%d", length_is_undefined(L(a)));
    else if (!strcmp(fn, "length_backtrack")) pl(length_backtrack(L(a), L(a + 3)));
    else if (!strcmp(fn, "ts_subtree_can_inline")) printf("%d", ts_subtree_can_inline(L(a), L(a + 3), a[6]));
    else if (!strcmp(fn, "ts_point_edit")) {
      // point(2) byte(1) edit: start old_end new_end (3) start_point old_end_point new_end_point (6)
      TSPoint pt = P(a); uint32_t b = a[2];
      TSInputEdit e = {a[3], a[4], a[5], P(a + 6), P(a + 8), P(a + 10)};
      ts_point_edit(&pt, &b, &e);
      pp(pt); printf(" %u", b);
    } else if (!strcmp(fn, "ts_range_edit")) {
      // range: start_point(2) end_point(2) start_byte end_byte ; edit as above
      TSRange r = {P(a), P(a + 2), a[4], a[5]};
      TSInputEdit e = {a[6], a[7], a[8], P(a + 9), P(a + 11), P(a + 13)};
      ts_range_edit(&r, &e);
      pp(r.start_point); printf(" "); pp(r.end_point); printf(" %u %u", r.start_byte, r.end_byte);
    } else if (!strcmp(fn, "quantifier_mul")) printf("%d", (int)quantifier_mul((TSQuantifier)a[0], (TSQuantifier)a[1]));
    else if (!strcmp(fn, "quantifier_join")) printf("%d", (int)quantifier_join((TSQuantifier)a[0], (TSQuantifier)a[1]));
    else if (!strcmp(fn, "quantifier_add")) printf("%d", (int)quantifier_add((TSQuantifier)a[0], (TSQuantifier)a[1]));
    else if (!strcmp(fn, "compare_versions")) {
      // a: cost node_count dynamic_precedence+1000000 is_in_error ; b likewise -> verdict 0..4
      ErrorStatus x = {a[0], a[1], (int)a[2] - 1000000, a[3] != 0};
      ErrorStatus y = {a[4], a[5], (int)a[6] - 1000000, a[7] != 0};
      printf("%d", (int)ts_parser__compare_versions(NULL, x, y));
    } else if (!strcmp(fn, "const2")) printf("%u", (unsigned)MAX_COST_DIFFERENCE);
    else if (!strcmp(fn, "const")) {
      printf("%u %u %u %u %u %u %u %u %u %u", (unsigned)TS_MAX_INLINE_TREE_LENGTH, (unsigned)TS_MAX_TREE_POOL_SIZE,
        (unsigned)ERROR_COST_PER_RECOVERY, (unsigned)ERROR_COST_PER_MISSING_TREE, (unsigned)ERROR_COST_PER_SKIPPED_TREE,
        (unsigned)ERROR_COST_PER_SKIPPED_LINE, (unsigned)ERROR_COST_PER_SKIPPED_CHAR, (unsigned)MAX_LINK_COUNT,
        (unsigned)MAX_NODE_POOL_SIZE, (unsigned)MAX_ITERATOR_COUNT);
    } else printf("unknown");
    printf("\n");
  }
  return 0;
}
