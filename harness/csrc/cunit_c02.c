// Unity build used by C02 and C06: the whole runtime of /repo is included, so the static-inline
// table accessors of language.h (alias sequences, field maps) are the REAL ones.
//
//   tsv-cunit_c02 lang <lang.so> <tree_sitter_NAME>
//       dumps the data tables of a generated language that the tree summaries and the
//       navigation code read (symbol metadata, public symbol map, alias sequences, field maps).
//
// Line format (one record per line, names hex-encoded so that they never contain blanks):
//   language <symbol_count> <alias_count> <token_count> <external_token_count> <field_count>
//            <production_id_count> <max_alias_sequence_length> <state_count> <abi>
//   sym <id> <visible> <named> <supertype> <public_symbol> <hexname>
//   aseq <production_id> <alias_0> ... <alias_{max-1}>        (through ts_language_alias_sequence)
//   fmap <production_id> <field_id>:<child_index>:<inherited> ...   (through ts_language_field_map)
//   field <id> <hexname>
//   endlanguage
#include TSV_REPO_LIB_C
#include <stdio.h>
#include <string.h>
#include <dlfcn.h>

static void hexname(const char *s) {
  if (!s || !*s) { printf("-"); return; }
  for (const unsigned char *p = (const unsigned char *)s; *p; p++) printf("%02x", *p);
}

static void dump_sym(const TSLanguage *lang, TSSymbol i) {
  TSSymbolMetadata m = ts_language_symbol_metadata(lang, i);
  printf("sym %u %d %d %d %u ", (unsigned)i, m.visible, m.named, m.supertype,
         // ts_language_public_symbol indexes public_symbol_map with the symbol; `_ERROR` (65534) is
         // never public (it is hidden), so it is printed as itself instead of reading out of bounds
         (unsigned)(i == ts_builtin_sym_error_repeat ? i : ts_language_public_symbol(lang, i)));
  hexname(ts_language_symbol_name(lang, i));
  printf("\n");
}

static int dump_language(const char *so, const char *fn) {
  void *h = dlopen(so, RTLD_NOW | RTLD_LOCAL);
  if (!h) { fprintf(stderr, "dlopen %s: %s\n", so, dlerror()); return 2; }
  const TSLanguage *(*f)(void) = (const TSLanguage *(*)(void))dlsym(h, fn);
  if (!f) { fprintf(stderr, "dlsym %s failed\n", fn); return 2; }
  const TSLanguage *lang = f();
  printf("language %u %u %u %u %u %u %u %u %u\n", lang->symbol_count, lang->alias_count,
         lang->token_count, lang->external_token_count, lang->field_count,
         lang->production_id_count, (unsigned)lang->max_alias_sequence_length, lang->state_count,
         lang->abi_version);
  for (uint32_t i = 0; i < lang->symbol_count + lang->alias_count; i++) dump_sym(lang, (TSSymbol)i);
  dump_sym(lang, ts_builtin_sym_error);
  dump_sym(lang, ts_builtin_sym_error_repeat);
  for (uint32_t p = 0; p < lang->production_id_count; p++) {
    const TSSymbol *seq = ts_language_alias_sequence(lang, p);
    printf("aseq %u", p);
    for (uint32_t k = 0; k < lang->max_alias_sequence_length; k++)
      printf(" %u", seq ? (unsigned)seq[k] : 0u);
    printf("\n");
    const TSFieldMapEntry *s, *e;
    ts_language_field_map(lang, p, &s, &e);
    printf("fmap %u", p);
    for (const TSFieldMapEntry *x = s; x && x < e; x++)
      printf(" %u:%u:%d", (unsigned)x->field_id, (unsigned)x->child_index, (int)x->inherited);
    printf("\n");
  }
  for (uint32_t i = 1; i <= lang->field_count; i++) {
    printf("field %u ", i);
    hexname(ts_language_field_name_for_id(lang, (TSFieldId)i));
    printf("\n");
  }
  printf("endlanguage\n");
  return 0;
}

int main(int argc, char **argv) {
  if (argc == 4 && !strcmp(argv[1], "lang")) return dump_language(argv[2], argv[3]);
  fprintf(stderr, "usage: %s lang <lang.so> <tree_sitter_NAME>\n", argv[0]);
  return 2;
}
