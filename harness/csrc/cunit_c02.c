// Unity build used by C02 and C06: the whole runtime of /repo is included, so the static-inline
// table accessors of language.h (alias sequences, field maps) are the REAL ones.
//
//   tsv-cunit_c02 lang <lang.so> <tree_sitter_NAME>
//       dumps the data tables of a generated language that the tree summaries and the
//       navigation code read (symbol metadata, public symbol map, alias sequences, field maps).
//
// Line format (one record per line, names hex-encoded so that they never contain blanks):
//   language <symbol_count> <alias_count> <token_count> <external_token_count> <field_count>
//            <production_id_count> <max_alias_sequence_length> <state_count> <abi>
//   sym <id> <visible> <named> <supertype> <public_symbol> <hexname>
//   aseq <production_id> <alias_0> ... <alias_{max-1}>        (through ts_language_alias_sequence)
//   fmap <production_id> <field_id>:<child_index>:<inherited> ...   (through ts_language_field_map)
//   field <id> <hexname>
//   endlanguage
//
//   tsv-cunit_c02 balance <lang.so> <tree_sitter_NAME> <lang-id> <seed> <cases>
//       builds deliberately UNBALANCED trees (left-deep chains of one symbol with leaves / short chains
//       on the right, now and then a shared node, a foreign symbol or a one-child node to hit the
//       `break`s) with ts_subtree_new_leaf / ts_subtree_new_node, dumps them, runs the REAL
//       ts_subtree_compress(tree, count) or the REAL ts_parser__balance_subtree (static; reachable in
//       the unity build) on them and dumps the result, in the line protocol of the Lean driver:
//         case <id> / lang <lang-id> / kind balance / balmode compress <count> | balmode balance /
//         btree 0 … end (before) / tree 0 … end (after) / runbal
//
//   tsv-cunit_c02 widths
//       MEASURES how many bits each cached field of the real `SubtreeHeapData` holds: a heap record with
//       every bit set is read back through the runtime's own accessors (ts_node_child_count,
//       ts_node_named_child_count, ts_subtree_visible_descendant_count, ts_subtree_error_cost,
//       ts_subtree_padding/size, ...), so the value printed for a field is 2^w - 1 for a field of w bits.
//       The Lean side (`TsVerif.C02.assumedBits`) states the widths the Nat-valued model relies on (every
//       quantity that grows with the document: >= 32 bits) and judges the measurement.
//         -> "widths child_count=<max> visible_child_count=<max> named_child_count=<max> ..."
//   tsv-cunit_c02 cwidths <lang.so> <tree_sitter_NAME>
//       behavioural probe of the index fields of the tree cursor and of the two child iterators (C06), see cwidths().
//         -> "cwidths n=70000 child_count=.. last_start=.. ... current_descendant_index=<max>"
#include TSV_REPO_LIB_C
#include "shim.c"
#include <stdio.h>
#include <string.h>
#include <dlfcn.h>

static void hexname(const char *s) {
  if (!s || !*s) { printf("-"); return; }
  for (const unsigned char *p = (const unsigned char *)s; *p; p++) printf("%02x", *p);
}

static void dump_sym(const TSLanguage *lang, TSSymbol i) {
  TSSymbolMetadata m = ts_language_symbol_metadata(lang, i);
  printf("sym %u %d %d %d %u ", (unsigned)i, m.visible, m.named, m.supertype,
         // ts_language_public_symbol indexes public_symbol_map with the symbol; `_ERROR` (65534) is
         // never public (it is hidden), so it is printed as itself instead of reading out of bounds
         (unsigned)(i == ts_builtin_sym_error_repeat ? i : ts_language_public_symbol(lang, i)));
  hexname(ts_language_symbol_name(lang, i));
  printf("\n");
}

static int dump_language(const char *so, const char *fn) {
  void *h = dlopen(so, RTLD_NOW | RTLD_LOCAL);
  if (!h) { fprintf(stderr, "dlopen %s: %s\n", so, dlerror()); return 2; }
  const TSLanguage *(*f)(void) = (const TSLanguage *(*)(void))dlsym(h, fn);
  if (!f) { fprintf(stderr, "dlsym %s failed\n", fn); return 2; }
  const TSLanguage *lang = f();
  printf("language %u %u %u %u %u %u %u %u %u\n", lang->symbol_count, lang->alias_count,
         lang->token_count, lang->external_token_count, lang->field_count,
         lang->production_id_count, (unsigned)lang->max_alias_sequence_length, lang->state_count,
         lang->abi_version);
  for (uint32_t i = 0; i < lang->symbol_count + lang->alias_count; i++) dump_sym(lang, (TSSymbol)i);
  dump_sym(lang, ts_builtin_sym_error);
  dump_sym(lang, ts_builtin_sym_error_repeat);
  for (uint32_t p = 0; p < lang->production_id_count; p++) {
    const TSSymbol *seq = ts_language_alias_sequence(lang, p);
    printf("aseq %u", p);
    for (uint32_t k = 0; k < lang->max_alias_sequence_length; k++)
      printf(" %u", seq ? (unsigned)seq[k] : 0u);
    printf("\n");
    const TSFieldMapEntry *s, *e;
    ts_language_field_map(lang, p, &s, &e);
    printf("fmap %u", p);
    for (const TSFieldMapEntry *x = s; x && x < e; x++)
      printf(" %u:%u:%d", (unsigned)x->field_id, (unsigned)x->child_index, (int)x->inherited);
    printf("\n");
  }
  for (uint32_t i = 1; i <= lang->field_count; i++) {
    printf("field %u ", i);
    hexname(ts_language_field_name_for_id(lang, (TSFieldId)i));
    printf("\n");
  }
  printf("endlanguage\n");
  return 0;
}

static uint64_t rng_state;
static uint32_t rnd(uint32_t n) {   // deterministic LCG, 0 <= result < n
  rng_state = rng_state * 6364136223846793005ULL + 1442695040888963407ULL;
  return n ? (uint32_t)((rng_state >> 33) % n) : 0;
}

static Subtree mk_leaf(SubtreePool *pool, const TSLanguage *lang, TSSymbol sym) {
  Length pad = {rnd(3), {0, 0}}, size = {1 + rnd(4), {0, 0}};
  pad.extent.column = pad.bytes;
  size.extent.column = size.bytes;
  if (rnd(5) == 0) { pad.bytes += 1; pad.extent.row = 1; pad.extent.column = rnd(2); pad.bytes += pad.extent.column; }
  if (rnd(7) == 0) { size.extent.row = 1; size.extent.column = 1; size.bytes = 3; }
  if (rnd(9) == 0) { size.bytes = 0; size.extent.column = 0; size.extent.row = 0; }   // a zero-width leaf
  return ts_subtree_new_leaf(pool, sym, pad, size, rnd(3), (TSStateId)(1 + rnd(5)), false, false, false, lang);
}

// a chain of `depth` nodes of symbol `sym`, each = [previous chain, 1..2 right children]
static Subtree mk_chain(SubtreePool *pool, const TSLanguage *lang, TSSymbol sym, TSSymbol other, TSSymbol leafsym,
                        unsigned depth, bool hazards, Subtree *keep, unsigned *nkeep) {
  Subtree cur = mk_leaf(pool, lang, leafsym);
  for (unsigned k = 0; k < depth; k++) {
    SubtreeArray kids = array_new();
    array_push(&kids, cur);
    unsigned extra = 1 + (rnd(4) == 0);
    if (hazards && rnd(12) == 0) extra = 0;                       // a one-child node: `child_count < 2`
    for (unsigned e = 0; e < extra; e++) {
      if (rnd(4) == 0) array_push(&kids, mk_chain(pool, lang, sym, other, leafsym, 1 + rnd(4), false, keep, nkeep));
      else array_push(&kids, mk_leaf(pool, lang, leafsym));
    }
    TSSymbol s = (hazards && rnd(14) == 0) ? other : sym;         // a foreign symbol: `symbol != symbol`
    cur = ts_subtree_from_mut(ts_subtree_new_node(s, &kids, 0, lang));
    if (hazards && rnd(14) == 0 && *nkeep < 64) {                 // a shared node: `ref_count > 1`
      ts_subtree_retain(cur);
      keep[(*nkeep)++] = cur;
    }
  }
  return cur;
}

static void print_tree(const char *tag, Subtree t) {
  Buf b = {0};
  dump_subtree(&b, t);
  printf("%s 0\n%send\n", tag, b.data ? b.data : "");
  free(b.data);
}

static int balance_cases(const char *so, const char *fn, const char *lang_id, unsigned seed, unsigned cases) {
  void *h = dlopen(so, RTLD_NOW | RTLD_LOCAL);
  if (!h) { fprintf(stderr, "dlopen %s: %s\n", so, dlerror()); return 2; }
  const TSLanguage *(*f)(void) = (const TSLanguage *(*)(void))dlsym(h, fn);
  if (!f) { fprintf(stderr, "dlsym %s failed\n", fn); return 2; }
  const TSLanguage *lang = f();
  // chain symbol: a hidden unnamed non-terminal if the language has one (auxiliary repeat symbols
  // are), else the last symbol; `other`: another non-terminal; leaves: the first visible token
  TSSymbol sym = (TSSymbol)(lang->symbol_count - 1), other = (TSSymbol)lang->token_count, leafsym = 1;
  for (uint32_t i = lang->token_count; i < lang->symbol_count; i++) {
    TSSymbolMetadata m = ts_language_symbol_metadata(lang, (TSSymbol)i);
    if (!m.visible && !m.named) { sym = (TSSymbol)i; break; }
  }
  if (other == sym) other = (TSSymbol)(sym > lang->token_count ? sym - 1 : sym + 1 < lang->symbol_count ? sym + 1 : sym);
  for (uint32_t i = 1; i < lang->token_count; i++) {
    TSSymbolMetadata m = ts_language_symbol_metadata(lang, (TSSymbol)i);
    if (m.visible) { leafsym = (TSSymbol)i; break; }
  }
  rng_state = 0x9E3779B97F4A7C15ULL ^ ((uint64_t)seed << 20);
  for (const char *p = lang_id; *p; p++) rng_state = rng_state * 131 + (unsigned char)*p;
  SubtreePool pool = ts_subtree_pool_new(32);
  for (unsigned c = 0; c < cases; c++) {
    Subtree keep[64];
    unsigned nkeep = 0;
    bool hazards = c % 3 == 2;
    unsigned depth = c < 6 ? 2 + c : 2 + rnd(c % 5 == 0 ? 70 : 24);
    Subtree tree = mk_chain(&pool, lang, sym, other, leafsym, depth, hazards, keep, &nkeep);
    printf("case bal-%s-%u\nlang %s\nkind balance\n", lang_id, c, lang_id);
    bool full = c % 2 == 1;
    unsigned count = 0;
    if (full) printf("balmode balance\n");
    else {
      unsigned pick = rnd(5);
      count = pick == 0 ? 1 : pick == 1 ? 2 : pick == 2 ? depth / 2 : pick == 3 ? depth : 3 + rnd(6);
      printf("balmode compress %u\n", count);
    }
    print_tree("btree", tree);
    if (full) {
      TSParser *parser = ts_parser_new();
      ts_parser_set_language(parser, lang);
      parser->finished_tree = tree;
      parser->canceled_balancing = false;
      if (!ts_parser__balance_subtree(parser)) { fprintf(stderr, "balancing was cancelled\n"); return 3; }
      tree = parser->finished_tree;
      parser->finished_tree = NULL_SUBTREE;
      print_tree("tree", tree);
      ts_parser_delete(parser);
    } else {
      MutableSubtreeArray stack = array_new();
      if (ts_subtree_child_count(tree) > 0) ts_subtree_compress(ts_subtree_to_mut_unsafe(tree), count, lang, &stack);
      array_delete(&stack);
      print_tree("tree", tree);
    }
    printf("runbal\n");
    for (unsigned k = 0; k < nkeep; k++) ts_subtree_release(&pool, keep[k]);
    ts_subtree_release(&pool, tree);
  }
  ts_subtree_pool_delete(&pool);
  return 0;
}

static int widths(void) {
  SubtreeHeapData *h = malloc(sizeof *h);
  memset(h, 0xFF, sizeof *h);
  h->is_missing = 0;                      // ts_subtree_error_cost answers a constant for MISSING nodes
  Subtree t;
  memset(&t, 0, sizeof t);
  t.ptr = h;                              // an aligned pointer: the is_inline bit is clear
  if (t.data.is_inline) { fprintf(stderr, "widths: heap pointer reads as inline\n"); return 3; }
  TSNode node = ts_node_new(NULL, &t, length_zero(), 0);
  Length p = ts_subtree_padding(t), z = ts_subtree_size(t);
  printf("widths child_count=%u visible_child_count=%u named_child_count=%u visible_descendant_count=%u error_cost=%u "
         "lookahead_bytes=%u padding_bytes=%u padding_row=%u padding_column=%u size_bytes=%u size_row=%u size_column=%u "
         "repeat_depth=%u production_id=%u symbol=%u parse_state=%u\n",
         ts_subtree_child_count(t), ts_node_child_count(node), ts_node_named_child_count(node),
         ts_subtree_visible_descendant_count(t), ts_subtree_error_cost(t), ts_subtree_lookahead_bytes(t),
         p.bytes, p.extent.row, p.extent.column, z.bytes, z.extent.row, z.extent.column,
         ts_subtree_repeat_depth(t), (unsigned)ts_subtree_production_id(t), (unsigned)ts_subtree_symbol(t),
         (unsigned)ts_subtree_parse_state(t));
  free(h);
  return 0;
}

// Behavioural probe of the INDEX fields of the tree cursor and the two child iterators (C06): no field is named.
// A flat node with N = 70 000 one-byte leaf children (N > 65 535: beyond 16 bits) is built with the real
// ts_subtree_new_leaf / ts_subtree_new_node over the symbols of a zoo language, wrapped in a TSTree, and walked
// with the real cursor / node functions; child i starts at byte i, so every answer is arithmetic in N.
static int cwidths(const char *so, const char *fn) {
  void *h = dlopen(so, RTLD_NOW | RTLD_LOCAL);
  if (!h) { fprintf(stderr, "dlopen %s: %s\n", so, dlerror()); return 2; }
  const TSLanguage *(*f)(void) = (const TSLanguage *(*)(void))dlsym(h, fn);
  if (!f) { fprintf(stderr, "dlsym %s failed\n", fn); return 2; }
  const TSLanguage *lang = f();
  TSSymbol leafsym = 0, parentsym = 0;
  for (uint32_t i = 1; i < lang->token_count; i++) {
    TSSymbolMetadata m = ts_language_symbol_metadata(lang, (TSSymbol)i);
    if (m.visible && m.named) { leafsym = (TSSymbol)i; break; }
  }
  for (uint32_t i = lang->token_count; i < lang->symbol_count; i++) {
    TSSymbolMetadata m = ts_language_symbol_metadata(lang, (TSSymbol)i);
    if (m.visible && m.named) { parentsym = (TSSymbol)i; break; }
  }
  if (!leafsym || !parentsym) { fprintf(stderr, "cwidths: language has no visible named token / rule\n"); return 3; }
  const uint32_t N = 70000;
  SubtreePool pool = ts_subtree_pool_new(32);
  SubtreeArray kids = array_new();
  Length zero = {0, {0, 0}}, one = {1, {0, 1}};
  for (uint32_t i = 0; i < N; i++)
    array_push(&kids, ts_subtree_new_leaf(&pool, leafsym, zero, one, 0, 1, false, false, false, lang));
  Subtree root = ts_subtree_from_mut(ts_subtree_new_node(parentsym, &kids, 0, lang));
  TSTree *tree = ts_tree_new(root, lang, NULL, 0);
  TSNode rn = ts_tree_root_node(tree);
  TSTreeCursor c = ts_tree_cursor_new(rn);
  uint32_t cc = ts_node_child_count(rn);
  // last child
  bool ok1 = ts_tree_cursor_goto_last_child(&c);
  uint32_t last_start = ts_node_start_byte(ts_tree_cursor_current_node(&c));
  uint32_t last_desc = ts_tree_cursor_current_descendant_index(&c);
  // one step back
  bool ok2 = ts_tree_cursor_goto_previous_sibling(&c);
  uint32_t prev_start = ts_node_start_byte(ts_tree_cursor_current_node(&c));
  uint32_t prev_desc = ts_tree_cursor_current_descendant_index(&c);
  // forward walk over all children
  ts_tree_cursor_goto_parent(&c);
  bool ok3 = ts_tree_cursor_goto_first_child(&c);
  uint32_t steps = 0;
  while (ts_tree_cursor_goto_next_sibling(&c) && steps < 200000) steps++;
  uint32_t walk_start = ts_node_start_byte(ts_tree_cursor_current_node(&c));
  uint32_t walk_desc = ts_tree_cursor_current_descendant_index(&c);
  // goto_descendant beyond 16 bits, from the root
  ts_tree_cursor_reset(&c, rn);
  ts_tree_cursor_goto_descendant(&c, 65537);
  uint32_t gd_start = ts_node_start_byte(ts_tree_cursor_current_node(&c));
  uint32_t gd_desc = ts_tree_cursor_current_descendant_index(&c);
  // first child for a byte beyond 16 bits
  ts_tree_cursor_reset(&c, rn);
  int64_t fcb = ts_tree_cursor_goto_first_child_for_byte(&c, 66000);
  uint32_t fcb_start = ts_node_start_byte(ts_tree_cursor_current_node(&c));
  // node.c iterator
  TSNode nl = ts_node_child(rn, N - 1), n16 = ts_node_child(rn, 65536);
  TSNode ns = ts_node_next_sibling(ts_node_child(rn, 65535)), ps = ts_node_prev_sibling(n16);
  TSNode fb = ts_node_first_child_for_byte(rn, 66000);
  TSNode db = ts_node_descendant_for_byte_range(rn, 67000, 67001);
  // an all-ones entry read back through the accessor
  TreeCursor fake;
  memset(&fake, 0, sizeof fake);
  TreeCursorEntry entry;
  memset(&entry, 0xFF, sizeof entry);
  array_push(&fake.stack, entry);
  uint32_t cdi = ts_tree_cursor_current_descendant_index((const TSTreeCursor *)&fake);
  array_delete(&fake.stack);
  printf("cwidths n=%u child_count=%u ok=%d last_start=%u last_desc=%u prev_start=%u prev_desc=%u steps=%u walk_start=%u walk_desc=%u "
         "gd_start=%u gd_desc=%u fcb_index=%lld fcb_start=%u child_last=%u child_65536=%u next_of_65535=%u prev_of_65536=%u "
         "node_fcb=%u node_dbr=%u current_descendant_index=%u\n",
         N, cc, (ok1 && ok2 && ok3) ? 1 : 0, last_start, last_desc, prev_start, prev_desc, steps, walk_start, walk_desc,
         gd_start, gd_desc, (long long)fcb, fcb_start,
         ts_node_is_null(nl) ? 0u : ts_node_start_byte(nl), ts_node_is_null(n16) ? 0u : ts_node_start_byte(n16),
         ts_node_is_null(ns) ? 0u : ts_node_start_byte(ns), ts_node_is_null(ps) ? 0u : ts_node_start_byte(ps),
         ts_node_is_null(fb) ? 0u : ts_node_start_byte(fb), ts_node_is_null(db) ? 0u : ts_node_start_byte(db), cdi);
  ts_tree_cursor_delete(&c);
  ts_tree_delete(tree);
  ts_subtree_pool_delete(&pool);
  return 0;
}

int main(int argc, char **argv) {
  if (argc == 2 && !strcmp(argv[1], "widths")) return widths();
  if (argc == 4 && !strcmp(argv[1], "cwidths")) return cwidths(argv[2], argv[3]);
  if (argc == 4 && !strcmp(argv[1], "lang")) return dump_language(argv[2], argv[3]);
  if (argc == 7 && !strcmp(argv[1], "balance"))
    return balance_cases(argv[2], argv[3], argv[4], (unsigned)strtoul(argv[5], NULL, 10), (unsigned)strtoul(argv[6], NULL, 10));
  fprintf(stderr, "usage: %s lang <lang.so> <tree_sitter_NAME> | balance <lang.so> <fn> <lang-id> <seed> <cases> | widths\n", argv[0]);
  return 2;
}
