// Reads tree-sitter's *internal* structures by including /repo/lib/src headers.
// No change to /repo is needed: the harness links this file next to the runtime.
#include <stdio.h>
#include <stdlib.h>
#include <string.h>
#include <stdarg.h>
#include "tree_sitter/api.h"
#include "alloc.h"
#include "subtree.h"
#include "tree.h"
#include "language.h"

typedef struct {
  char *data;
  size_t len, cap;
} Buf;

static void buf_printf(Buf *b, const char *fmt, ...) {
  va_list ap;
  for (;;) {
    va_start(ap, fmt);
    size_t avail = b->cap - b->len;
    int n = vsnprintf(b->data ? b->data + b->len : NULL, avail, fmt, ap);
    va_end(ap);
    if (n >= 0 && (size_t)n < avail) { b->len += (size_t)n; return; }
    size_t ncap = b->cap ? b->cap * 2 : 4096;
    while (ncap - b->len <= (size_t)(n + 1)) ncap *= 2;
    b->data = realloc(b->data, ncap);
    b->cap = ncap;
  }
}

static unsigned subtree_flags(Subtree t) {
  unsigned f = 0;
  if (ts_subtree_visible(t)) f |= 1u << 0;
  if (ts_subtree_named(t)) f |= 1u << 1;
  if (ts_subtree_extra(t)) f |= 1u << 2;
  if (ts_subtree_has_changes(t)) f |= 1u << 3;
  if (ts_subtree_missing(t)) f |= 1u << 4;
  if (ts_subtree_is_keyword(t)) f |= 1u << 5;
  if (ts_subtree_fragile_left(t)) f |= 1u << 6;
  if (ts_subtree_fragile_right(t)) f |= 1u << 7;
  if (ts_subtree_has_external_tokens(t)) f |= 1u << 8;
  if (ts_subtree_has_external_scanner_state_change(t)) f |= 1u << 9;
  if (ts_subtree_depends_on_column(t)) f |= 1u << 10;
  if (t.data.is_inline) f |= 1u << 11;
  return f;
}

// One node per line, preorder:
// n sym pb pr pc sb sr sc la state flags errcost nchild vcc ncc vdc dynprec repdepth prodid flsym flstate refcount addr ext
static void dump_subtree(Buf *b, Subtree t) {
  typedef struct { Subtree t; } E;
  size_t cap = 64, n = 0;
  E *stack = malloc(cap * sizeof(E));
  stack[n++].t = t;
  while (n) {
    Subtree s = stack[--n].t;
    Length pad = ts_subtree_padding(s), size = ts_subtree_size(s);
    uint32_t cc = ts_subtree_child_count(s);
    bool heap = !s.data.is_inline;
    buf_printf(b, "n %u %u %u %u %u %u %u %u %u %u %u %u",
      (unsigned)ts_subtree_symbol(s), pad.bytes, pad.extent.row, pad.extent.column,
      size.bytes, size.extent.row, size.extent.column,
      ts_subtree_lookahead_bytes(s), (unsigned)ts_subtree_parse_state(s), subtree_flags(s),
      heap ? s.ptr->error_cost : 0u, cc);
    if (heap && cc > 0) {
      buf_printf(b, " %u %u %u %d %u %u %u %u",
        s.ptr->visible_child_count, s.ptr->named_child_count, s.ptr->visible_descendant_count,
        s.ptr->dynamic_precedence, (unsigned)s.ptr->repeat_depth, (unsigned)s.ptr->production_id,
        (unsigned)s.ptr->first_leaf.symbol, (unsigned)s.ptr->first_leaf.parse_state);
    } else {
      buf_printf(b, " 0 0 0 0 0 0 0 0");
    }
    buf_printf(b, " %u %llx ", heap ? s.ptr->ref_count : 0u, heap ? (unsigned long long)(size_t)s.ptr : 0ull);
    if (heap && cc == 0 && s.ptr->has_external_tokens) {
      const ExternalScannerState *st = &s.ptr->external_scanner_state;
      const char *d = ts_external_scanner_state_data(st);
      buf_printf(b, "x");
      for (uint32_t i = 0; i < st->length; i++) buf_printf(b, "%02x", (unsigned char)d[i]);
    } else if (heap && cc == 0 && s.ptr->symbol == ts_builtin_sym_error) {
      buf_printf(b, "c%d", s.ptr->lookahead_char);
    } else {
      buf_printf(b, "-");
    }
    buf_printf(b, "\n");
    if (cc > 0) {
      Subtree *kids = ts_subtree_children(s);
      if (n + cc > cap) { while (n + cc > cap) cap *= 2; stack = realloc(stack, cap * sizeof(E)); }
      for (uint32_t i = cc; i > 0; i--) stack[n++].t = kids[i - 1];
    }
  }
  free(stack);
}

// Returns a malloc'd NUL-terminated dump of the whole tree (free with tsv_free).
char *tsv_dump_tree(const TSTree *tree) {
  Buf b = {0};
  buf_printf(&b, "tree %u\n", tree->included_range_count);
  for (unsigned i = 0; i < tree->included_range_count; i++) {
    TSRange *r = &tree->included_ranges[i];
    buf_printf(&b, "r %u %u %u %u %u %u\n", r->start_byte, r->end_byte,
      r->start_point.row, r->start_point.column, r->end_point.row, r->end_point.column);
  }
  dump_subtree(&b, tree->root);
  buf_printf(&b, "end\n");
  return b.data;
}

void tsv_free(char *p) { free(p); }

// Symbol metadata table of a language: "sym <id> <visible> <named> <supertype> <public> <name>"
char *tsv_dump_symbols(const TSLanguage *lang) {
  Buf b = {0};
  buf_printf(&b, "lang %u %u %u %u %u\n", lang->symbol_count, lang->token_count, lang->state_count,
    lang->large_state_count, lang->field_count);
  for (uint32_t i = 0; i < lang->symbol_count + lang->alias_count; i++) {
    TSSymbolMetadata m = ts_language_symbol_metadata(lang, (TSSymbol)i);
    buf_printf(&b, "sym %u %d %d %d %u %s\n", i, m.visible, m.named, m.supertype,
      (unsigned)(i < lang->symbol_count ? lang->public_symbol_map[i] : i), lang->symbol_names[i]);
  }
  return b.data;
}
