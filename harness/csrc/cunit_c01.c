// C01/C12 unity build: dumps the parts of a compiled language's tables that the reuse gate
// (ts_parser__reuse_node / ts_parser__can_reuse_first_leaf) reads, using the runtime's OWN
// accessor functions (ts_language_lex_mode_for_state, ts_language_table_entry,
// ts_language_next_state) on the real TSLanguage loaded from the zoo's lang.so.
//
// usage: tsv-cunit_c01 <id> <lang.so> <symbol> [<id> <lang.so> <symbol> ...]
// output per language:
//   table <id> <state_count> <symbol_count> <token_count> <keyword_capture_token> <external_token_count>
//   lm <state> <lex_state> <external_lex_state> <reserved_word_set_id>
//   te <state> <token> <action_count> <is_reusable> <actions…>   (only entries with action_count>0 or reusable)
//        action: S<state>[e][r] | R<symbol>.<child_count>.<dyn_prec>.<production_id> | A | V
//   gt <state> <nonterminal> <next_state>                          (only non-zero)
//   end
#include TSV_REPO_LIB_C
#include <dlfcn.h>
#include <stdio.h>

int main(int argc, char **argv) {
  for (int a = 1; a + 2 < argc; a += 3) {
    void *h = dlopen(argv[a + 1], RTLD_NOW | RTLD_LOCAL);
    if (!h) { fprintf(stderr, "dlopen %s: %s\n", argv[a + 1], dlerror()); return 2; }
    const TSLanguage *(*f)(void) = (const TSLanguage *(*)(void))dlsym(h, argv[a + 2]);
    if (!f) { fprintf(stderr, "dlsym %s failed\n", argv[a + 2]); return 2; }
    const TSLanguage *L = f();
    printf("table %s %u %u %u %u %u\n", argv[a], L->state_count, L->symbol_count, L->token_count,
           (unsigned)L->keyword_capture_token, L->external_token_count);
    for (uint32_t s = 0; s < L->state_count; s++) {
      TSLexerMode m = ts_language_lex_mode_for_state(L, (TSStateId)s);
      printf("lm %u %u %u %u\n", s, (unsigned)m.lex_state, (unsigned)m.external_lex_state,
             (unsigned)m.reserved_word_set_id);
    }
    for (uint32_t s = 0; s < L->state_count; s++) {
      for (uint32_t t = 0; t < L->token_count; t++) {
        TableEntry e;
        ts_language_table_entry(L, (TSStateId)s, (TSSymbol)t, &e);
        if (e.action_count == 0 && !e.is_reusable) continue;
        printf("te %u %u %u %u", s, t, e.action_count, e.is_reusable ? 1u : 0u);
        for (uint32_t i = 0; i < e.action_count; i++) {
          TSParseAction ac = e.actions[i];
          switch (ac.type) {
            case TSParseActionTypeShift:
              printf(" S%u%s%s", (unsigned)ac.shift.state, ac.shift.extra ? "e" : "", ac.shift.repetition ? "r" : "");
              break;
            case TSParseActionTypeReduce:
              printf(" R%u.%u.%d.%u", (unsigned)ac.reduce.symbol, (unsigned)ac.reduce.child_count,
                     (int)ac.reduce.dynamic_precedence, (unsigned)ac.reduce.production_id);
              break;
            case TSParseActionTypeAccept: printf(" A"); break;
            default: printf(" V"); break;
          }
        }
        printf("\n");
      }
      for (uint32_t t = L->token_count; t < L->symbol_count; t++) {
        TSStateId n = ts_language_next_state(L, (TSStateId)s, (TSSymbol)t);
        if (n != 0) printf("gt %u %u %u\n", s, t, (unsigned)n);
      }
    }
    printf("end\n");
  }
  return 0;
}
