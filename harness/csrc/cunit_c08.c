// C08 unity driver: behavioural probes of the atomicity / exclusivity assumptions of the heap
// model, run against the REAL runtime (lib.c) — robust against any refactoring that keeps behaviour.
//
//   atomic <threads> <iters>   N threads x M atomic_inc on one counter, then N x M atomic_dec
//        -> "atomic after_inc=<n> expected=<N*M> after_dec=<n>"
//   rc <threads> <iters>       N threads, each M x (ts_subtree_retain; ts_subtree_release) on ONE shared
//                              heap subtree (own SubtreePool per thread), plus a phase of N x M retains
//                              followed by N x M releases
//        -> "rc start=<c> mid=<c> expected_mid=<c> end=<c> frees=<n>"
//   mm                          ts_subtree_make_mut on an unshared / a shared node
//        -> "mm unshared_same=<0|1> shared_new=<0|1> orig_rc=<n> copy_rc=<n> kids_rc=<n>"
#include TSV_REPO_LIB_C
#include <pthread.h>
#include <stdio.h>
#include <string.h>

static volatile uint32_t counter;
static unsigned iters;
static long n_frees = 0;
static void *cm_malloc(size_t n) { return malloc(n); }
static void *cm_calloc(size_t a, size_t b) { return calloc(a, b); }
static void *cm_realloc(void *p, size_t n) { return realloc(p, n); }
static void cm_free(void *p) { if (p) __atomic_add_fetch(&n_frees, 1, __ATOMIC_SEQ_CST); free(p); }

static void *inc_worker(void *arg) { (void)arg; for (unsigned i = 0; i < iters; i++) atomic_inc(&counter); return NULL; }
static void *dec_worker(void *arg) { (void)arg; for (unsigned i = 0; i < iters; i++) atomic_dec(&counter); return NULL; }

static Subtree shared;
static void *retain_release_worker(void *arg) {
  (void)arg;
  SubtreePool pool = ts_subtree_pool_new(0);
  for (unsigned i = 0; i < iters; i++) { ts_subtree_retain(shared); ts_subtree_release(&pool, shared); }
  ts_subtree_pool_delete(&pool);
  return NULL;
}
static void *retain_worker(void *arg) { (void)arg; for (unsigned i = 0; i < iters; i++) ts_subtree_retain(shared); return NULL; }
static void *release_worker(void *arg) {
  (void)arg;
  SubtreePool pool = ts_subtree_pool_new(0);
  for (unsigned i = 0; i < iters; i++) ts_subtree_release(&pool, shared);
  ts_subtree_pool_delete(&pool);
  return NULL;
}

static void run_threads(unsigned n, void *(*f)(void *)) {
  pthread_t t[64];
  if (n > 64) n = 64;
  for (unsigned i = 0; i < n; i++) pthread_create(&t[i], NULL, f, NULL);
  for (unsigned i = 0; i < n; i++) pthread_join(t[i], NULL);
}

int main(void) {
  char line[256];
  TSSymbolMetadata md[4] = {{true, true, false}, {true, false, false}, {false, false, false}, {true, true, false}};
  TSLanguage fake;
  memset(&fake, 0, sizeof fake);
  fake.symbol_count = 4;
  fake.symbol_metadata = md;
  ts_set_allocator(cm_malloc, cm_calloc, cm_realloc, cm_free);
  while (fgets(line, sizeof line, stdin)) {
    char *tok = strtok(line, " \n");
    if (!tok) continue;
    char *a = strtok(NULL, " \n"), *b = strtok(NULL, " \n");
    unsigned n = a ? (unsigned)strtoul(a, NULL, 10) : 4;
    iters = b ? (unsigned)strtoul(b, NULL, 10) : 1000;
    if (!strcmp(tok, "atomic")) {
      counter = 0;
      run_threads(n, inc_worker);
      uint32_t after_inc = counter;
      run_threads(n, dec_worker);
      printf("atomic after_inc=%u expected=%u after_dec=%u\n", after_inc, n * iters, counter);
    } else if (!strcmp(tok, "rc")) {
      SubtreePool pool = ts_subtree_pool_new(0);
      // a heap leaf (padding of 300 bytes cannot be inline)
      Length pad = {300, {0, 300}}, size = {1, {0, 1}};
      shared = ts_subtree_new_leaf(&pool, 1, pad, size, 0, 3, false, false, false, &fake);
      long f0 = n_frees;
      uint32_t start = shared.ptr->ref_count;
      run_threads(n, retain_release_worker);
      run_threads(n, retain_worker);
      uint32_t mid = shared.ptr->ref_count;
      run_threads(n, release_worker);
      uint32_t end = shared.ptr->ref_count;
      printf("rc start=%u mid=%u expected_mid=%u end=%u frees=%ld\n", start, mid, start + n * iters, end, n_frees - f0);
      ts_subtree_release(&pool, shared);
      ts_subtree_pool_delete(&pool);
    } else if (!strcmp(tok, "mm")) {
      SubtreePool pool = ts_subtree_pool_new(0);
      Length pad = {300, {0, 300}}, size = {1, {0, 1}};
      Subtree k1 = ts_subtree_new_leaf(&pool, 1, pad, size, 0, 3, false, false, false, &fake);
      Subtree k2 = ts_subtree_new_leaf(&pool, 1, pad, size, 0, 3, false, false, false, &fake);
      SubtreeArray kids = array_new();
      array_push(&kids, k1);
      array_push(&kids, k2);
      MutableSubtree node = ts_subtree_new_node(3, &kids, 0, &fake);
      Subtree n0 = ts_subtree_from_mut(node);
      MutableSubtree m1 = ts_subtree_make_mut(&pool, n0);
      int unshared_same = m1.ptr == n0.ptr;
      ts_subtree_retain(n0);                      // now shared: two owners
      MutableSubtree m2 = ts_subtree_make_mut(&pool, n0);   // consumes one of them
      int shared_new = m2.ptr != n0.ptr;
      printf("mm unshared_same=%d shared_new=%d orig_rc=%u copy_rc=%u kids_rc=%u\n", unshared_same, shared_new,
             n0.ptr->ref_count, m2.ptr->ref_count, k1.ptr->ref_count);
      ts_subtree_release(&pool, ts_subtree_from_mut(m2));
      ts_subtree_release(&pool, n0);
      ts_subtree_pool_delete(&pool);
    }
    fflush(stdout);
  }
  return 0;
}
