// C07 unity driver: the whole runtime (lib.c) plus a line-protocol main, so that `static`
// functions and the array.h macros are exercised on the REAL code.
//
//   arr P <x> | O | G <n> | S <idx> <old> <n> e1..en | E <idx> | I <idx> <x> | X <n> e.. | A <n> e..
//        -> "arr <size> <capacity> c0 c1 …"   (Array(uint32_t); contracts are the caller's duty)
//   inl <pb> <pr> <pc> <sb> <sr> <sc> <la>
//        -> "inl can=<0|1> inline=<0|1> rb=<pb> <pr> <pc> <sb> <la>"  (ts_subtree_can_inline + a leaf
//           built by ts_subtree_new_leaf, values read back through the accessors)
//   pw sub N <cap> | pw sub A | pw sub F <ord>        SubtreePool free list (ts_subtree_pool_allocate/free)
//   pw node N 0    | pw node A | pw node F <ord>       stack node pool (stack_node_new/stack_node_release)
//        -> "pw obj=<ordinal or -> pool=<cached> mallocs=<n> frees=<n>"
//   cl N | cl M <max> | cl A | cl R <id> | cl X        CaptureListPool of query.c
//        -> "cl id=<id or NONE or -> size=<lists> free=<free count> empty=<0|1>"
//   ess <len> <seed>                                   ExternalScannerState init/copy/data/eq/delete
//        -> "ess heap=<0|1> allocs=<n> rb=<0|1> eq=<0|1> neq=<0|1> copyallocs=<n> copyrb=<0|1> frees=<n>"
//   al N <prev|-1> <state> | al L <self> <node> | al P  stack_node_add_link on a graph of stack nodes
//        -> "al <id>:<t1>,<t2>…;<id>:…"
//   bits                  compile-time facts of the real headers, measured: an all-ones inline Subtree read
//                         back through ts_subtree_padding/size/lookahead_bytes (= the largest value every
//                         size field can hold), and the slot count of StackNode.links
//                         plus new_leaf with a 9-bit symbol / with external tokens (must stay on the heap)
//        -> "bits inline=<0|1> pb=<max> pr=<max> pc=<max> sb=<max> la=<max> links=<slots> maxlinks=<MAX_LINK_COUNT> sym300inline=<0|1> sym300rb=<sym> extinline=<0|1>"
//   cr <n_old> s e … <n_new> s e …    ts_range_array_get_changed_ranges on two range lists (points = (0, byte)),
//                         both arrays placed flush against an inaccessible page (guard allocator)
//        -> "cr fault=<0|1> kind=<oob|uaf|-> off=<bytes past the block> acc_old=<0|1> acc_new=<0|1> out=s-e,s-e"
//           (acc_* : ts_lexer_set_included_ranges accepts the list — the input is conforming iff both are 1)
//   lx <hexdoc> <n> s e … | op …       the real Lexer on a document with included ranges; ops: R<byte> (ts_lexer_reset),
//                         S (ts_lexer_start), C (get_column), A / K (advance / skip), M (mark_end), E (eof), F (ts_lexer_finish)
//        -> "lx fault=<0|1> kind=.. off=.. acc=<0|1> trace=init:<idx>/<count>/<chunk?>,<op>:<idx>/<count>/<chunk?>,…"
//   fuzz <seed> <iters>   (only useful with -DTSV_PARSER_C: adversarial API use for sanitizer builds)
#include TSV_REPO_LIB_C
#include <stdio.h>
#include <string.h>
#include <stdlib.h>

#ifdef TSV_PARSER_C
#include TSV_PARSER_C
#endif

typedef Array(uint32_t) U32Array;

static void print_arr(U32Array *a) {
  printf("arr %u %u", a->size, a->capacity);
  for (uint32_t i = 0; i < a->size; i++) printf(" %u", *array_get(a, i));
  printf("\n");
}

// ---- guard allocator: every block ends flush (up to 8-byte alignment) against a PROT_NONE page, freed
// blocks stay mapped PROT_NONE: a read past the end / through a dangling pointer faults deterministically.
// Under ASan (thorough-tier search build) it is switched off: ASan reports the access itself.
#if defined(__SANITIZE_ADDRESS__)
#define TSV_ASAN 1
#elif defined(__has_feature)
#if __has_feature(address_sanitizer)
#define TSV_ASAN 1
#endif
#endif
#include <sys/mman.h>
#include <signal.h>
#include <setjmp.h>
typedef struct { char *base; size_t total; char *user; size_t n; int live; } GBlock;
static GBlock gblocks[8192]; static unsigned ngblocks = 0;
static int guard_mode = 0;
static sigjmp_buf guard_jmp; static volatile int guard_armed = 0;
static volatile long guard_off = 0; static volatile int guard_kind = 0; // 1 = out of bounds, 2 = use after free
static GBlock *g_find(void *p) { for (unsigned i = ngblocks; i-- > 0;) if (gblocks[i].user == (char *)p && gblocks[i].live) return &gblocks[i]; return NULL; }
static void *g_alloc(size_t n, int fill) {
  size_t pg = 4096, body = (n + 7) & ~(size_t)7, pages = (body + pg - 1) / pg;
  if (!pages) pages = 1;
  if (ngblocks >= 8192) return malloc(n);
  char *base = mmap(NULL, (pages + 1) * pg, PROT_READ | PROT_WRITE, MAP_PRIVATE | MAP_ANONYMOUS, -1, 0);
  if (base == MAP_FAILED) return NULL;
  mprotect(base + pages * pg, pg, PROT_NONE);
  char *user = base + pages * pg - body;
  memset(user, fill, body);
  gblocks[ngblocks++] = (GBlock) {base, (pages + 1) * pg, user, n, 1};
  return user;
}
static void g_free(GBlock *b) { b->live = 0; mprotect(b->base, b->total, PROT_NONE); }
static void guard_handler(int sig, siginfo_t *si, void *ctx) {
  (void)sig; (void)ctx;
  char *a = (char *)si->si_addr;
  for (unsigned i = 0; i < ngblocks; i++) {
    if (a >= gblocks[i].base && a < gblocks[i].base + gblocks[i].total) {
      guard_kind = gblocks[i].live ? 1 : 2;
      guard_off = (long)(a - (gblocks[i].user + gblocks[i].n));
      if (guard_armed) siglongjmp(guard_jmp, 1);
    }
  }
  _exit(139);
}
static void guard_install(void) {
  struct sigaction sa;
  memset(&sa, 0, sizeof sa);
  sa.sa_sigaction = guard_handler;
  sa.sa_flags = SA_SIGINFO | SA_NODEFER;
  sigaction(SIGSEGV, &sa, NULL);
  sigaction(SIGBUS, &sa, NULL);
}

static long n_mallocs = 0, n_frees = 0;
static int cm_keep = 0; // protocols that identify objects by address never give memory back (no address reuse)
static void *cm_malloc(size_t n) { n_mallocs++; return guard_mode ? g_alloc(n, 0xA5) : malloc(n); }
static void *cm_calloc(size_t a, size_t b) { n_mallocs++; return guard_mode ? g_alloc(a * b, 0) : calloc(a, b); }
static void cm_free(void *p) {
  if (p) n_frees++;
  GBlock *b = ngblocks ? g_find(p) : NULL;
  if (b) { g_free(b); return; }
  if (!cm_keep) free(p);
}
static void *cm_realloc(void *p, size_t n) {
  if (!p) return cm_malloc(n);
  GBlock *b = ngblocks ? g_find(p) : NULL;
  if (!b && !guard_mode) return realloc(p, n);
  if (!b) return realloc(p, n);
  void *q = g_alloc(n, 0xA5);
  memcpy(q, p, b->n < n ? b->n : n);
  g_free(b);
  return q;
}

// ---- the real Lexer on a document (lx protocol)
static const char *lx_doc; static uint32_t lx_len;
static const char *lx_read(void *payload, uint32_t byte_index, TSPoint position, uint32_t *bytes_read) {
  (void)payload; (void)position;
  if (byte_index >= lx_len) { *bytes_read = 0; return ""; }
  *bytes_read = lx_len - byte_index;
  return lx_doc + byte_index;
}
static TSPoint lx_point(uint32_t byte) {
  TSPoint p = {0, 0};
  for (uint32_t i = 0; i < byte && i < lx_len; i++) { if (lx_doc[i] == '\n') { p.row++; p.column = 0; } else p.column++; }
  if (byte > lx_len) p.column += byte - lx_len;
  return p;
}

#define MAXOBJ 4096
static void *objs[MAXOBJ]; static unsigned nobjs = 0;
static unsigned ordinal_of(void *p) { for (unsigned i = 0; i < nobjs; i++) if (objs[i] == p) return i; objs[nobjs] = p; return nobjs++; }

static uint64_t rng_state;
static uint64_t rnd(void) {
  rng_state += 0x9E3779B97F4A7C15ull;
  uint64_t z = rng_state;
  z = (z ^ (z >> 30)) * 0xBF58476D1CE4E5B9ull;
  z = (z ^ (z >> 27)) * 0x94D049BB133111EBull;
  return z ^ (z >> 31);
}

#ifdef TSV_PARSER_C
const TSLanguage *TSV_LANG_FN(void);
static void fuzz(uint64_t seed, unsigned iters) {
  rng_state = seed;
  const TSLanguage *lang = TSV_LANG_FN();
  static const char *alphabet[] = {"(", ")", "a", "b1", "12", " ", "\n", "+", "*", "-", "\xc3\xa9", "\xff", "\0", "[", "]", ",", "\"x\"", "{", "}", ":"};
  for (unsigned it = 0; it < iters; it++) {
    TSParser *parser = ts_parser_new();
    ts_parser_set_language(parser, lang);
    char buf[4096];
    unsigned len = 0, ntok = rnd() % 200;
    for (unsigned i = 0; i < ntok && len < sizeof(buf) - 8; i++) {
      if (rnd() % 10 == 0) { buf[len++] = (char)rnd(); continue; }
      const char *t = alphabet[rnd() % (sizeof(alphabet) / sizeof(*alphabet))];
      size_t tl = strlen(t); if (tl == 0) tl = 1;
      memcpy(buf + len, t, tl); len += tl;
    }
    if (rnd() % 4 == 0) {
      TSRange r[2] = {{{0, 0}, {0, len / 3}, 0, len / 3}, {{0, len / 2}, {0, len}, len / 2, len}};
      ts_parser_set_included_ranges(parser, r, 2);
    }
    TSTree *tree = ts_parser_parse_string(parser, NULL, buf, len);
    TSTree *copies[4] = {0};
    for (unsigned k = 0; k < 6 && tree; k++) {
      unsigned op = rnd() % 6;
      if (op == 0) { unsigned c = rnd() % 4; if (copies[c]) ts_tree_delete(copies[c]); copies[c] = ts_tree_copy(tree); }
      else if (op == 1) {
        uint32_t s = rnd() % (len + 4), oe = s + rnd() % 8, ne = s + rnd() % 8;
        if (rnd() % 8 == 0) { s = 0xfffffff0u; oe = 0xfffffffau; ne = 0xfffffff5u; }
        TSInputEdit e = {s, oe, ne, {0, s}, {0, oe}, {0, ne}};
        ts_tree_edit(tree, &e);
      } else if (op == 2) {
        TSTree *t2 = ts_parser_parse_string(parser, tree, buf, len);
        if (t2) { ts_tree_delete(tree); tree = t2; }
      } else if (op == 3) {
        TSTreeCursor c = ts_tree_cursor_new(ts_tree_root_node(tree));
        unsigned n = 0;
        while (n++ < 5000) {
          if (ts_tree_cursor_goto_first_child(&c)) continue;
          while (!ts_tree_cursor_goto_next_sibling(&c)) { if (!ts_tree_cursor_goto_parent(&c)) { n = 9999; break; } }
        }
        ts_tree_cursor_goto_first_child_for_byte(&c, (uint32_t)rnd());
        ts_tree_cursor_delete(&c);
      } else if (op == 4) {
        char q[64]; unsigned ql = rnd() % 40;
        static const char *qa[] = {"(", ")", "_", "@a", " ", "\"a\"", "[", "]", "*", "+", "?", ".", "#eq?", "!", ":", "x", "ERROR", "MISSING"};
        unsigned l = 0;
        for (unsigned i = 0; i < ql && l < sizeof(q) - 8; i++) { const char *t = qa[rnd() % (sizeof(qa)/sizeof(*qa))]; size_t tl = strlen(t); memcpy(q + l, t, tl); l += tl; }
        uint32_t eo; TSQueryError et;
        TSQuery *query = ts_query_new(lang, q, l, &eo, &et);
        if (query) {
          TSQueryCursor *qc = ts_query_cursor_new();
          ts_query_cursor_set_match_limit(qc, 1 + rnd() % 4);
          ts_query_cursor_exec(qc, query, ts_tree_root_node(tree));
          TSQueryMatch m; unsigned n = 0;
          while (n++ < 2000 && ts_query_cursor_next_match(qc, &m)) {}
          ts_query_cursor_delete(qc);
          ts_query_delete(query);
        }
      } else {
        TSNode root = ts_tree_root_node(tree);
        TSNode d = ts_node_descendant_for_byte_range(root, (uint32_t)rnd() % (len + 10), (uint32_t)rnd());
        (void)ts_node_child(d, (uint32_t)rnd());
        (void)ts_node_parent(d);
        char *s = ts_node_string(d); ts_free(s);
      }
    }
    for (unsigned c = 0; c < 4; c++) if (copies[c]) ts_tree_delete(copies[c]);
    if (tree) ts_tree_delete(tree);
    ts_parser_delete(parser);
  }
  printf("fuzz done %u\n", iters);
}
#endif

int main(void) {
  char line[1 << 16];
  U32Array a = array_new();
  TSSymbolMetadata md[4] = {{true, true, false}, {true, false, false}, {false, false, false}, {true, true, false}};
  TSLanguage fake;
  memset(&fake, 0, sizeof fake);
  fake.symbol_count = 4;
  fake.symbol_metadata = md;
  SubtreePool pool = ts_subtree_pool_new(4);
  // second set of objects for the pool / capture-list / link protocols
  SubtreePool spool = ts_subtree_pool_new(0);
  StackNodeArray npool = array_new();
  SubtreePool nsub = ts_subtree_pool_new(0);
  CaptureListPool clp = capture_list_pool_new();
  StackNode *gnodes[256]; unsigned ngnodes = 0;
  StackNodeArray gpool = array_new();
  ts_set_allocator(cm_malloc, cm_calloc, cm_realloc, cm_free);
#ifndef TSV_ASAN
  guard_install();
#endif
  while (fgets(line, sizeof line, stdin)) {
    char *tok = strtok(line, " \n");
    if (!tok) continue;
    if (!strcmp(tok, "arr")) {
      char *op = strtok(NULL, " \n");
      if (!op) continue;
      uint32_t v[4096]; unsigned n = 0; char *t;
      while ((t = strtok(NULL, " \n")) && n < 4096) v[n++] = (uint32_t)strtoul(t, NULL, 10);
      switch (op[0]) {
        case 'P': array_push(&a, v[0]); break;
        case 'O': (void)array_pop(&a); break;
        case 'G': array_grow_by(&a, v[0]); break;
        case 'S': array_splice(&a, v[0], v[1], v[2], v[2] ? &v[3] : NULL); break;
        case 'E': array_erase(&a, v[0]); break;
        case 'I': array_insert(&a, v[0], v[1]); break;
        case 'X': array_extend(&a, v[0], &v[1]); break;
        case 'A': { U32Array o = array_new(); for (unsigned i = 0; i < v[0]; i++) array_push(&o, v[1 + i]); array_assign(&a, &o); array_delete(&o); break; }
        case 'D': array_delete(&a); break;
        default: break;
      }
      print_arr(&a);
    } else if (!strcmp(tok, "cr")) {
      uint32_t v[512]; unsigned n = 0; char *t;
      while ((t = strtok(NULL, " \n")) && n < 512) v[n++] = (uint32_t)strtoul(t, NULL, 10);
      unsigned no = n ? v[0] : 0;
      if (n < 1 + 2 * no + 1) { printf("cr bad-line\n"); fflush(stdout); continue; }
      unsigned nn = v[1 + 2 * no];
      if (n < 2 + 2 * no + 2 * nn) { printf("cr bad-line\n"); fflush(stdout); continue; }
      int fault = 0, acc_old = 0, acc_new = 0;
      char outbuf[8192]; size_t ol = 0; outbuf[0] = 0;
#ifndef TSV_ASAN
      guard_mode = 1;
#endif
      if (sigsetjmp(guard_jmp, 1) == 0) {
        guard_armed = 1;
        // the arrays have EXACTLY no / nn elements (the block ends with the last element)
        TSRange *o = ts_malloc(no * sizeof(TSRange)), *w = ts_malloc(nn * sizeof(TSRange)); // zero elements: a block of size 0 in front of the guard page
        for (unsigned i = 0; i < no; i++) o[i] = (TSRange) {{0, v[1 + 2 * i]}, {0, v[2 + 2 * i]}, v[1 + 2 * i], v[2 + 2 * i]};
        for (unsigned i = 0; i < nn; i++) w[i] = (TSRange) {{0, v[2 + 2 * no + 2 * i]}, {0, v[3 + 2 * no + 2 * i]}, v[2 + 2 * no + 2 * i], v[3 + 2 * no + 2 * i]};
        Lexer lxr;
        ts_lexer_init(&lxr);
        acc_old = no ? ts_lexer_set_included_ranges(&lxr, o, no) : 0;
        acc_new = nn ? ts_lexer_set_included_ranges(&lxr, w, nn) : 0;
        ts_lexer_delete(&lxr);
        TSRangeArray diff = array_new();
        ts_range_array_get_changed_ranges(o, no, w, nn, &diff);
        for (unsigned i = 0; i < diff.size && ol + 40 < sizeof outbuf; i++)
          ol += (size_t)snprintf(outbuf + ol, sizeof outbuf - ol, "%s%u-%u", i ? "," : "", array_get(&diff, i)->start_byte, array_get(&diff, i)->end_byte);
        array_delete(&diff);
        ts_free(o);
        ts_free(w);
      } else {
        fault = 1;
      }
      guard_armed = 0;
      guard_mode = 0;
      printf("cr fault=%d kind=%s off=%ld acc_old=%d acc_new=%d out=%s\n", fault, fault ? (guard_kind == 2 ? "uaf" : "oob") : "-", fault ? guard_off : 0, acc_old, acc_new, outbuf);
    } else if (!strcmp(tok, "lx")) {
      static char doc[4096];
      char *hex = strtok(NULL, " \n"), *t;
      if (!hex) continue;
      uint32_t dl = 0;
      if (strcmp(hex, "-")) for (; hex[2 * dl] && hex[2 * dl + 1] && dl < sizeof doc - 1; dl++) { unsigned b; sscanf(hex + 2 * dl, "%2x", &b); doc[dl] = (char)b; }
      lx_doc = doc; lx_len = dl;
      t = strtok(NULL, " \n");
      unsigned nr = t ? (unsigned)strtoul(t, NULL, 10) : 0;
      uint32_t rv[128];
      for (unsigned i = 0; i < 2 * nr && i < 128; i++) { t = strtok(NULL, " \n"); rv[i] = t ? (uint32_t)strtoul(t, NULL, 10) : 0; }
      t = strtok(NULL, " \n"); // the "|"
      int fault = 0, acc = 0;
      static char tr[16384]; static volatile size_t tl; tl = 0; tr[0] = 0; // static: the trace survives the longjmp
#ifndef TSV_ASAN
      guard_mode = 1;
#endif
      static Lexer lxr; // static: the state survives the longjmp
      if (sigsetjmp(guard_jmp, 1) == 0) {
        guard_armed = 1;
        ts_lexer_init(&lxr);
        TSInput in = {NULL, lx_read, TSInputEncodingUTF8, NULL};
        ts_lexer_set_input(&lxr, in);
        TSRange rs[64];
        for (unsigned i = 0; i < nr && i < 64; i++) rs[i] = (TSRange) {lx_point(rv[2 * i]), lx_point(rv[2 * i + 1]), rv[2 * i], rv[2 * i + 1]};
        acc = nr ? ts_lexer_set_included_ranges(&lxr, rs, nr) : 1;
#define LX_STATE(name) tl += (size_t)snprintf(tr + tl, sizeof tr - tl, "%s%s:%u/%u/%d", tl ? "," : "", name, lxr.current_included_range_index, lxr.included_range_count, lxr.chunk != NULL)
        LX_STATE("init");
        while (acc && (t = strtok(NULL, " \n")) && tl + 64 < sizeof tr) {
          char nm[2] = {t[0], 0};
          // announce the op first: a fault is attributed to it
          size_t mark = tl;
          tl += (size_t)snprintf(tr + tl, sizeof tr - tl, ",%s:", nm);
          switch (t[0]) {
            case 'R': { uint32_t b = (uint32_t)strtoul(t + 1, NULL, 10); Length pos = {b, lx_point(b)}; ts_lexer_reset(&lxr, pos); break; }
            case 'S': ts_lexer_start(&lxr); break;
            case 'C': (void)lxr.data.get_column(&lxr.data); break;
            case 'A': lxr.data.advance(&lxr.data, false); break;
            case 'K': lxr.data.advance(&lxr.data, true); break;
            case 'M': lxr.data.mark_end(&lxr.data); break;
            case 'E': (void)lxr.data.eof(&lxr.data); break;
            case 'F': { uint32_t e = 0; ts_lexer_finish(&lxr, &e); break; }
            default: break;
          }
          tl = mark;
          tr[tl] = 0;
          LX_STATE(nm);
        }
        ts_lexer_delete(&lxr);
      } else {
        fault = 1;
        tl = strlen(tr);
        tl += (size_t)snprintf(tr + tl, sizeof tr - tl, "FAULT");
      }
      guard_armed = 0;
      guard_mode = 0;
      printf("lx fault=%d kind=%s off=%ld acc=%d trace=%s\n", fault, fault ? (guard_kind == 2 ? "uaf" : "oob") : "-", fault ? guard_off : 0, acc, tr);
    } else if (!strcmp(tok, "bits")) {
      Subtree ones;
      memset(&ones, 0xFF, sizeof ones);
      Length p = ts_subtree_padding(ones), sz = ts_subtree_size(ones);
      // a symbol that does not fit the 8-bit inline field / a language with external tokens must not inline
      static TSSymbolMetadata wide_md[512];
      TSLanguage wide = fake;
      wide.symbol_count = 512;
      wide.symbol_metadata = wide_md;
      Length one = {1, {0, 1}};
      Subtree big = ts_subtree_new_leaf(&pool, 300, one, one, 0, 3, false, false, false, &wide);
      Subtree ext = ts_subtree_new_leaf(&pool, 1, one, one, 0, 3, true, false, false, &fake);
      // a query step holds at most MAX_STEP_CAPTURE_COUNT capture ids: further ones are dropped, the
      // neighbouring fields of the step (depth, …) stay what they were
      QueryStep qs = query_step__new(5, 7, false);
      for (uint16_t c = 1; c <= 6; c++) query_step__add_capture(&qs, c);
      printf("bits capslots=%u maxcaps=%u caps=%u,%u,%u stepdepth=%u stepsym=%u stepalt=%u ",
             (unsigned)(sizeof(qs.capture_ids) / sizeof(qs.capture_ids[0])), (unsigned)MAX_STEP_CAPTURE_COUNT,
             qs.capture_ids[0], qs.capture_ids[1], qs.capture_ids[MAX_STEP_CAPTURE_COUNT - 1], qs.depth, qs.symbol, qs.alternative_index == NONE);
      printf("inline=%d pb=%u pr=%u pc=%u sb=%u la=%u links=%u maxlinks=%u sym300inline=%d sym300rb=%u extinline=%d\n",
             ones.data.is_inline ? 1 : 0, p.bytes, p.extent.row, p.extent.column, sz.bytes, ts_subtree_lookahead_bytes(ones),
             (unsigned)(sizeof(((StackNode *)0)->links) / sizeof(StackLink)), (unsigned)MAX_LINK_COUNT,
             big.data.is_inline ? 1 : 0, (unsigned)ts_subtree_symbol(big), ext.data.is_inline ? 1 : 0);
      ts_subtree_release(&pool, big);
      ts_subtree_release(&pool, ext);
    } else if (!strcmp(tok, "inl")) {
      uint32_t v[7] = {0}; char *t; unsigned n = 0;
      while ((t = strtok(NULL, " \n")) && n < 7) v[n++] = (uint32_t)strtoul(t, NULL, 10);
      Length padding = {v[0], {v[1], v[2]}}, size = {v[3], {v[4], v[5]}};
      bool can = ts_subtree_can_inline(padding, size, v[6]);
      Subtree leaf = ts_subtree_new_leaf(&pool, 1, padding, size, v[6], 3, false, false, false, &fake);
      Length p = ts_subtree_padding(leaf), s = ts_subtree_size(leaf);
      printf("inl can=%d inline=%d rb=%u %u %u %u %u %u %u\n", can, leaf.data.is_inline, p.bytes, p.extent.row, p.extent.column,
             s.bytes, s.extent.row, s.extent.column, ts_subtree_lookahead_bytes(leaf));
      ts_subtree_release(&pool, leaf);
    } else if (!strcmp(tok, "pw")) {
      char *kind = strtok(NULL, " \n"), *op = strtok(NULL, " \n"), *arg = strtok(NULL, " \n");
      if (!kind || !op) continue;
      bool sub = !strcmp(kind, "sub");
      cm_keep = 1;
      long m0 = n_mallocs, f0 = n_frees; (void)m0; (void)f0;
      char obj[32] = "-";
      if (op[0] == 'N') {
        nobjs = 0;
        if (sub) { ts_subtree_pool_delete(&spool); spool = ts_subtree_pool_new(arg ? (uint32_t)strtoul(arg, NULL, 10) : 0); }
        else { for (uint32_t i = 0; i < npool.size; i++) ts_free(*array_get(&npool, i)); array_clear(&npool); }
        n_mallocs = 0; n_frees = 0;
      } else if (op[0] == 'A') {
        void *p = sub ? (void *)ts_subtree_pool_allocate(&spool) : (void *)stack_node_new(NULL, NULL_SUBTREE, false, 1, &npool);
        snprintf(obj, sizeof obj, "%u", ordinal_of(p));
      } else if (op[0] == 'F' && arg) {
        unsigned o = (unsigned)strtoul(arg, NULL, 10);
        if (o < nobjs) {
          if (sub) ts_subtree_pool_free(&spool, (SubtreeHeapData *)objs[o]);
          else stack_node_release((StackNode *)objs[o], &npool, &nsub);
          snprintf(obj, sizeof obj, "%u", o);
        }
      }
      printf("pw obj=%s pool=%u mallocs=%ld frees=%ld\n", obj, sub ? spool.free_trees.size : npool.size, n_mallocs, n_frees);
    } else if (!strcmp(tok, "cl")) {
      char *op = strtok(NULL, " \n"), *arg = strtok(NULL, " \n");
      if (!op) continue;
      char idb[32] = "-";
      if (op[0] == 'N') { capture_list_pool_delete(&clp); clp = capture_list_pool_new(); }
      else if (op[0] == 'M' && arg) clp.max_capture_list_count = (uint32_t)strtoul(arg, NULL, 10);
      else if (op[0] == 'A') {
        uint32_t id = capture_list_pool_acquire(&clp);
        if (id == CAPTURE_LIST_NONE) snprintf(idb, sizeof idb, "NONE"); else snprintf(idb, sizeof idb, "%u", id);
      } else if (op[0] == 'R' && arg) { capture_list_pool_release(&clp, (uint32_t)strtoul(arg, NULL, 10)); snprintf(idb, sizeof idb, "%s", arg); }
      else if (op[0] == 'X') capture_list_pool_reset(&clp);
      printf("cl id=%s size=%u free=%u empty=%d\n", idb, clp.list.size, clp.free_capture_list_count, (int)capture_list_pool_is_empty(&clp));
    } else if (!strcmp(tok, "ess")) {
      char *la = strtok(NULL, " \n"), *sa = strtok(NULL, " \n");
      unsigned len = la ? (unsigned)strtoul(la, NULL, 10) : 0;
      rng_state = sa ? strtoull(sa, NULL, 10) : 1;
      static char data[4096], other[4096];
      if (len > sizeof data) len = sizeof data;
      for (unsigned i = 0; i < len; i++) data[i] = (char)rnd();
      memcpy(other, data, len); if (len) other[len / 2] ^= 1;
      long m0 = n_mallocs, f0 = n_frees;
      ExternalScannerState st; memset(&st, 0, sizeof st);
      ts_external_scanner_state_init(&st, data, len);
      long a1 = n_mallocs - m0;
      int rb = memcmp(ts_external_scanner_state_data(&st), data, len) == 0;
      int eq = ts_external_scanner_state_eq(&st, data, len);
      int neq = len ? !ts_external_scanner_state_eq(&st, other, len) : 1;
      long m1 = n_mallocs;
      ExternalScannerState cp = ts_external_scanner_state_copy(&st);
      long a2 = n_mallocs - m1;
      int crb = memcmp(ts_external_scanner_state_data(&cp), data, len) == 0;
      ts_external_scanner_state_delete(&st);
      ts_external_scanner_state_delete(&cp);
      printf("ess heap=%d allocs=%ld rb=%d eq=%d neq=%d copyallocs=%ld copyrb=%d frees=%ld\n",
             (int)(len > sizeof(st.short_data)), a1, rb, eq, neq, a2, crb, n_frees - f0);
    } else if (!strcmp(tok, "al")) {
      char *op = strtok(NULL, " \n"), *x = strtok(NULL, " \n"), *y = strtok(NULL, " \n");
      if (!op) continue;
      // every link carries the same one-byte leaf: a node's position is its depth, as on a real parse stack
      Length z = {0, {0, 0}}, one = {1, {0, 1}};
      Subtree leaf0 = ts_subtree_new_leaf(&pool, 1, z, one, 0, 3, false, false, false, &fake);
      if (op[0] == 'C') { ngnodes = 0; }
      else if (op[0] == 'N' && x && y && ngnodes < 256) {
        long prev = strtol(x, NULL, 10);
        gnodes[ngnodes] = stack_node_new(prev >= 0 && (unsigned)prev < ngnodes ? gnodes[prev] : NULL, leaf0, false,
                                         (TSStateId)strtoul(y, NULL, 10), &gpool);
        ngnodes++;
      } else if (op[0] == 'L' && x && y) {
        unsigned a = (unsigned)strtoul(x, NULL, 10), b = (unsigned)strtoul(y, NULL, 10);
        if (a < ngnodes && b < ngnodes) stack_node_add_link(gnodes[a], (StackLink) {gnodes[b], leaf0, false}, &nsub);
      }
      printf("al");
      for (unsigned i = 0; i < ngnodes; i++) {
        printf(" %u:", i);
        for (unsigned k = 0; k < gnodes[i]->link_count; k++) {
          unsigned t = 999; for (unsigned j = 0; j < ngnodes; j++) if (gnodes[j] == gnodes[i]->links[k].node) t = j;
          printf("%s%u", k ? "," : "", t);
        }
      }
      printf("\n");
    } else if (!strcmp(tok, "fuzz")) {
#ifdef TSV_PARSER_C
      char *s = strtok(NULL, " \n"), *i = strtok(NULL, " \n");
      fuzz(s ? strtoull(s, NULL, 10) : 1, i ? (unsigned)strtoul(i, NULL, 10) : 100);
#else
      printf("fuzz unavailable\n");
#endif
    }
    fflush(stdout);
  }
  array_delete(&a);
  ts_subtree_pool_delete(&pool);
  return 0;
}
