// C07 unity driver: the whole runtime (lib.c) plus a line-protocol main, so that `static`
// functions and the array.h macros are exercised on the REAL code.
//
//   arr P <x> | O | G <n> | S <idx> <old> <n> e1..en | E <idx> | I <idx> <x> | X <n> e.. | A <n> e..
//        -> "arr <size> <capacity> c0 c1 …"   (Array(uint32_t); contracts are the caller's duty)
//   inl <pb> <pr> <pc> <sb> <sr> <sc> <la>
//        -> "inl can=<0|1> inline=<0|1> rb=<pb> <pr> <pc> <sb> <la>"  (ts_subtree_can_inline + a leaf
//           built by ts_subtree_new_leaf, values read back through the accessors)
//   pw sub N <cap> | pw sub A | pw sub F <ord>        SubtreePool free list (ts_subtree_pool_allocate/free)
//   pw node N 0    | pw node A | pw node F <ord>       stack node pool (stack_node_new/stack_node_release)
//        -> "pw obj=<ordinal or -> pool=<cached> mallocs=<n> frees=<n>"
//   cl N | cl M <max> | cl A | cl R <id> | cl X        CaptureListPool of query.c
//        -> "cl id=<id or NONE or -> size=<lists> free=<free count> empty=<0|1>"
//   ess <len> <seed>                                   ExternalScannerState init/copy/data/eq/delete
//        -> "ess heap=<0|1> allocs=<n> rb=<0|1> eq=<0|1> neq=<0|1> copyallocs=<n> copyrb=<0|1> frees=<n>"
//   al N <prev|-1> <state> | al L <self> <node> | al P  stack_node_add_link on a graph of stack nodes
//        -> "al <id>:<t1>,<t2>…;<id>:…"
//   bits                  compile-time facts of the real headers, measured: an all-ones inline Subtree read
//                         back through ts_subtree_padding/size/lookahead_bytes (= the largest value every
//                         size field can hold), and the slot count of StackNode.links
//                         plus new_leaf with a 9-bit symbol / with external tokens (must stay on the heap)
//        -> "bits inline=<0|1> pb=<max> pr=<max> pc=<max> sb=<max> la=<max> links=<slots> maxlinks=<MAX_LINK_COUNT> sym300inline=<0|1> sym300rb=<sym> extinline=<0|1>"
//   fuzz <seed> <iters>   (only useful with -DTSV_PARSER_C: adversarial API use for sanitizer builds)
#include TSV_REPO_LIB_C
#include <stdio.h>
#include <string.h>
#include <stdlib.h>

#ifdef TSV_PARSER_C
#include TSV_PARSER_C
#endif

typedef Array(uint32_t) U32Array;

static void print_arr(U32Array *a) {
  printf("arr %u %u", a->size, a->capacity);
  for (uint32_t i = 0; i < a->size; i++) printf(" %u", *array_get(a, i));
  printf("\n");
}

static long n_mallocs = 0, n_frees = 0;
static void *cm_malloc(size_t n) { n_mallocs++; return malloc(n); }
static void *cm_calloc(size_t a, size_t b) { n_mallocs++; return calloc(a, b); }
static void *cm_realloc(void *p, size_t n) { if (!p) n_mallocs++; return realloc(p, n); }
static int cm_keep = 0; // protocols that identify objects by address never give memory back (no address reuse)
static void cm_free(void *p) { if (p) n_frees++; if (!cm_keep) free(p); }

#define MAXOBJ 4096
static void *objs[MAXOBJ]; static unsigned nobjs = 0;
static unsigned ordinal_of(void *p) { for (unsigned i = 0; i < nobjs; i++) if (objs[i] == p) return i; objs[nobjs] = p; return nobjs++; }

static uint64_t rng_state;
static uint64_t rnd(void) {
  rng_state += 0x9E3779B97F4A7C15ull;
  uint64_t z = rng_state;
  z = (z ^ (z >> 30)) * 0xBF58476D1CE4E5B9ull;
  z = (z ^ (z >> 27)) * 0x94D049BB133111EBull;
  return z ^ (z >> 31);
}

#ifdef TSV_PARSER_C
const TSLanguage *TSV_LANG_FN(void);
static void fuzz(uint64_t seed, unsigned iters) {
  rng_state = seed;
  const TSLanguage *lang = TSV_LANG_FN();
  static const char *alphabet[] = {"(", ")", "a", "b1", "12", " ", "\n", "+", "*", "-", "\xc3\xa9", "\xff", "\0", "[", "]", ",", "\"x\"", "{", "}", ":"};
  for (unsigned it = 0; it < iters; it++) {
    TSParser *parser = ts_parser_new();
    ts_parser_set_language(parser, lang);
    char buf[4096];
    unsigned len = 0, ntok = rnd() % 200;
    for (unsigned i = 0; i < ntok && len < sizeof(buf) - 8; i++) {
      if (rnd() % 10 == 0) { buf[len++] = (char)rnd(); continue; }
      const char *t = alphabet[rnd() % (sizeof(alphabet) / sizeof(*alphabet))];
      size_t tl = strlen(t); if (tl == 0) tl = 1;
      memcpy(buf + len, t, tl); len += tl;
    }
    if (rnd() % 4 == 0) {
      TSRange r[2] = {{{0, 0}, {0, len / 3}, 0, len / 3}, {{0, len / 2}, {0, len}, len / 2, len}};
      ts_parser_set_included_ranges(parser, r, 2);
    }
    TSTree *tree = ts_parser_parse_string(parser, NULL, buf, len);
    TSTree *copies[4] = {0};
    for (unsigned k = 0; k < 6 && tree; k++) {
      unsigned op = rnd() % 6;
      if (op == 0) { unsigned c = rnd() % 4; if (copies[c]) ts_tree_delete(copies[c]); copies[c] = ts_tree_copy(tree); }
      else if (op == 1) {
        uint32_t s = rnd() % (len + 4), oe = s + rnd() % 8, ne = s + rnd() % 8;
        if (rnd() % 8 == 0) { s = 0xfffffff0u; oe = 0xfffffffau; ne = 0xfffffff5u; }
        TSInputEdit e = {s, oe, ne, {0, s}, {0, oe}, {0, ne}};
        ts_tree_edit(tree, &e);
      } else if (op == 2) {
        TSTree *t2 = ts_parser_parse_string(parser, tree, buf, len);
        if (t2) { ts_tree_delete(tree); tree = t2; }
      } else if (op == 3) {
        TSTreeCursor c = ts_tree_cursor_new(ts_tree_root_node(tree));
        unsigned n = 0;
        while (n++ < 5000) {
          if (ts_tree_cursor_goto_first_child(&c)) continue;
          while (!ts_tree_cursor_goto_next_sibling(&c)) { if (!ts_tree_cursor_goto_parent(&c)) { n = 9999; break; } }
        }
        ts_tree_cursor_goto_first_child_for_byte(&c, (uint32_t)rnd());
        ts_tree_cursor_delete(&c);
      } else if (op == 4) {
        char q[64]; unsigned ql = rnd() % 40;
        static const char *qa[] = {"(", ")", "_", "@a", " ", "\"a\"", "[", "]", "*", "+", "?", ".", "#eq?", "!", ":", "x", "ERROR", "MISSING"};
        unsigned l = 0;
        for (unsigned i = 0; i < ql && l < sizeof(q) - 8; i++) { const char *t = qa[rnd() % (sizeof(qa)/sizeof(*qa))]; size_t tl = strlen(t); memcpy(q + l, t, tl); l += tl; }
        uint32_t eo; TSQueryError et;
        TSQuery *query = ts_query_new(lang, q, l, &eo, &et);
        if (query) {
          TSQueryCursor *qc = ts_query_cursor_new();
          ts_query_cursor_set_match_limit(qc, 1 + rnd() % 4);
          ts_query_cursor_exec(qc, query, ts_tree_root_node(tree));
          TSQueryMatch m; unsigned n = 0;
          while (n++ < 2000 && ts_query_cursor_next_match(qc, &m)) {}
          ts_query_cursor_delete(qc);
          ts_query_delete(query);
        }
      } else {
        TSNode root = ts_tree_root_node(tree);
        TSNode d = ts_node_descendant_for_byte_range(root, (uint32_t)rnd() % (len + 10), (uint32_t)rnd());
        (void)ts_node_child(d, (uint32_t)rnd());
        (void)ts_node_parent(d);
        char *s = ts_node_string(d); ts_free(s);
      }
    }
    for (unsigned c = 0; c < 4; c++) if (copies[c]) ts_tree_delete(copies[c]);
    if (tree) ts_tree_delete(tree);
    ts_parser_delete(parser);
  }
  printf("fuzz done %u\n", iters);
}
#endif

int main(void) {
  char line[1 << 16];
  U32Array a = array_new();
  TSSymbolMetadata md[4] = {{true, true, false}, {true, false, false}, {false, false, false}, {true, true, false}};
  TSLanguage fake;
  memset(&fake, 0, sizeof fake);
  fake.symbol_count = 4;
  fake.symbol_metadata = md;
  SubtreePool pool = ts_subtree_pool_new(4);
  // second set of objects for the pool / capture-list / link protocols
  SubtreePool spool = ts_subtree_pool_new(0);
  StackNodeArray npool = array_new();
  SubtreePool nsub = ts_subtree_pool_new(0);
  CaptureListPool clp = capture_list_pool_new();
  StackNode *gnodes[256]; unsigned ngnodes = 0;
  StackNodeArray gpool = array_new();
  ts_set_allocator(cm_malloc, cm_calloc, cm_realloc, cm_free);
  while (fgets(line, sizeof line, stdin)) {
    char *tok = strtok(line, " \n");
    if (!tok) continue;
    if (!strcmp(tok, "arr")) {
      char *op = strtok(NULL, " \n");
      if (!op) continue;
      uint32_t v[4096]; unsigned n = 0; char *t;
      while ((t = strtok(NULL, " \n")) && n < 4096) v[n++] = (uint32_t)strtoul(t, NULL, 10);
      switch (op[0]) {
        case 'P': array_push(&a, v[0]); break;
        case 'O': (void)array_pop(&a); break;
        case 'G': array_grow_by(&a, v[0]); break;
        case 'S': array_splice(&a, v[0], v[1], v[2], v[2] ? &v[3] : NULL); break;
        case 'E': array_erase(&a, v[0]); break;
        case 'I': array_insert(&a, v[0], v[1]); break;
        case 'X': array_extend(&a, v[0], &v[1]); break;
        case 'A': { U32Array o = array_new(); for (unsigned i = 0; i < v[0]; i++) array_push(&o, v[1 + i]); array_assign(&a, &o); array_delete(&o); break; }
        case 'D': array_delete(&a); break;
        default: break;
      }
      print_arr(&a);
    } else if (!strcmp(tok, "bits")) {
      Subtree ones;
      memset(&ones, 0xFF, sizeof ones);
      Length p = ts_subtree_padding(ones), sz = ts_subtree_size(ones);
      // a symbol that does not fit the 8-bit inline field / a language with external tokens must not inline
      static TSSymbolMetadata wide_md[512];
      TSLanguage wide = fake;
      wide.symbol_count = 512;
      wide.symbol_metadata = wide_md;
      Length one = {1, {0, 1}};
      Subtree big = ts_subtree_new_leaf(&pool, 300, one, one, 0, 3, false, false, false, &wide);
      Subtree ext = ts_subtree_new_leaf(&pool, 1, one, one, 0, 3, true, false, false, &fake);
      printf("bits inline=%d pb=%u pr=%u pc=%u sb=%u la=%u links=%u maxlinks=%u sym300inline=%d sym300rb=%u extinline=%d\n",
             ones.data.is_inline ? 1 : 0, p.bytes, p.extent.row, p.extent.column, sz.bytes, ts_subtree_lookahead_bytes(ones),
             (unsigned)(sizeof(((StackNode *)0)->links) / sizeof(StackLink)), (unsigned)MAX_LINK_COUNT,
             big.data.is_inline ? 1 : 0, (unsigned)ts_subtree_symbol(big), ext.data.is_inline ? 1 : 0);
      ts_subtree_release(&pool, big);
      ts_subtree_release(&pool, ext);
    } else if (!strcmp(tok, "inl")) {
      uint32_t v[7] = {0}; char *t; unsigned n = 0;
      while ((t = strtok(NULL, " \n")) && n < 7) v[n++] = (uint32_t)strtoul(t, NULL, 10);
      Length padding = {v[0], {v[1], v[2]}}, size = {v[3], {v[4], v[5]}};
      bool can = ts_subtree_can_inline(padding, size, v[6]);
      Subtree leaf = ts_subtree_new_leaf(&pool, 1, padding, size, v[6], 3, false, false, false, &fake);
      Length p = ts_subtree_padding(leaf), s = ts_subtree_size(leaf);
      printf("inl can=%d inline=%d rb=%u %u %u %u %u %u %u\n", can, leaf.data.is_inline, p.bytes, p.extent.row, p.extent.column,
             s.bytes, s.extent.row, s.extent.column, ts_subtree_lookahead_bytes(leaf));
      ts_subtree_release(&pool, leaf);
    } else if (!strcmp(tok, "pw")) {
      char *kind = strtok(NULL, " \n"), *op = strtok(NULL, " \n"), *arg = strtok(NULL, " \n");
      if (!kind || !op) continue;
      bool sub = !strcmp(kind, "sub");
      cm_keep = 1;
      long m0 = n_mallocs, f0 = n_frees; (void)m0; (void)f0;
      char obj[32] = "-";
      if (op[0] == 'N') {
        nobjs = 0;
        if (sub) { ts_subtree_pool_delete(&spool); spool = ts_subtree_pool_new(arg ? (uint32_t)strtoul(arg, NULL, 10) : 0); }
        else { for (uint32_t i = 0; i < npool.size; i++) ts_free(*array_get(&npool, i)); array_clear(&npool); }
        n_mallocs = 0; n_frees = 0;
      } else if (op[0] == 'A') {
        void *p = sub ? (void *)ts_subtree_pool_allocate(&spool) : (void *)stack_node_new(NULL, NULL_SUBTREE, false, 1, &npool);
        snprintf(obj, sizeof obj, "%u", ordinal_of(p));
      } else if (op[0] == 'F' && arg) {
        unsigned o = (unsigned)strtoul(arg, NULL, 10);
        if (o < nobjs) {
          if (sub) ts_subtree_pool_free(&spool, (SubtreeHeapData *)objs[o]);
          else stack_node_release((StackNode *)objs[o], &npool, &nsub);
          snprintf(obj, sizeof obj, "%u", o);
        }
      }
      printf("pw obj=%s pool=%u mallocs=%ld frees=%ld\n", obj, sub ? spool.free_trees.size : npool.size, n_mallocs, n_frees);
    } else if (!strcmp(tok, "cl")) {
      char *op = strtok(NULL, " \n"), *arg = strtok(NULL, " \n");
      if (!op) continue;
      char idb[32] = "-";
      if (op[0] == 'N') { capture_list_pool_delete(&clp); clp = capture_list_pool_new(); }
      else if (op[0] == 'M' && arg) clp.max_capture_list_count = (uint32_t)strtoul(arg, NULL, 10);
      else if (op[0] == 'A') {
        uint32_t id = capture_list_pool_acquire(&clp);
        if (id == CAPTURE_LIST_NONE) snprintf(idb, sizeof idb, "NONE"); else snprintf(idb, sizeof idb, "%u", id);
      } else if (op[0] == 'R' && arg) { capture_list_pool_release(&clp, (uint32_t)strtoul(arg, NULL, 10)); snprintf(idb, sizeof idb, "%s", arg); }
      else if (op[0] == 'X') capture_list_pool_reset(&clp);
      printf("cl id=%s size=%u free=%u empty=%d\n", idb, clp.list.size, clp.free_capture_list_count, (int)capture_list_pool_is_empty(&clp));
    } else if (!strcmp(tok, "ess")) {
      char *la = strtok(NULL, " \n"), *sa = strtok(NULL, " \n");
      unsigned len = la ? (unsigned)strtoul(la, NULL, 10) : 0;
      rng_state = sa ? strtoull(sa, NULL, 10) : 1;
      static char data[4096], other[4096];
      if (len > sizeof data) len = sizeof data;
      for (unsigned i = 0; i < len; i++) data[i] = (char)rnd();
      memcpy(other, data, len); if (len) other[len / 2] ^= 1;
      long m0 = n_mallocs, f0 = n_frees;
      ExternalScannerState st; memset(&st, 0, sizeof st);
      ts_external_scanner_state_init(&st, data, len);
      long a1 = n_mallocs - m0;
      int rb = memcmp(ts_external_scanner_state_data(&st), data, len) == 0;
      int eq = ts_external_scanner_state_eq(&st, data, len);
      int neq = len ? !ts_external_scanner_state_eq(&st, other, len) : 1;
      long m1 = n_mallocs;
      ExternalScannerState cp = ts_external_scanner_state_copy(&st);
      long a2 = n_mallocs - m1;
      int crb = memcmp(ts_external_scanner_state_data(&cp), data, len) == 0;
      ts_external_scanner_state_delete(&st);
      ts_external_scanner_state_delete(&cp);
      printf("ess heap=%d allocs=%ld rb=%d eq=%d neq=%d copyallocs=%ld copyrb=%d frees=%ld\n",
             (int)(len > sizeof(st.short_data)), a1, rb, eq, neq, a2, crb, n_frees - f0);
    } else if (!strcmp(tok, "al")) {
      char *op = strtok(NULL, " \n"), *x = strtok(NULL, " \n"), *y = strtok(NULL, " \n");
      if (!op) continue;
      // every link carries the same one-byte leaf: a node's position is its depth, as on a real parse stack
      Length z = {0, {0, 0}}, one = {1, {0, 1}};
      Subtree leaf0 = ts_subtree_new_leaf(&pool, 1, z, one, 0, 3, false, false, false, &fake);
      if (op[0] == 'C') { ngnodes = 0; }
      else if (op[0] == 'N' && x && y && ngnodes < 256) {
        long prev = strtol(x, NULL, 10);
        gnodes[ngnodes] = stack_node_new(prev >= 0 && (unsigned)prev < ngnodes ? gnodes[prev] : NULL, leaf0, false,
                                         (TSStateId)strtoul(y, NULL, 10), &gpool);
        ngnodes++;
      } else if (op[0] == 'L' && x && y) {
        unsigned a = (unsigned)strtoul(x, NULL, 10), b = (unsigned)strtoul(y, NULL, 10);
        if (a < ngnodes && b < ngnodes) stack_node_add_link(gnodes[a], (StackLink) {gnodes[b], leaf0, false}, &nsub);
      }
      printf("al");
      for (unsigned i = 0; i < ngnodes; i++) {
        printf(" %u:", i);
        for (unsigned k = 0; k < gnodes[i]->link_count; k++) {
          unsigned t = 999; for (unsigned j = 0; j < ngnodes; j++) if (gnodes[j] == gnodes[i]->links[k].node) t = j;
          printf("%s%u", k ? "," : "", t);
        }
      }
      printf("\n");
    } else if (!strcmp(tok, "fuzz")) {
#ifdef TSV_PARSER_C
      char *s = strtok(NULL, " \n"), *i = strtok(NULL, " \n");
      fuzz(s ? strtoull(s, NULL, 10) : 1, i ? (unsigned)strtoul(i, NULL, 10) : 100);
#else
      printf("fuzz unavailable\n");
#endif
    }
    fflush(stdout);
  }
  array_delete(&a);
  ts_subtree_pool_delete(&pool);
  return 0;
}
