// Unity build for C11: calls the REAL static functions of lib/src/query.c —
//   finished_state_precedes / sift_up / sift_down / pop / erase, ts_query_cursor__heapify_finished_states,
//   capture_list_pool_new / reset / acquire / release / is_empty
// — on scripted operation sequences (stdin), printing the resulting structures after every
// operation so that the Lean ports (TsVerif/C11/Heap.lean) can be compared line by line.
//
// Heap script (one session = `hnew` … ):
//   hnew                         fresh cursor (ts_query_cursor_new), unlimited pool
//   hpush <pat> <n> <b0> .. <bn-1>  push a finished state whose capture list holds n nodes starting
//                                at the given bytes (ts_query_cursor__push_finished_state: plain array_push)
//   hheapify                     ts_query_cursor__heapify_finished_states
//   hpop                         heapify; finished_state_pop; heap_size = size   (as next_capture does)
//   herase <i>                   heapify; finished_state_erase(i); heap_size = size   (as remove_match does)
//   hconsume                     heapify; root.consumed_capture_count++; sift_down(0)  (as next_capture does)
//   → after each: `h <heap_size> <size> (<insert_order>:<consumed>)*`
// Pool script:
//   pnew / pmax <k> / preset / pacq / prel <id> / pempty
//   → after each: `p <result> <list.size> <free_count> (<0|1 in use>)*`
#include TSV_REPO_LIB_C
#include <stdio.h>
#include <string.h>
#include <stdlib.h>

static TSQueryCursor *cur = NULL;
static CaptureListPool pool;
static bool have_pool = false;

static void print_heap(void) {
  printf("h %u %u", cur->finished_states_heap_size, cur->finished_states.size);
  for (uint32_t i = 0; i < cur->finished_states.size; i++) {
    QueryState *s = array_get(&cur->finished_states, i);
    printf(" %u:%u", s->heap_insert_order, (unsigned)s->consumed_capture_count);
  }
  printf("\n");
}

static void print_pool(long result) {
  printf("p %ld %u %u", result, pool.list.size, pool.free_capture_list_count);
  for (uint32_t i = 0; i < pool.list.size; i++) {
    printf(" %d", array_get(&pool.list, i)->size == UINT32_MAX ? 0 : 1);
  }
  printf("\n");
}

int main(void) {
  char line[4096];
  while (fgets(line, sizeof line, stdin)) {
    char *tok = strtok(line, " \n");
    if (!tok) continue;
    if (!strcmp(tok, "hnew")) {
      if (cur) ts_query_cursor_delete(cur);
      cur = ts_query_cursor_new();
      ts_query_cursor_set_match_limit(cur, UINT32_MAX);
      print_heap();
    } else if (!strcmp(tok, "hpush")) {
      uint32_t pat = (uint32_t)atoi(strtok(NULL, " \n"));
      uint32_t n = (uint32_t)atoi(strtok(NULL, " \n"));
      uint32_t id = capture_list_pool_acquire(&cur->capture_list_pool);
      CaptureList *list = capture_list_pool_get_mut(&cur->capture_list_pool, id);
      for (uint32_t i = 0; i < n; i++) {
        TSNode node;
        memset(&node, 0, sizeof node);
        node.context[0] = (uint32_t)atoi(strtok(NULL, " \n"));  // ts_node_start_byte reads context[0]
        array_push(list, ((TSQueryCapture) { node, 0 }));
      }
      QueryState st;
      memset(&st, 0, sizeof st);
      st.id = UINT32_MAX;
      st.capture_list_id = id;
      st.pattern_index = (uint16_t)pat;
      ts_query_cursor__push_finished_state(cur, &st);
      print_heap();
    } else if (!strcmp(tok, "hheapify")) {
      ts_query_cursor__heapify_finished_states(cur);
      print_heap();
    } else if (!strcmp(tok, "hpop")) {
      ts_query_cursor__heapify_finished_states(cur);
      if (cur->finished_states.size > 0) {
        QueryState *s = array_get(&cur->finished_states, 0);
        capture_list_pool_release(&cur->capture_list_pool, s->capture_list_id);
        finished_state_pop(&cur->finished_states, &cur->capture_list_pool);
        cur->finished_states_heap_size = cur->finished_states.size;
      }
      print_heap();
    } else if (!strcmp(tok, "herase")) {
      uint32_t i = (uint32_t)atoi(strtok(NULL, " \n"));
      ts_query_cursor__heapify_finished_states(cur);
      if (i < cur->finished_states.size) {
        QueryState *s = array_get(&cur->finished_states, i);
        capture_list_pool_release(&cur->capture_list_pool, s->capture_list_id);
        finished_state_erase(&cur->finished_states, i, &cur->capture_list_pool);
        cur->finished_states_heap_size = cur->finished_states.size;
      }
      print_heap();
    } else if (!strcmp(tok, "hconsume")) {
      ts_query_cursor__heapify_finished_states(cur);
      if (cur->finished_states.size > 0) {
        array_get(&cur->finished_states, 0)->consumed_capture_count++;
        finished_state_sift_down(&cur->finished_states, 0, &cur->capture_list_pool);
      }
      print_heap();
    } else if (!strcmp(tok, "pnew")) {
      if (have_pool) capture_list_pool_delete(&pool);
      pool = capture_list_pool_new();
      have_pool = true;
      print_pool(-1);
    } else if (!strcmp(tok, "pmax")) {
      pool.max_capture_list_count = (uint32_t)strtoul(strtok(NULL, " \n"), NULL, 10);
      print_pool(-1);
    } else if (!strcmp(tok, "preset")) {
      capture_list_pool_reset(&pool);
      print_pool(-1);
    } else if (!strcmp(tok, "pacq")) {
      uint32_t id = capture_list_pool_acquire(&pool);
      print_pool(id == CAPTURE_LIST_NONE ? -2 : (long)id);
    } else if (!strcmp(tok, "prel")) {
      uint32_t id = (uint32_t)atoi(strtok(NULL, " \n"));
      // the callers only release lists that are in use
      if (id < pool.list.size && array_get(&pool.list, id)->size != UINT32_MAX) capture_list_pool_release(&pool, id);
      print_pool(-1);
    } else if (!strcmp(tok, "pempty")) {
      print_pool(capture_list_pool_is_empty(&pool) ? 1 : 0);
    }
  }
  return 0;
}
