#!/usr/bin/env python3
"""Regenerate MANIFEST.json from checks/registry.json (one entry per claimed property)."""
import json, os
ROOT = os.path.dirname(os.path.abspath(__file__))
reg = json.load(open(os.path.join(ROOT, "checks", "registry.json")))
rd = os.path.join(ROOT, "checks", "registry.d")
for f in sorted(os.listdir(rd)) if os.path.isdir(rd) else []:
    if f.endswith(".json"):
        e = json.load(open(os.path.join(rd, f)))
        reg["claimed"][e["property_id"]] = e
        reg.setdefault("hook_commits", []).extend(e.get("hook_commits", []))
props = [json.loads(l)["id"] for l in open(os.path.join(ROOT, "properties.jsonl"))]
checks = []
for pid in props:
    r = reg["claimed"].get(pid)
    if not r:
        continue
    checks.append({
        "property_id": pid,
        "quick_cmd": "./check %s --tier quick" % pid,
        "thorough_cmd": "./check %s --tier thorough" % pid,
        "evidence_file": "evidence/%s.json" % pid,
        "replay_cmd_template": "./check %s --replay {path}" % pid,
        "engine": "lean4-proof+correspondence",
        "level_claimed": {"category": "proof", "text": r["text"], "design_ref": r.get("design_ref", "DESIGN.md §7 " + pid)},
        "level_note": r["note"],
        "technique": r["technique"],
    })
na = [{"property_id": p, "reason": reg["not_applicable"].get(p, "check not built yet in this round (planned, see DESIGN.md §7)")}
      for p in props if p not in reg["claimed"]]
m = {
    "version": 1,
    "setup_cmd": "./setup.sh",
    "hooks": {
        "guard": "tree_sitter_tree_sitter_verif",
        "enable": "harness/.cargo/config.toml sets rustflags --cfg tree_sitter_tree_sitter_verif for /repo crates built as path dependencies of the harness",
        "baseline_off_cmd": "cd /repo && cargo test --workspace --no-fail-fast --offline",
        "source_commits": reg.get("hook_commits", []),
        "add_only": True,
    },
    "engines": [
        {"name": "lean4-proof+correspondence", "path": "lean/ + harness/ + translator/ + check",
         "serves_properties": sorted(reg["claimed"].keys()),
         "kind_free_text": "Lean 4 theorems over models regenerated from /repo (translator) or hand-ported and tied by a correspondence check on dumps of real runtime structures; Lean judge predicates evaluated on implementation outputs"},
    ],
    "checks": checks,
    "notes": "See DESIGN.md. Every check regenerates lean/TsVerif/Gen from /repo, rebuilds proofs, audits axioms, rebuilds the harness against /repo's working tree and runs the correspondence + judge.",
    "not_applicable": na,
}
json.dump(m, open(os.path.join(ROOT, "MANIFEST.json"), "w"), indent=1)
print("MANIFEST: %d checks, %d not claimed" % (len(checks), len(na)))
