#!/usr/bin/env python3
"""Copy independently written, lead-verified seeded changes from /tmp/breaker/out into /verif/seeded."""
import json, os, shutil, sys
SRC = "/tmp/breaker/out"
DST = os.path.join(os.path.dirname(os.path.dirname(os.path.abspath(__file__))), "seeded")
for name in sorted(os.listdir(SRC)):
    d = os.path.join(SRC, name)
    vf = os.path.join(d, "verified.json")
    if not os.path.exists(vf) or not os.path.exists(os.path.join(d, "meta.json")):
        continue
    v = json.load(open(vf))
    ok = v["patch_applies"] == "ok" and v["baseline"] == "128/128" and v["demo_with_change"] == "fail" and v["demo_without_change"] == "pass"
    if not ok:
        print("SKIP (not confirmed):", name, v)
        continue
    out = os.path.join(DST, name)
    os.makedirs(out, exist_ok=True)
    for f in os.listdir(d):
        p = os.path.join(d, f)
        if f.endswith(".log") or f == "verified.json":
            continue
        if os.path.isdir(p):
            if os.path.exists(os.path.join(out, f)):
                shutil.rmtree(os.path.join(out, f))
            shutil.copytree(p, os.path.join(out, f))
        elif os.path.getsize(p) < 2_000_000:
            shutil.copy(p, os.path.join(out, f))
    meta = json.load(open(os.path.join(d, "meta.json")))
    meta["lead_confirmation"] = {
        "ran": "in a scratch worktree of /repo: git apply patch.diff; /tmp/breaker/run_baseline.sh (cargo test --workspace --no-fail-fast --offline, 128 stable tests); demo.sh with the change; git checkout; demo.sh without the change",
        "result": v,
    }
    json.dump(meta, open(os.path.join(out, "meta.json"), "w"), indent=1)
    print("imported", name)
