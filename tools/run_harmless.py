#!/usr/bin/env python3
"""Run the property's check against every semantics-preserving rewrite in harmless/ (each applied to a PRIVATE
patched copy of /repo by tools/with_patch); a rewrite must NOT alarm: exit 0, no VIOLATION.  Rewrites that no
longer apply to the current /repo (the code they touched was changed by a later fix: commit) are reported as
NOAPPLY.  Result: harmless/RESULTS.json.   usage: tools/run_harmless.py [--jobs N] [name-prefix ...]"""
import json, os, re, subprocess, sys, time
from concurrent.futures import ThreadPoolExecutor
ROOT = os.path.dirname(os.path.dirname(os.path.abspath(__file__)))
HD = os.path.join(ROOT, "harmless")
args = sys.argv[1:]
jobs = 1
if args and args[0] == "--jobs":
    jobs = int(args[1]); args = args[2:]
head = subprocess.run(["git", "-C", "/repo", "rev-parse", "--short", "HEAD"], capture_output=True, text=True).stdout.strip()
def run(name):
    m = re.match(r"(C\d\d)", name)
    if not m: return name, None
    prop = m.group(1); patch = os.path.join(HD, name); t0 = time.time()
    if subprocess.run(["git", "-C", "/repo", "apply", "--check", patch], capture_output=True).returncode != 0:
        r = {"property": prop, "repo_head": head, "status": "NOAPPLY"}
    else:
        p = subprocess.run([os.path.join(ROOT, "tools", "with_patch"), patch, "--", "./check", prop], cwd=ROOT,
                           stdout=subprocess.PIPE, stderr=subprocess.STDOUT, text=True)
        viol = [l for l in p.stdout.split("\n") if l.startswith("VIOLATION")]
        ok = p.returncode == 0 and not viol
        r = {"property": prop, "repo_head": head, "status": "pass" if ok else "ALARM", "check_exit": p.returncode,
             "violations": len(viol), "first": (viol or [""])[0],
             "detail": [l.strip()[:300] for l in p.stdout.split("\n") if l.startswith("  (")][:2], "wall_s": round(time.time() - t0, 1)}
    print(name, r["status"], flush=True)
    return name, r
names = [n for n in sorted(os.listdir(HD)) if n.endswith(".diff") and (not args or any(n.startswith(a) for a in args))]
with ThreadPoolExecutor(max_workers=jobs) as ex:
    res = dict(x for x in ex.map(run, names) if x[1])
old = {}
rf = os.path.join(HD, "RESULTS.json")
if os.path.exists(rf): old = json.load(open(rf))
old.update(res); json.dump(old, open(rf, "w"), indent=1)
c = lambda s: sum(1 for r in old.values() if r["status"] == s)
print("pass %d, ALARM %d, NOAPPLY %d of %d" % (c("pass"), c("ALARM"), c("NOAPPLY"), len(old)))
