#!/usr/bin/env python3
"""Run the property's check against each seeded change (applied to /repo under the exclusive lock,
always reverted) and record who catches what in seeded/RESULTS.json.
usage: tools/run_seeded.py [name-prefix ...]"""
import json, os, re, subprocess, sys, time
ROOT = os.path.dirname(os.path.dirname(os.path.abspath(__file__)))
SD = os.path.join(ROOT, "seeded")
resf = os.path.join(SD, "RESULTS.json")
res = json.load(open(resf)) if os.path.exists(resf) else {}
manifest = json.load(open(os.path.join(ROOT, "MANIFEST.json")))
claimed = {c["property_id"] for c in manifest["checks"]}
for name in sorted(os.listdir(SD)):
    d = os.path.join(SD, name)
    if not os.path.isdir(d) or (sys.argv[1:] and not any(name.startswith(p) for p in sys.argv[1:])):
        continue
    prop = json.load(open(os.path.join(d, "meta.json")))["property"]
    if prop not in claimed:
        print(name, ": property not claimed yet")
        continue
    t0 = time.time()
    p = subprocess.run([os.path.join(ROOT, "tools", "with_patch"), os.path.join(d, "patch.diff"), "--", "./check", prop],
                       cwd=ROOT, stdout=subprocess.PIPE, stderr=subprocess.STDOUT, text=True)
    viol = [l for l in p.stdout.split("\n") if l.startswith("VIOLATION")]
    concrete = [l for l in viol if "no-failing-input-found" not in l]
    res[name] = {"property": prop, "check_exit": p.returncode, "violations": len(viol), "with_concrete_input": len(concrete),
                 "caught": p.returncode == 1 and len(viol) > 0, "wall_s": round(time.time() - t0, 1),
                 "first": (concrete or viol or [""])[0], "detail": [l.strip() for l in p.stdout.split("\n") if l.startswith("  (")][:2]}
    print(name, res[name]["caught"], res[name]["violations"], res[name]["with_concrete_input"], res[name]["wall_s"])
    json.dump(res, open(resf, "w"), indent=1)
