#!/usr/bin/env python3
"""Run the property's check against seeded changes (each applied to a PRIVATE patched copy of /repo by
tools/with_patch) and record who catches what: seeded/<name>/result.json, aggregated into
seeded/RESULTS.json.   usage: tools/run_seeded.py [--jobs N] [name-prefix ...]"""
import json, os, subprocess, sys, time
from concurrent.futures import ThreadPoolExecutor
ROOT = os.path.dirname(os.path.dirname(os.path.abspath(__file__)))
SD = os.path.join(ROOT, "seeded")
args = sys.argv[1:]
jobs = 1
if args and args[0] == "--jobs":
    jobs = int(args[1]); args = args[2:]
manifest = json.load(open(os.path.join(ROOT, "MANIFEST.json")))
claimed = {c["property_id"] for c in manifest["checks"]}
head = subprocess.run(["git", "-C", "/repo", "rev-parse", "--short", "HEAD"], capture_output=True, text=True).stdout.strip()

def patch_for(d):
    # a seed rebased onto the repaired tree takes precedence when /repo contains the fixes
    p2 = os.path.join(d, "patch.onfixed.diff")
    if os.path.exists(p2) and subprocess.run(["git", "-C", "/repo", "apply", "--check", p2], capture_output=True).returncode == 0:
        return p2
    return os.path.join(d, "patch.diff")

def run(name):
    d = os.path.join(SD, name)
    prop = json.load(open(os.path.join(d, "meta.json")))["property"]
    if prop not in claimed:
        return name, None
    t0 = time.time()
    patch = patch_for(d)
    p = subprocess.run([os.path.join(ROOT, "tools", "with_patch"), patch, "--", "./check", prop],
                       cwd=ROOT, stdout=subprocess.PIPE, stderr=subprocess.STDOUT, text=True)
    lines = p.stdout.split("\n")
    viol = [l for l in lines if l.startswith("VIOLATION")]
    concrete = [l for l in viol if "no-failing-input-found" not in l]
    r = {"property": prop, "repo_head": head, "patch": os.path.basename(patch), "check_exit": p.returncode,
         "violations": len(viol), "with_concrete_input": len(concrete),
         "caught": p.returncode == 1 and len(viol) > 0, "wall_s": round(time.time() - t0, 1),
         "first": (concrete or viol or [""])[0],
         "detail": [l.strip()[:400] for l in lines if l.startswith("  (")][:2],
         "applies": "patch does not apply" not in p.stdout}
    json.dump(r, open(os.path.join(d, "result.json"), "w"), indent=1)
    print(name, "caught" if r["caught"] else ("NOAPPLY" if not r["applies"] else "MISSED"), r["violations"], r["with_concrete_input"], r["wall_s"], flush=True)
    return name, r

names = [n for n in sorted(os.listdir(SD)) if os.path.isdir(os.path.join(SD, n)) and (not args or any(n.startswith(a) for a in args))]
with ThreadPoolExecutor(max_workers=jobs) as ex:
    list(ex.map(run, names))
agg = {}
for n in sorted(os.listdir(SD)):
    rf = os.path.join(SD, n, "result.json")
    if os.path.exists(rf):
        agg[n] = json.load(open(rf))
json.dump(agg, open(os.path.join(SD, "RESULTS.json"), "w"), indent=1)
print("caught %d / %d run" % (sum(1 for r in agg.values() if r["caught"]), len(agg)))
