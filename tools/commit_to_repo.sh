#!/bin/sh
# usage: tools/commit_to_repo.sh <patch.diff> "<commit message>"   (lead only)
# Verifies in a scratch worktree that the 128 baseline tests still pass with the patch (guard off),
# then applies and commits it in /repo under the exclusive repo lock.
set -e
PATCH="$(readlink -f "$1")"; MSG="$2"
WT=/tmp/breaker/wt2
git -C "$WT" checkout -q -- . ; git -C "$WT" clean -fdq -- crates lib test
git -C "$WT" checkout -q --detach "$(git -C /repo rev-parse HEAD)"
git -C "$WT" apply "$PATCH"
if ! /tmp/breaker/run_baseline.sh "$WT" | tail -3; then echo "baseline lost tests; not committing"; git -C "$WT" checkout -q -- .; exit 1; fi
git -C "$WT" checkout -q -- . ; git -C "$WT" clean -fdq -- crates lib test
exec 8>/verif/.cache/repo.gate
flock -x 8
exec 9>/verif/.cache/repo.lock
flock -x 9
if ! git -C /repo diff --quiet; then echo "/repo dirty"; exit 3; fi
git -C /repo apply "$PATCH"
git -C /repo add -A crates lib
git -C /repo -c user.name=builder -c user.email=builder@example.invalid commit -q -m "$MSG"
git -C /repo log --oneline | head -1
