#!/bin/sh
# usage: tools/sweep.sh <seed> [tier]  -- run every claimed check once, print one line per check
SEED="${1:-1}"; TIER="${2:-quick}"
cd /verif
for id in $(python3 -c "import json; print(' '.join(c['property_id'] for c in json.load(open('MANIFEST.json'))['checks']))"); do
  s=$(date +%s)
  VERIF_SEED=$SEED timeout 1500 ./check $id --tier $TIER > .cache/sweep-$id.log 2>&1
  rc=$?
  e=$(date +%s)
  echo "$id rc=$rc $((e-s))s $(grep -c '^VIOLATION' .cache/sweep-$id.log) violations $(grep -c '^KNOWN-FINDING' .cache/sweep-$id.log) known | $(tail -1 .cache/sweep-$id.log | cut -c1-150)"
done
