#!/usr/bin/env python3
"""Regenerate the generated tables of DESIGN.md: §8 findings (from known_findings/*.json) and §14
seeded changes (from seeded/*/meta.json + result.json)."""
import json, os, re
ROOT = os.path.dirname(os.path.dirname(os.path.abspath(__file__)))
p = os.path.join(ROOT, "DESIGN.md")
s = open(p).read()

def put(s, tag, body, heading):
    B, E = "<!-- BEGIN %s -->" % tag, "<!-- END %s -->" % tag
    block = B + "\n\n" + body + "\n\n" + E
    if B in s:
        return s[:s.index(B)] + block + s[s.index(E) + len(E):]
    return s.rstrip() + "\n\n---\n\n" + heading + "\n\n" + block + "\n"

# --- findings
rows_f, rows_k = [], []
kd = os.path.join(ROOT, "known_findings")
for fn in sorted(os.listdir(kd)):
    if fn.endswith(".json"):
        for k in json.load(open(os.path.join(kd, fn)))["findings"]:
            what = k["what"].replace("|", "\\|").replace("\n", " ")
            if k.get("status") == "fixed":
                rows_f.append("| %s | `%s` | %s | %s |" % (k["property"], k["id"], k.get("commit", ""), what))
            else:
                rows_k.append("| %s | `%s` | %s |" % (k["property"], k["id"], what))
body = ("### 8.1 Repaired by `fix:` commits in /repo (%d)\n\n| property | finding | commit | what failed |\n|---|---|---|---|\n" % len(rows_f)
        + "\n".join(rows_f) +
        "\n\n### 8.2 Recorded as known findings, not repaired (%d)\n\nNo small safe repair exists (or the repair would change documented behaviour of existing grammars); each is matched by a fingerprint specific to its condition, so a different violation of the same property is still reported.\n\n| property | finding | what fails |\n|---|---|---|\n" % len(rows_k)
        + "\n".join(rows_k))
s = put(s, "FINDINGS TABLE", body, "## 8b. Findings of the built checks (generated)")

# --- seeded
sd = os.path.join(ROOT, "seeded")
rows = []
caught = total = 0
for n in sorted(os.listdir(sd)):
    d = os.path.join(sd, n)
    if not os.path.isdir(d):
        continue
    m = json.load(open(os.path.join(d, "meta.json")))
    r = json.load(open(os.path.join(d, "result.json"))) if os.path.exists(os.path.join(d, "result.json")) else None
    total += 1
    if r and r["caught"]:
        caught += 1
        how = "caught by `./check %s`: %d violation line(s), %d with a concrete replay input" % (r["property"], r["violations"], r["with_concrete_input"])
        if r["detail"]:
            how += "; e.g. " + r["detail"][0][:160].replace("|", "\\|")
    elif r and not r.get("applies", True):
        how = "patch does not apply to the repaired tree (see patch.onfixed.diff / rebase-note.md)"
    elif r:
        how = "**missed** (exit %d)" % r["check_exit"]
    else:
        how = "not run"
    rows.append("| `%s` | %s | %s | %s |" % (n, m["property"], (m.get("summary") or "")[:220].replace("|", "\\|").replace("\n", " "), how))
body = ("%d of %d seeded changes are reported by the check of their property (last run of `tools/run_seeded.py`; per-seed records in `seeded/<id>/result.json`).  Every change was written by a sub-agent that saw only the property text and a scratch worktree, compiles, keeps the 128 baseline tests, and has a demonstration that fails with it and passes without; the lead confirmed all of that in a scratch worktree before keeping it (`meta.json: lead_confirmation`).\n\n| seeded change | property | what it does | result |\n|---|---|---|---|\n" % (caught, total)
        + "\n".join(rows))
s = put(s, "SEEDED TABLE", body, "## 14. Seeded changes and which checks catch them (generated)")
# --- measured cost / coverage per property (from the evidence files of the last runs)
ev = os.path.join(ROOT, "evidence")
rows = []
for fn in sorted(os.listdir(ev)) if os.path.isdir(ev) else []:
    if fn.endswith(".json"):
        d = json.load(open(os.path.join(ev, fn)))
        c = d["coverage"]
        thms = len([o for o in c.get("obligation_list", []) if o["name"].startswith("thm:")])
        rows.append("| %s | %s | %d | %d / %d | %d | %d | %.0f s |" % (d["property_id"], d["tier"], thms, c.get("discharged", 0), c.get("obligations", 0),
                    c.get("evaluations", 0), c.get("distinct_nontrivial", 0), d["wall_s"]))
body = ("Numbers of the most recent run of each check in this working copy (evidence files are rewritten on every run).\n\n"
        "| property | tier | audited theorems | obligations discharged | evaluations | distinct non-trivial | wall |\n|---|---|---|---|---|---|---|\n" + "\n".join(rows))
s = put(s, "COST TABLE", body, "## 10b. Measured cost and coverage (generated)")
open(p, "w").write(s)
print("findings: %d fixed, %d known; seeded: %d/%d" % (len(rows_f), len(rows_k), caught, total))
