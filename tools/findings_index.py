#!/usr/bin/env python3
"""(lead) Flip known findings to `fixed` for fixes that are committed in /repo (matched by the fix
file named in the finding or by fixes/INDEX.json `resolves`), and regenerate KNOWN_FINDINGS.md."""
import json, os, subprocess
ROOT = os.path.dirname(os.path.dirname(os.path.abspath(__file__)))
idx = json.load(open(os.path.join(ROOT, "fixes", "INDEX.json")))["fixes"]
log = subprocess.run(["git", "-C", "/repo", "log", "--format=%h\t%s"], capture_output=True, text=True).stdout.strip().split("\n")
commit_of = {}
for line in log:
    h, s = line.split("\t", 1)
    for f in idx:
        if f["message"] == s:
            commit_of[f["file"]] = h
            for alias in f.get("also_resolves_fix_names", []):
                commit_of[alias] = h
kd = os.path.join(ROOT, "known_findings")
lines_fixed, lines_known = [], []
for fn in sorted(os.listdir(kd)):
    if not fn.endswith(".json"):
        continue
    p = os.path.join(kd, fn)
    data = json.load(open(p))
    changed = False
    for k in data["findings"]:
        fixname = os.path.basename(str(k.get("fix", "")))
        hit = None
        for name, h in commit_of.items():
            if name and (name == fixname or name in str(k.get("fix", ""))):
                hit = h
        for f in idx:
            if k["id"] in f.get("resolves", []) and f["file"] in commit_of:
                hit = commit_of[f["file"]]
        if hit and k.get("status") == "known":
            k["status"] = "fixed"
            k["commit"] = hit
            changed = True
        if k.get("status") == "fixed":
            lines_fixed.append("fixed: property=%s %s %s — %s" % (k["property"], k.get("commit", "?"), k["id"], k["what"].replace("\n", " ")))
        else:
            lines_known.append("known: property=%s %s — %s" % (k["property"], k["id"], k["what"].replace("\n", " ")))
    if changed:
        json.dump(data, open(p, "w"), indent=1)
out = ["# Known findings (genuine defects of tree-sitter found by the checks)", "",
       "Source of truth: `known_findings/Cxx.json` (read by `checklib.load_known`, never written at run time).",
       "`known` entries are matched by fingerprint and printed as `KNOWN-FINDING:` lines; `fixed` entries suppress nothing.", "",
       "## Repaired by `fix:` commits in /repo", ""] + lines_fixed + ["", "## Recorded, not repaired", ""] + lines_known + [""]
open(os.path.join(ROOT, "KNOWN_FINDINGS.md"), "w").write("\n".join(out))
print("%d fixed, %d known" % (len(lines_fixed), len(lines_known)))
