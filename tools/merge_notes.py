#!/usr/bin/env python3
"""Assemble DESIGN.md §13 from notes/Cxx.md (between the BEGIN/END markers)."""
import os, re
ROOT = os.path.dirname(os.path.dirname(os.path.abspath(__file__)))
p = os.path.join(ROOT, "DESIGN.md")
s = open(p).read()
B, E = "<!-- BEGIN AS-BUILT NOTES -->", "<!-- END AS-BUILT NOTES -->"
parts = []
for f in sorted(os.listdir(os.path.join(ROOT, "notes"))):
    if re.match(r"C\d\d\.md$", f):
        body = open(os.path.join(ROOT, "notes", f)).read().strip()
        body = re.sub(r"^# ", "### ", body, flags=re.M)
        body = re.sub(r"^## ", "#### ", body, flags=re.M)
        parts.append(body)
block = B + "\n\n" + "\n\n".join(parts) + "\n\n" + E
if B in s:
    s = s[:s.index(B)] + block + s[s.index(E) + len(E):]
else:
    s = s.rstrip() + "\n\n---\n\n## 13. As built: per-property record (from notes/Cxx.md)\n\n" + block + "\n"
open(p, "w").write(s)
print("merged %d notes" % len(parts))
