#!/bin/sh
# Build a branch in a scratch worktree with every fix of fixes/INDEX.json not yet in /repo's history
# as its own commit, run the baseline, print what applied.  (lead only)
WT=/tmp/breaker/wt2
git -C "$WT" checkout -q -- . ; git -C "$WT" clean -fdq -- crates lib test
git -C "$WT" checkout -q --detach "$(git -C /repo rev-parse HEAD)"
python3 - <<'PY'
import json, subprocess
WT="/tmp/breaker/wt2"
idx=json.load(open("/verif/fixes/INDEX.json"))["fixes"]
log=subprocess.run(["git","-C","/repo","log","--format=%s"],capture_output=True,text=True).stdout
for f in idx:
    if f["message"] in log:
        print("already committed:", f["file"]); continue
    p="/verif/fixes/"+f["file"]
    r=subprocess.run(["git","-C",WT,"apply","--3way",p],capture_output=True,text=True)
    if r.returncode!=0:
        print("DOES NOT APPLY:", f["file"], r.stderr[-300:]); subprocess.run(["git","-C",WT,"checkout","--","."]); continue
    subprocess.run(["git","-C",WT,"add","-A","crates","lib"])
    subprocess.run(["git","-C",WT,"-c","user.name=builder","-c","user.email=builder@example.invalid","commit","-q","-m",f["message"]])
    print("applied:", f["file"])
PY
git -C "$WT" log --oneline | head -25
