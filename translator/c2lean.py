#!/usr/bin/env python3
"""c2lean: translate a whitelisted, loop-free subset of tree-sitter's C runtime into Lean 4.

Every run reads the *current* text of /repo (or --repo), extracts the whitelisted items by
name and writes Lean definitions.  If an item can no longer be found or falls outside the
subset, the item is reported in the JSON status (tie broken) and an `opaque`-free stub is NOT
emitted: dependants then fail to compile, which the check reports.

Subset: struct/enum typedefs, #define integer constants, `static const` struct constants,
functions whose bodies consist of local declarations, assignments to locals / struct fields /
pointer out-parameters, if/else, return, switch (with break / return arms), ternaries,
compound literals and initialiser lists, calls to other whitelisted functions.

Arithmetic modes per function:
  nat  : uint32_t -> Nat, `a - b` is truncated subtraction (C wraps); every subtraction that
         is not the `(a >= b) ? a - b : 0` idiom is listed in SubSites so theorems must
         establish b <= a.
  wrap : + and - are taken modulo 2^32 (exact C semantics for values < 2^32).
"""
import hashlib
import json
import os
import re
import sys

TOK = re.compile(r"""
  (?P<ws>\s+)
 |(?P<num>0[xX][0-9a-fA-F]+[uUlL]*|\d+[uUlL]*)
 |(?P<id>[A-Za-z_]\w*)
 |(?P<op>->|==|!=|<=|>=|&&|\|\||<<|>>|\+\+|--|\+=|-=|[-+*/%<>=!&|^~?:;,.(){}\[\]])
""", re.X)


def strip_comments(src):
    src = re.sub(r"/\*.*?\*/", lambda m: " " * 0 + "\n" * m.group(0).count("\n"), src, flags=re.S)
    src = re.sub(r"//[^\n]*", "", src)
    return src


def lex(src):
    out = []
    pos = 0
    while pos < len(src):
        m = TOK.match(src, pos)
        if not m:
            raise SyntaxError("cannot lex at %r" % src[pos:pos + 30])
        pos = m.end()
        if m.lastgroup == "ws":
            continue
        out.append((m.lastgroup, m.group(0)))
    return out


NAT_TYPES = {"uint32_t", "unsigned", "uint16_t", "uint8_t", "size_t", "TSSymbol", "TSStateId",
             "TSFieldId"}
INT_TYPES = {"int32_t", "int"}


class Ctx:
    def __init__(self):
        self.structs = {}   # name -> [(field, type)]
        self.enums = {}     # name -> [ctor]
        self.consts = {}    # name -> lean expr
        self.funcs = {}     # name -> (ret, params)
        self.subsites = []
        self.enum_of_ctor = {}


class P:
    """Recursive-descent parser for function bodies."""

    def __init__(self, toks, ctx):
        self.t = toks
        self.i = 0
        self.ctx = ctx

    def peek(self, k=0):
        return self.t[self.i + k][1] if self.i + k < len(self.t) else None

    def kind(self, k=0):
        return self.t[self.i + k][0] if self.i + k < len(self.t) else None

    def eat(self, v=None):
        tok = self.t[self.i]
        if v is not None and tok[1] != v:
            raise SyntaxError("expected %r got %r at %d (%s)" % (v, tok[1], self.i,
                              " ".join(x[1] for x in self.t[max(0, self.i - 8):self.i + 8])))
        self.i += 1
        return tok[1]

    def is_type_start(self):
        v = self.peek()
        if v in ("const", "struct"):
            return True
        return self.kind() == "id" and (v in NAT_TYPES or v in INT_TYPES or v == "bool" or v in self.ctx.structs
                                         or v in self.ctx.enums) and self.kind(1) in ("id",) or \
            (self.kind() == "id" and (v in NAT_TYPES or v in INT_TYPES or v == "bool" or v in self.ctx.structs
                                      or v in self.ctx.enums) and self.peek(1) == "*")

    def parse_type(self):
        const = False
        while self.peek() in ("const", "struct", "static", "inline"):
            if self.eat() == "const":
                const = True
        name = self.eat()
        if name == "unsigned" and self.peek() in ("int", "char"):
            self.eat()
        while self.peek() == "const":
            self.eat()
            const = True
        ptr = False
        while self.peek() == "*":
            self.eat()
            ptr = True
        return (name, ptr, const)

    # ---- statements
    def block(self):
        self.eat("{")
        out = []
        while self.peek() != "}":
            out.append(self.stmt())
        self.eat("}")
        return out

    def stmt_or_block(self):
        if self.peek() == "{":
            return self.block()
        return [self.stmt()]

    def stmt(self):
        v = self.peek()
        if v == "{":
            return ("block", self.block())
        if v == ";":
            self.eat()
            return ("block", [])
        if v == "if":
            self.eat()
            self.eat("(")
            c = self.expr()
            self.eat(")")
            th = self.stmt_or_block()
            el = None
            if self.peek() == "else":
                self.eat()
                el = self.stmt_or_block()
            return ("if", c, th, el)
        if v == "return":
            self.eat()
            e = None
            if self.peek() != ";":
                e = self.expr()
            self.eat(";")
            return ("return", e)
        if v == "break":
            self.eat()
            self.eat(";")
            return ("break",)
        if v == "switch":
            self.eat()
            self.eat("(")
            e = self.expr()
            self.eat(")")
            self.eat("{")
            arms = []
            labels = []
            body = []
            while self.peek() != "}":
                if self.peek() in ("case", "default"):
                    if body:
                        arms.append((labels, body))
                        labels, body = [], []
                    if self.eat() == "case":
                        labels.append(self.expr_no_colon())
                    else:
                        labels.append(None)
                    self.eat(":")
                else:
                    body.append(self.stmt())
            if labels or body:
                arms.append((labels, body))
            self.eat("}")
            if self.peek() == ";":
                self.eat()
            return ("switch", e, arms)
        if v in ("for", "while", "do", "goto"):
            raise SyntaxError("loops are outside the translated subset")
        if self.is_type_start():
            ty = self.parse_type()
            name = self.eat()
            init = None
            if self.peek() == "=":
                self.eat()
                init = self.init_or_expr(ty[0])
            self.eat(";")
            return ("decl", ty, name, init)
        # `(void)x;` -- marks a parameter as deliberately unused; no effect
        if v == "(" and self.peek(1) == "void" and self.peek(2) == ")" and self.peek(4) == ";":
            self.eat(); self.eat(); self.eat()
            n = self.eat()
            self.eat(";")
            return ("void_use", n)
        # assignment or expression statement
        lhs = self.unary()
        if self.peek() == "=":
            self.eat()
            rhs = self.expr()
            self.eat(";")
            return ("assign", lhs, rhs)
        if self.peek() in ("+=", "-="):
            op = self.eat()[0]
            rhs = self.expr()
            self.eat(";")
            return ("assign", lhs, ("bin", op, lhs, rhs))
        raise SyntaxError("unsupported statement starting with %r" % v)

    def init_or_expr(self, tyname):
        if self.peek() == "{":
            return ("struct", tyname, self.init_list())
        return self.expr()

    def init_list(self):
        self.eat("{")
        items = []
        while self.peek() != "}":
            fname = None
            if self.peek() == ".":
                self.eat()
                fname = self.eat()
                self.eat("=")
            if self.peek() == "{":
                val = ("struct", None, self.init_list())
            else:
                val = self.ternary()
            items.append((fname, val))
            if self.peek() == ",":
                self.eat()
        self.eat("}")
        return items

    # ---- expressions
    def expr(self):
        return self.ternary()

    def expr_no_colon(self):
        return self.binary(0)

    def ternary(self):
        c = self.binary(0)
        if self.peek() == "?":
            self.eat()
            a = self.ternary()
            self.eat(":")
            b = self.ternary()
            return ("tern", c, a, b)
        return c

    PREC = [["||"], ["&&"], ["|"], ["^"], ["&"], ["==", "!="], ["<", ">", "<=", ">="],
            ["<<", ">>"], ["+", "-"], ["*", "/", "%"]]

    def binary(self, lvl):
        if lvl == len(self.PREC):
            return self.unary()
        a = self.binary(lvl + 1)
        while self.peek() in self.PREC[lvl]:
            op = self.eat()
            b = self.binary(lvl + 1)
            a = ("bin", op, a, b)
        return a

    def unary(self):
        v = self.peek()
        if v == "!":
            self.eat()
            return ("un", "!", self.unary())
        if v == "-":
            self.eat()
            return ("un", "-", self.unary())
        if v == "*":
            self.eat()
            return ("deref", self.unary())
        if v == "&":
            self.eat()
            return ("addr", self.unary())
        if v == "(":
            # cast or compound literal or parenthesised
            if self.kind(1) == "id" and (self.peek(1) in self.ctx.structs or self.peek(1) in NAT_TYPES or self.peek(1) in INT_TYPES
                                          or self.peek(1) in self.ctx.enums or self.peek(1) == "bool") \
                    and self.peek(2) == ")":
                self.eat()
                ty = self.eat()
                self.eat(")")
                if self.peek() == "{":
                    return self.postfix(("struct", ty, self.init_list()))
                return ("cast", ty, self.unary())
            self.eat()
            e = self.expr()
            self.eat(")")
            return self.postfix(e)
        return self.postfix(self.primary())

    def primary(self):
        k, v = self.t[self.i]
        self.i += 1
        if k == "num":
            v = v.rstrip("uUlL")
            return ("num", int(v, 0))
        if k == "id":
            if v in ("true", "false"):
                return ("bool", v)
            if self.peek() == "(":
                self.eat()
                args = []
                while self.peek() != ")":
                    args.append(self.expr())
                    if self.peek() == ",":
                        self.eat()
                self.eat(")")
                return ("call", v, args)
            return ("var", v)
        raise SyntaxError("unexpected token %r" % v)

    def postfix(self, e):
        while self.peek() in (".", "->"):
            self.eat()
            e = ("field", e, self.eat())
        return e


# ------------------------------------------------------------------ extraction

def find_function(src, name):
    """Return (start, end) char offsets of the definition of `name` in comment-stripped src."""
    for m in re.finditer(r"\b%s\s*\(" % re.escape(name), src):
        # find the closing paren and check that a '{' follows
        i = m.end()
        depth = 1
        while depth and i < len(src):
            depth += {"(": 1, ")": -1}.get(src[i], 0)
            i += 1
        j = i
        while j < len(src) and src[j].isspace():
            j += 1
        if j >= len(src) or src[j] != "{":
            continue
        # must be at brace depth 0
        if src[:m.start()].count("{") != src[:m.start()].count("}"):
            continue
        depth = 1
        k = j + 1
        while depth:
            depth += {"{": 1, "}": -1}.get(src[k], 0)
            k += 1
        # walk back to start of the declaration (after previous ; or } or preprocessor line)
        s = src.rfind("\n", 0, m.start()) + 1
        while s > 0:
            ps = src.rfind("\n", 0, s - 1) + 1
            prev = src[ps:s - 1].strip()
            if not prev or prev.endswith(";") or prev.endswith("}") or prev.startswith("#") \
                    or prev.endswith("\\"):
                break
            s = ps
        return s, k
    return None


def lean_type(ctx, ty):
    name = ty[0] if isinstance(ty, tuple) else ty
    if name in NAT_TYPES:
        return "Nat"
    if name in INT_TYPES:
        return "Int"
    if name == "bool":
        return "Bool"
    if name in ctx.structs or name in ctx.enums:
        return name
    raise SyntaxError("unknown type %s" % name)


class Gen:
    def __init__(self, ctx, fname, ret, params, mode):
        self.ctx = ctx
        self.fname = fname
        self.ret = ret
        self.params = params
        self.mode = mode
        self.types = {}
        self.facts = []
        self.ptr = set()
        self.outs = []
        for ty, n in params:
            self.types[n] = ty[0]
            if ty[1]:
                self.ptr.add(n)
                if not ty[2]:
                    self.outs.append(n)

    # ---- typing (shallow)
    def typeof(self, e):
        k = e[0]
        if k == "var":
            if e[1] in self.types:
                return self.types[e[1]]
            if e[1] in self.ctx.enum_of_ctor:
                return self.ctx.enum_of_ctor[e[1]]
            if e[1] in self.ctx.consts:
                return self.ctx.consts[e[1]][0]
            return None
        if k == "field":
            t = self.typeof(e[1])
            if t in self.ctx.structs:
                for f, ft in self.ctx.structs[t]:
                    if f == e[2]:
                        return ft
            return None
        if k == "call":
            return self.ctx.funcs.get(e[1], (None,))[0]
        if k in ("deref", "addr"):
            return self.typeof(e[1])
        if k == "struct":
            return e[1]
        if k == "cast":
            return e[1]
        if k == "tern":
            return self.typeof(e[2]) or self.typeof(e[3])
        if k == "num":
            return "uint32_t"
        if k == "bool":
            return "bool"
        if k == "bin":
            if e[1] in ("==", "!=", "<", ">", "<=", ">=", "&&", "||"):
                return "bool"
            return self.typeof(e[2])
        if k == "un":
            return "bool" if e[1] == "!" else self.typeof(e[2])
        return None

    # ---- expressions
    def prop(self, e):
        """Lean Prop for a C condition."""
        k = e[0]
        if k == "bin" and e[1] in ("&&", "||"):
            return "(%s %s %s)" % (self.prop(e[2]), "∧" if e[1] == "&&" else "∨", self.prop(e[3]))
        if k == "bin" and e[1] in ("==", "!=", "<", ">", "<=", ">="):
            op = {"==": "=", "!=": "≠", "<": "<", ">": ">", "<=": "≤", ">=": "≥"}[e[1]]
            return "(%s %s %s)" % (self.val(e[2]), op, self.val(e[3]))
        if k == "un" and e[1] == "!":
            return "(¬ %s)" % self.prop(e[2])
        if k == "bool":
            return "True" if e[1] == "true" else "False"
        t = self.typeof(e)
        if t == "bool":
            return "(%s = true)" % self.val(e)
        return "(%s ≠ 0)" % self.val(e)

    def val(self, e, want=None):
        k = e[0]
        if k == "num":
            return str(e[1])
        if k == "bool":
            return e[1]
        if k == "var":
            n = e[1]
            if n in self.ctx.enum_of_ctor:
                return "%s.%s" % (self.ctx.enum_of_ctor[n], n)
            if n in self.ctx.consts:
                return n
            return n
        if k in ("deref", "addr"):
            return self.val(e[1])
        if k == "field":
            return "%s.%s" % (self.val(e[1]), e[2])
        if k == "cast":
            return self.val(e[2])
        if k == "call":
            if e[1] not in self.ctx.funcs:
                raise SyntaxError("call to non-whitelisted function %s" % e[1])
            if not e[2]:
                return e[1]
            return "(%s %s)" % (e[1], " ".join(self.atom(a) for a in e[2]))
        if k == "tern":
            n = self.push_facts(e[1])
            a = self.val(e[2], want)
            del self.facts[len(self.facts) - n:]
            return "(if %s then %s else %s)" % (self.prop(e[1]), a, self.val(e[3], want))
        if k == "struct":
            ty = e[1] or want
            if ty not in self.ctx.structs:
                raise SyntaxError("initialiser list for unknown struct %s" % ty)
            fields = self.ctx.structs[ty]
            parts = []
            pos = 0
            for fname, v in e[2]:
                if fname is None:
                    fname = fields[pos][0]
                idx = [f for f, _ in fields].index(fname)
                pos = idx + 1
                parts.append("%s := %s" % (fname, self.val(v, fields[idx][1])))
            return "({ %s } : %s)" % (", ".join(parts), ty)
        if k == "un" and e[1] == "!":
            return "(decide %s)" % self.prop(e)
        if k == "bin":
            op = e[1]
            if op in ("&&", "||", "==", "!=", "<", ">", "<=", ">="):
                return "(decide %s)" % self.prop(e)
            a, b = self.val(e[2]), self.val(e[3])
            if op == "+":
                return "((%s + %s) %% 4294967296)" % (a, b) if self.mode == "wrap" else "(%s + %s)" % (a, b)
            if op == "-":
                if self.mode == "wrap":
                    return "((%s + 4294967296 - %s) %% 4294967296)" % (a, b)
                if (a, b) not in self.facts:
                    self.ctx.subsites.append((self.fname, "%s - %s" % (a, b)))
                return "(%s - %s)" % (a, b)
            if op in ("*", "/", "%"):
                return "(%s %s %s)" % (a, op, b)
        raise SyntaxError("unsupported expression %r" % (e,))

    def push_facts(self, c):
        """Record `a >= b` / `a > b` facts of a condition that holds in the then-branch."""
        n = 0
        if c[0] == "bin" and c[1] == "&&":
            return self.push_facts(c[2]) + self.push_facts(c[3])
        if c[0] == "bin" and c[1] in (">=", ">"):
            self.facts.append((self.val(c[2]), self.val(c[3])))
            n = 1
        if c[0] == "bin" and c[1] in ("<=", "<"):
            self.facts.append((self.val(c[3]), self.val(c[2])))
            n = 1
        return n

    def kill_facts(self, var):
        self.facts = [f for f in self.facts
                      if not re.search(r"\b%s\b" % re.escape(var), f[0] + " " + f[1])]

    def atom(self, e):
        s = self.val(e)
        return s if re.match(r"^[\w.]+$", s) or s.startswith("(") else "(%s)" % s

    # ---- statements -> expression (continuation style)
    def always_returns(self, stmts):
        for s in stmts:
            if s[0] == "return":
                return True
            if s[0] == "block" and self.always_returns(s[1]):
                return True
            if s[0] == "if" and s[3] is not None and self.always_returns(s[2]) and self.always_returns(s[3]):
                return True
            if s[0] == "switch":
                arms = s[2]
                if all(self.always_returns(b) for _, b in arms if b) and self.switch_total(s):
                    return True
        return False

    def may_return(self, stmts):
        for s in stmts:
            if s[0] == "return":
                return True
            if s[0] == "block" and self.may_return(s[1]):
                return True
            if s[0] == "if" and (self.may_return(s[2]) or (s[3] and self.may_return(s[3]))):
                return True
            if s[0] == "switch" and any(self.may_return(b) for _, b in s[2]):
                return True
        return False

    def switch_total(self, s):
        labels = [l for ls, _ in s[2] for l in ls]
        if None in labels:
            return True
        ty = self.typeof(s[1])
        if ty in self.ctx.enums:
            return set(l[1] for l in labels if l[0] == "var") >= set(self.ctx.enums[ty])
        return False

    def assigned(self, stmts, acc=None):
        acc = acc if acc is not None else []
        for s in stmts:
            if s[0] == "assign":
                r = s[1]
                while r[0] in ("field", "deref"):
                    r = r[1]
                if r[0] == "var" and r[1] not in acc:
                    acc.append(r[1])
            elif s[0] == "block":
                self.assigned(s[1], acc)
            elif s[0] == "if":
                self.assigned(s[2], acc)
                if s[3]:
                    self.assigned(s[3], acc)
            elif s[0] == "switch":
                for _, b in s[2]:
                    self.assigned(b, acc)
        return acc

    def declared(self, stmts):
        return [s[2] for s in stmts if s[0] == "decl"]

    def tr(self, stmts, k, ind):
        pad = "  " * ind
        if not stmts:
            return pad + k() + "\n"
        s, rest = stmts[0], stmts[1:]
        kind = s[0]
        if kind == "block":
            return self.tr(list(s[1]) + list(rest), k, ind)
        if kind == "decl":
            ty, name, init = s[1], s[2], s[3]
            self.types[name] = ty[0]
            lt = lean_type(self.ctx, ty)
            iv = self.val(init, ty[0]) if init is not None else "default"
            return pad + "let %s : %s := %s\n" % (name, lt, iv) + self.tr(rest, k, ind)
        if kind == "assign":
            lhs, rhs = s[1], s[2]
            path = []
            r = lhs
            while r[0] in ("field", "deref"):
                if r[0] == "field":
                    path.append(r[2])
                r = r[1]
            if r[0] != "var":
                raise SyntaxError("unsupported assignment target")
            var = r[1]
            path.reverse()
            want = self.typeof(lhs)
            v = self.val(rhs, want)
            # build nested update
            def upd(base, p):
                if not p:
                    return v
                return "{ %s with %s := %s }" % (base, p[0], upd("%s.%s" % (base, p[0]), p[1:]))
            line = pad + "let %s := %s\n" % (var, upd(var, path))
            self.kill_facts(var)
            return line + self.tr(rest, k, ind)
        if kind == "return":
            return pad + self.ret_expr(s[1]) + "\n"
        if kind == "void_use":
            return self.tr(list(rest), k, ind)
        if kind == "break":
            return pad + k() + "\n"
        if kind == "if":
            c, th, el = s[1], s[2], s[3] or []
            if self.always_returns(th) or self.always_returns(el) or not rest:
                saved_f = list(self.facts)
                self.push_facts(c)
                a = self.tr(th + ([] if self.always_returns(th) else rest), k, ind + 1)
                self.facts = list(saved_f)
                b = self.tr(el + ([] if self.always_returns(el) else rest), k, ind + 1)
                self.facts = saved_f
                return pad + "if %s then\n%s%selse\n%s" % (self.prop(c), a, pad, b)
            if not self.may_return(th) and not self.may_return(el):
                inner_decl = set(self.declared(th) + self.declared(el))
                vs = [v for v in self.assigned(th + el) if v not in inner_decl]
                if not vs:
                    return self.tr(rest, k, ind)
                tup = vs[0] if len(vs) == 1 else "(" + ", ".join(vs) + ")"
                saved = dict(self.types)
                saved_f = list(self.facts)
                self.push_facts(c)
                a = self.tr(th, lambda: tup, ind + 2)
                self.types = dict(saved)
                self.facts = list(saved_f)
                b = self.tr(el, lambda: tup, ind + 2)
                self.types = saved
                self.facts = saved_f
                for v in vs:
                    self.kill_facts(v)
                return (pad + "let %s :=\n%s  if %s then\n%s%s  else\n%s" %
                        (tup, pad, self.prop(c), a, pad, b) + self.tr(rest, k, ind))
            # fall back: duplicate the continuation
            a = self.tr(th + rest, k, ind + 1)
            b = self.tr(el + rest, k, ind + 1)
            return pad + "if %s then\n%s%selse\n%s" % (self.prop(c), a, pad, b)
        if kind == "switch":
            e, arms = s[1], s[2]
            ty = self.typeof(e)
            out = pad + "match %s with\n" % self.val(e)
            seen_default = False
            covered = set()
            for labels, body in arms:
                pats = []
                for l in labels:
                    if l is None:
                        seen_default = True
                        pats.append("_")
                    elif l[0] == "var" and l[1] in self.ctx.enum_of_ctor:
                        pats.append(".%s" % l[1])
                        covered.add(l[1])
                    else:
                        pats.append(self.val(l))
                falls = not self.always_returns(body)
                bstmts = list(body)
                if bstmts and bstmts[-1][0] == "break":
                    bstmts = bstmts[:-1]
                saved = dict(self.types)
                btxt = self.tr(bstmts + (list(rest) if falls else []), k, ind + 2)
                self.types = saved
                out += pad + "  | %s =>\n%s" % (" | ".join(pats), btxt)
            total = seen_default or (ty in self.ctx.enums and covered >= set(self.ctx.enums[ty]))
            if not total:
                out += pad + "  | _ =>\n" + self.tr(list(rest), k, ind + 2)
            return out
        raise SyntaxError("unsupported statement %r" % (s,))

    def ret_expr(self, e):
        parts = []
        if e is not None:
            if self.ret[0] == "bool":
                parts.append("decide %s" % self.prop(e) if e[0] in ("bin", "un") else self.val(e))
            else:
                parts.append(self.val(e, self.ret[0]))
        parts += self.outs
        if not parts:
            return "()"
        return parts[0] if len(parts) == 1 else "(" + ", ".join(parts) + ")"

    def ret_type(self):
        parts = []
        if self.ret[0] != "void":
            parts.append(lean_type(self.ctx, self.ret))
        parts += [lean_type(self.ctx, self.types[o]) for o in self.outs]
        if not parts:
            return "Unit"
        return " × ".join(parts)


def translate_function(ctx, src, name, mode, lean_name=None, drop_params=()):
    loc = find_function(src, name)
    if loc is None:
        raise SyntaxError("definition of %s not found" % name)
    text = src[loc[0]:loc[1]]
    toks = lex(text)
    p = P(toks, ctx)
    ret = p.parse_type()
    got = p.eat()
    assert got == name, (got, name)
    p.eat("(")
    params = []
    while p.peek() != ")":
        if p.peek() == "void" and p.peek(1) == ")":
            p.eat()
            break
        ty = p.parse_type()
        pn = p.eat()
        if pn not in drop_params:
            params.append((ty, pn))
        if p.peek() == ",":
            p.eat()
    p.eat(")")
    body_start = p.i
    body = p.block()
    # a dropped parameter (an opaque handle such as `TSParser *self`) may occur in the body only as `(void)x;`
    for dp in drop_params:
        uses = [j for j in range(body_start, len(toks)) if toks[j] == ("id", dp)]
        for j in uses:
            ctxt = [t[1] for t in toks[j - 3:j + 2]]
            if ctxt != ["(", "void", ")", dp, ";"]:
                raise SyntaxError("dropped parameter %s is used in the body of %s" % (dp, name))
    g = Gen(ctx, name, ret, params, mode)
    # Unknown ALL-CAPS identifiers that are #define'd integer constants of the same file are
    # resolved automatically (a refactoring that names a literal must not break the tie).
    auto = ""
    for k, v in toks:
        if k == "id" and re.match(r"^[A-Z][A-Z0-9_]+$", v) and v not in ctx.consts and v not in ctx.enum_of_ctor \
                and v not in ctx.structs and v not in ("UINT32_MAX", "UINT16_MAX", "UINT8_MAX", "NULL"):
            try:
                val = const_expr(ctx, parse_define(src, v))
            except (SyntaxError, ValueError, NameError, TypeError):
                continue
            ctx.consts[v] = ("uint32_t", val)
            auto += "def %s : Nat := %d\n\n" % (v, val)
    # void function: which pointer params are assigned?
    assigned = g.assigned(body)
    g.outs = [o for o in g.outs if o in assigned]
    ctx.funcs[name] = (ret[0], [pn for _, pn in params])
    binders = " ".join("(%s : %s)" % (pn, lean_type(ctx, ty)) for ty, pn in params)
    body_txt = g.tr(body, lambda: g.ret_expr(None), 1)
    lname = lean_name or name
    sig = "def %s %s : %s :=\n" % (lname, binders, g.ret_type()) if binders else \
        "def %s : %s :=\n" % (lname, g.ret_type())
    sha = hashlib.sha256(text.encode()).hexdigest()[:16]
    line = src[:loc[0]].count("\n") + 1
    return auto + sig + body_txt, sha, line, text


def parse_structs(ctx, src, wanted):
    for m in re.finditer(r"typedef\s+struct\s*(\w*)\s*\{([^{}]*)\}\s*(\w+)\s*;", src):
        name = m.group(3)
        if name not in wanted:
            continue
        fields = []
        for decl in m.group(2).split(";"):
            decl = decl.strip()
            if not decl:
                continue
            mm = re.match(r"(?:const\s+)?(\w+(?:\s+int)?)\s+(\w+)$", decl)
            if not mm:
                raise SyntaxError("unsupported field %r in %s" % (decl, name))
            fields.append((mm.group(2), mm.group(1).split()[0]))
        ctx.structs[name] = fields


def parse_enums(ctx, src, wanted):
    for m in re.finditer(r"typedef\s+enum\s*(\w*)\s*\{([^{}]*)\}\s*(\w+)\s*;", src):
        name = m.group(3)
        if name not in wanted:
            continue
        ctors = []
        for item in m.group(2).split(","):
            item = item.strip()
            if not item:
                continue
            ctors.append(item.split("=")[0].strip())
        ctx.enums[name] = ctors
        for c in ctors:
            ctx.enum_of_ctor[c] = name


def emit_struct(ctx, name):
    out = "structure %s where\n" % name
    for f, t in ctx.structs[name]:
        out += "  %s : %s\n" % (f, lean_type(ctx, t))
    out += "  deriving DecidableEq, Repr, Inhabited\n"
    return out


def emit_enum(ctx, name):
    out = "inductive %s where\n" % name
    for c in ctx.enums[name]:
        out += "  | %s\n" % c
    out += "  deriving DecidableEq, Repr, Inhabited\n"
    return out


def parse_define(src, name):
    m = re.search(r"#define\s+%s\s+(.+)" % re.escape(name), src)
    if not m:
        raise SyntaxError("#define %s not found" % name)
    return m.group(1).strip()


def const_expr(ctx, text):
    """Evaluate an integer constant expression made of numbers, known constants, + - * << ()."""
    toks = lex(text)
    expr = ""
    for k, v in toks:
        if k == "num":
            expr += str(int(v.rstrip("uUlL"), 0))
        elif k == "id":
            if v == "UINT32_MAX":
                expr += "4294967295"
            elif v == "UINT16_MAX":
                expr += "65535"
            elif v == "UINT8_MAX":
                expr += "255"
            elif v in ctx.consts and ctx.consts[v][1] is not None:
                expr += str(ctx.consts[v][1])
            elif v in NAT_TYPES:
                continue
            else:
                raise SyntaxError("unknown constant %s" % v)
        elif v in "+-*()<<>>":
            expr += v
        else:
            raise SyntaxError("unsupported constant expression %r" % text)
    expr = expr.replace("()", "")
    return int(eval(expr, {"__builtins__": {}}))


def main():
    import argparse
    ap = argparse.ArgumentParser()
    ap.add_argument("--repo", default="/repo")
    ap.add_argument("--spec", default=os.path.join(os.path.dirname(__file__), "whitelist.json"))
    ap.add_argument("--out", required=True)
    ap.add_argument("--status", required=True)
    ap.add_argument("--raw", action="store_true",
                    help="emit namespace TsGenRaw into --out; struct/enum TYPES are taken from the frozen "
                         "canonical modules TsVerif.Gen.* and only checked for agreement")
    a = ap.parse_args()
    spec = json.load(open(a.spec))
    ctx = Ctx()
    status = {"items": [], "broken": [], "subsites": []}
    srcs = {}

    def src(rel):
        if rel not in srcs:
            srcs[rel] = strip_comments(open(os.path.join(a.repo, rel)).read())
        return srcs[rel]

    os.makedirs(a.out, exist_ok=True)
    for mod in spec["modules"]:
        lines = ["-- GENERATED by translator/c2lean.py from /repo — do not edit.\n"]
        if a.raw:
            lines.append("import TsVerif.Gen.%s\n" % mod["name"])
            for imp in mod.get("imports", []):
                lines.append("import %s\n" % imp.replace("TsVerif.Gen.", "TsVerif.GenRaw."))
            lines.append("\nset_option linter.unusedVariables false\n\nnamespace TsGenRaw\n"
                         "open TsGen (TSPoint TSRange TSInputEdit Length)\n\n")
        else:
            for imp in mod.get("imports", []):
                lines.append("import %s\n" % imp)
            lines.append("\nset_option linter.unusedVariables false\n\nnamespace TsGen\n\n")
        for item in mod["items"]:
            kind, name, rel = item["kind"], item["name"], item["file"]
            try:
                s = src(rel)
                if kind == "struct":
                    parse_structs(ctx, s, [name])
                    if name not in ctx.structs:
                        raise SyntaxError("struct %s not found" % name)
                    txt = emit_struct(ctx, name)
                    if a.raw:
                        # the canonical structure must have exactly these fields, of these types, in this order
                        flds = ctx.structs[name]
                        txt = ("/- layout check against the canonical TsGen.%s -/\nopen TsGen (%s)\n" % (name, name) +
                               "example %s : TsGen.%s := TsGen.%s.mk %s\n" % (
                                   " ".join("(%s : %s)" % (f, lean_type(ctx, t)) for f, t in flds), name, name,
                                   " ".join(f for f, _ in flds)) +
                               "".join("example (x : TsGen.%s) : %s := x.%s\n" % (name, lean_type(ctx, t), f) for f, t in flds))
                    sha = hashlib.sha256(txt.encode()).hexdigest()[:16]
                    line = 0
                elif kind == "enum":
                    parse_enums(ctx, s, [name])
                    if name not in ctx.enums:
                        raise SyntaxError("enum %s not found" % name)
                    txt = emit_enum(ctx, name)
                    if a.raw:
                        ctors = ctx.enums[name]
                        txt = ("/- constructor check against the canonical TsGen.%s -/\nopen TsGen (%s)\n" % (name, name) +
                               "example (q : TsGen.%s) : Nat :=\n  match q with\n" % name +
                               "".join("  | .%s => %d\n" % (c, i) for i, c in enumerate(ctors)))
                    sha = hashlib.sha256(txt.encode()).hexdigest()[:16]
                    line = 0
                elif kind == "define":
                    val = const_expr(ctx, parse_define(s, name))
                    ctx.consts[name] = ("uint32_t", val)
                    txt = "def %s : Nat := %d\n" % (name, val)
                    sha = hashlib.sha256(txt.encode()).hexdigest()[:16]
                    line = 0
                elif kind == "const_uint":
                    # e.g. static const unsigned MAX_COST_DIFFERENCE = 18 * ERROR_COST_PER_SKIPPED_TREE;
                    m = re.search(r"static\s+const\s+(?:unsigned|uint32_t|unsigned\s+int)\s+%s\s*=\s*([^;]*);" % re.escape(name), s)
                    if not m:
                        raise SyntaxError("static const unsigned %s not found" % name)
                    val = const_expr(ctx, m.group(1))
                    ctx.consts[name] = ("uint32_t", val)
                    txt = "def %s : Nat := %d\n" % (name, val)
                    sha = hashlib.sha256(txt.encode()).hexdigest()[:16]
                    line = 0
                elif kind == "define_struct":
                    # e.g. #define POINT_MAX ((TSPoint) {UINT32_MAX, UINT32_MAX})
                    body = parse_define(s, name)
                    p = P(lex(body.replace("UINT32_MAX", "4294967295")), ctx)
                    e = p.expr()
                    g = Gen(ctx, name, ("void", False, False), [], "nat")
                    ty = item["type"]
                    ctx.consts[name] = (ty, None)
                    txt = "def %s : %s := %s\n" % (name, ty, g.val(e, ty))
                    sha = hashlib.sha256(body.encode()).hexdigest()[:16]
                    line = 0
                elif kind == "const_struct":
                    m = re.search(r"static\s+const\s+(\w+)\s+%s\s*=\s*(\{.*?\})\s*;" % re.escape(name), s, re.S)
                    if not m:
                        raise SyntaxError("static const %s not found" % name)
                    ty = m.group(1)
                    p = P(lex(m.group(2).replace("UINT32_MAX", "4294967295")), ctx)
                    e = ("struct", ty, p.init_list())
                    g = Gen(ctx, name, ("void", False, False), [], "nat")
                    ctx.consts[name] = (ty, None)
                    txt = "def %s : %s := %s\n" % (name, ty, g.val(e, ty))
                    sha = hashlib.sha256(m.group(0).encode()).hexdigest()[:16]
                    line = 0
                elif kind == "func":
                    s2 = s.replace("UINT32_MAX", "4294967295").replace("UINT8_MAX", "255").replace("UINT16_MAX", "65535")
                    txt, sha, line, _ = translate_function(ctx, s2, name, item.get("mode", "nat"),
                                                           item.get("lean_name"),
                                                           tuple(item.get("drop_params", ())))
                else:
                    raise SyntaxError("unknown kind " + kind)
                lines.append("/- %s:%s  %s  sha256=%s -/\n" % (rel, line, name, sha))
                lines.append(txt + "\n")
                status["items"].append({"name": name, "file": rel, "line": line, "sha": sha, "kind": kind})
            except (SyntaxError, AssertionError, IndexError, KeyError, ValueError) as ex:
                status["broken"].append({"name": name, "file": rel, "error": str(ex)})
                lines.append("-- BROKEN TIE: %s (%s): %s\n\n" % (name, rel, ex))
        lines.append("end TsGenRaw\n" if a.raw else "end TsGen\n")
        path = os.path.join(a.out, mod["name"] + ".lean")
        new = "".join(lines)
        old = open(path).read() if os.path.exists(path) else None
        if old != new:
            open(path, "w").write(new)
    status["subsites"] = [{"func": f, "expr": e} for f, e in ctx.subsites]
    json.dump(status, open(a.status, "w"), indent=1)
    print("c2lean: %d items translated, %d broken" % (len(status["items"]), len(status["broken"])))
    return 0


if __name__ == "__main__":
    sys.exit(main())
