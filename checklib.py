"""Shared machinery of ./check: regenerate the Lean model from /repo, build and audit proofs,
rebuild the implementation-side drivers, run explorers, decide, write evidence and replays.

Every per-property module under checks/ exposes `run(ctx)`; it uses the helpers here and ends by
calling `ctx.finish()`, which prints VIOLATION / KNOWN-FINDING lines and returns the exit code.
"""
import hashlib
import json
import os
import re
import subprocess
import sys
import time

ROOT = os.path.dirname(os.path.abspath(__file__))
REPO = os.environ.get("VERIF_REPO", "/repo")
LEAN = os.path.join(ROOT, "lean")
HARNESS = os.path.join(ROOT, "harness")
CACHE = os.path.join(ROOT, ".cache")
ALLOWED_AXIOMS = {"propext", "Classical.choice", "Quot.sound"}
FORBIDDEN = re.compile(r"\b(sorry|admit|native_decide|bv_decide|implemented_by)\b|^\s*axiom\s|\bunsafe\s|maxHeartbeats\s+0\b")

BASE_TRUSTED = [
    "Lean 4.33 kernel + lake (leanchecker re-checks Props modules in the thorough tier)",
    "axioms accepted: propext, Classical.choice, Quot.sound only (audited with #print axioms on every run)",
    "translator/c2lean.py for generated definitions (Gen/*), validated differentially against the C functions (tsv-cunit)",
    "dump code harness/csrc/shim.c and the dump reader TsVerif/Common/Tree.lean",
    "correspondence is sampling: implementation = model is established on the explored inputs only",
]


def sh(cmd, cwd=None, env=None, timeout=None, input_text=None):
    e = dict(os.environ)
    e["CARGO_NET_OFFLINE"] = "true"
    if env:
        e.update(env)
    p = subprocess.run(cmd, cwd=cwd, env=e, shell=isinstance(cmd, str), stdout=subprocess.PIPE,
                       stderr=subprocess.STDOUT, text=True, timeout=timeout, input=input_text)
    return p.returncode, p.stdout


def repo_fingerprint():
    rc, out = sh("git -C %s describe --always --dirty 2>/dev/null" % REPO)
    h = hashlib.sha256()
    for base in ("lib/src", "lib/binding_rust", "crates"):
        for dp, dn, fn in sorted(os.walk(os.path.join(REPO, base))):
            dn.sort()
            if "/target" in dp:
                continue
            for f in sorted(fn):
                if f.endswith((".c", ".h", ".rs", ".inc", ".js", ".toml")):
                    try:
                        h.update(open(os.path.join(dp, f), "rb").read())
                    except OSError:
                        pass
    return {"git": out.strip(), "src_sha256": h.hexdigest()[:16]}


class Ctx:
    def __init__(self, prop, tier, seed, replay=None):
        self.prop = prop
        self.tier = tier
        self.seed = seed
        self.replay = replay
        self.t0 = time.time()
        self.obligations = []      # (name, ok, detail)
        self.violations = []       # dict(kind, what, replay_payload, fingerprint, found_input)
        self.known_hits = []
        self.coverage = {}
        self.assumptions = []
        self.notes = []
        self.workdir = os.path.join(CACHE, "run-%s-%d" % (prop, os.getpid()))
        os.makedirs(self.workdir, exist_ok=True)
        os.makedirs(os.path.join(ROOT, "evidence"), exist_ok=True)
        os.makedirs(os.path.join(ROOT, "replay"), exist_ok=True)
        self.env = {"VERIF_SEED": str(seed), "VERIF_TIER": tier, "VERIF_ROOT": ROOT}
        self.known = load_known(prop)
        self.trusted = list(BASE_TRUSTED)
        self.checker_cmds = []

    def log(self, msg):
        print("[%s %.1fs] %s" % (self.prop, time.time() - self.t0, msg), flush=True)

    # ---------------------------------------------------------------- obligations
    def oblige(self, name, ok, detail=""):
        self.obligations.append((name, bool(ok), detail))
        if not ok:
            self.log("OBLIGATION FAILED: %s %s" % (name, detail[:300]))

    def regen(self):
        """T-gen: regenerate the raw Lean definitions (namespace TsGenRaw, lean/TsVerif/GenRaw) from
        /repo's current source and re-check the TIE: every regenerated definition is proved equal
        (lean/TsVerif/Common/GenTie.lean: rfl / grind / case analysis) to the canonical definition
        (namespace TsGen, lean/TsVerif/Gen, frozen) that all models and theorems are written against.
        A semantics-preserving rewrite of the C code keeps the tie; a semantic change, or code that
        leaves the translated subset, breaks it (failed obligation).  Returns the broken items."""
        status = os.path.join(self.workdir, "gen_status.json")
        rc, out = sh([sys.executable, os.path.join(ROOT, "translator", "c2lean.py"), "--repo", REPO, "--raw",
                      "--out", os.path.join(LEAN, "TsVerif", "GenRaw"), "--status", status])
        st = json.load(open(status)) if os.path.exists(status) else {"items": [], "broken": [{"name": "translator", "error": out}]}
        self.gen_status = st
        # Scope: a property answers only for the generated definitions its own model uses (the Gen modules
        # its Lean files import, transitively).  A broken tie of a definition no model of this property
        # mentions says nothing about this property and is recorded, not reported.
        needed, def_mod = self.gen_scope()
        self.coverage["gen_modules_used_by_this_property"] = sorted(needed)
        elsewhere = []
        for it in st["broken"]:
            if def_mod.get(it["name"], "?") in needed or it["name"] not in def_mod:
                self.oblige("tie:gen:" + it["name"], False, it.get("error", ""))
            else:
                elsewhere.append(it["name"])
        self.coverage["generated_items"] = len(st["items"])
        self.coverage["unguarded_subtractions"] = st.get("subsites", [])
        # the tie proofs
        ok, out, failed = self.lake_build(["TsVerif.Common.GenTie"])
        names = audit_names(os.path.join(LEAN, "TsVerif", "Common", "GenTieAudit.lean"))
        label = "tie:regenerated-definitions=canonical-definitions(%d tie theorems)" % len(names)
        if ok:
            rc, aout = sh(["lake", "env", "lean", "TsVerif/Common/GenTieAudit.lean"], cwd=LEAN, timeout=1200)
            axioms = parse_axioms(aout)
            bad = [n for n in names if n not in axioms or set(axioms[n]) - ALLOWED_AXIOMS]
            self.oblige(label, not bad, "not proved from accepted axioms: " + ", ".join(bad)[:300])
        else:
            broken = sorted(set(f.split(" ")[0] for f in failed))
            in_tie_file = all("(TsVerif/Common/GenTie.lean:" in f for f in failed)
            mine = []
            for b in broken:
                d = b[4:] if b.startswith("tie_") else b
                if in_tie_file and d in def_mod and def_mod[d] not in needed:
                    elsewhere.append(d)
                else:
                    mine.append(b)
            if mine:
                self.oblige(label, False, "no longer provable: " + ", ".join(mine)[:400])
                for b in mine[:6]:
                    self.violation("tie", "the definition regenerated from /repo is no longer provably equal to the canonical "
                                   "definition the theorems are about: " + b,
                                   {"tie_theorem": b, "file": "lean/TsVerif/Common/GenTie.lean",
                                    "regenerated": "lean/TsVerif/GenRaw", "canonical": "lean/TsVerif/Gen"}, found_input=False)
            else:
                self.oblige(label, True, "every tie of a definition this property's model uses (modules %s) is proved; "
                            "broken ties of definitions it does not use: %s" % (",".join(sorted(needed)) or "none", ", ".join(sorted(set(elsewhere)))))
        if elsewhere:
            self.coverage["ties_broken_outside_this_property"] = sorted(set(elsewhere))
            self.log("ties broken for definitions no model of %s uses (not this property's business): %s"
                     % (self.prop, ", ".join(sorted(set(elsewhere)))))
        self.coverage["tie_theorems"] = len(names)
        return st["broken"]

    def gen_scope(self):
        """(Gen modules transitively imported by this property's Lean files and driver, {definition: Gen module})."""
        def imports(mod):
            try:
                txt = open(os.path.join(LEAN, mod.replace(".", "/") + ".lean")).read()
            except OSError:
                return []
            return re.findall(r"^import ((?:TsVerif|Drivers)\.[\w\.]+)", txt, re.M)
        pdir = os.path.join(LEAN, "TsVerif", self.prop)
        roots = ["Drivers." + self.prop]
        if os.path.isdir(pdir):
            roots += ["TsVerif.%s.%s" % (self.prop, f[:-5]) for f in os.listdir(pdir) if f.endswith(".lean")]
        seen, todo = set(), roots
        while todo:
            m = todo.pop()
            if m not in seen:
                seen.add(m)
                todo += imports(m)
        needed = set(m.split(".")[-1] for m in seen if m.startswith("TsVerif.Gen."))
        def_mod = {}
        try:
            spec = json.load(open(os.path.join(ROOT, "translator", "whitelist.json")))
            for mod in spec["modules"]:
                for it in mod["items"]:
                    def_mod[it.get("lean_name") or it["name"]] = mod["name"]
        except (OSError, ValueError, KeyError):
            pass
        return needed, def_mod

    def lake_build(self, targets):
        """Build Lean targets; returns (ok, output, failing theorem names)."""
        rc, out = sh(["lake", "build"] + targets, cwd=LEAN, timeout=3000)
        self.checker_cmds.append("cd lean && lake build " + " ".join(targets))
        failed = []
        if rc != 0:
            for m in re.finditer(r"error: ([\w/\.]+\.lean):(\d+):(\d+)", out):
                failed.append(locate_decl(os.path.join(LEAN, m.group(1)), int(m.group(2))) + " (" + m.group(1) + ":" + m.group(2) + ")")
            if not failed:
                failed.append("lake build failed: " + out[-400:])
        return rc == 0, out, sorted(set(failed))

    def prove(self, modules, audit_file, theorems_file=None):
        """Build proof modules and audit axioms of every theorem named in the audit file.
        Each theorem is one obligation."""
        ok, out, failed = self.lake_build(modules)
        names = audit_names(os.path.join(LEAN, audit_file))
        if getattr(self, "gen_fallback", False):
            # proofs would only be about the committed snapshot, not about what /repo says now
            for n in names:
                self.oblige("thm:" + n, False, "regenerated definitions do not build; theorem not re-checked against the current source")
            return False
        if not ok:
            for n in names:
                bad = [f for f in failed if f.startswith(n + " ")]
                # a failing module makes every theorem in/after it unchecked
                self.oblige("thm:" + n, False, "build failed: " + "; ".join(failed)[:300])
            self.broken_theorems = failed
            return False
        rc, aout = sh(["lake", "env", "lean", audit_file], cwd=LEAN, timeout=1200)
        self.checker_cmds.append("cd lean && lake env lean " + audit_file)
        axioms = parse_axioms(aout)
        allok = True
        for n in names:
            if n not in axioms:
                self.oblige("thm:" + n, False, "not reported by #print axioms: " + aout[-200:])
                allok = False
                continue
            extra = set(axioms[n]) - ALLOWED_AXIOMS
            self.oblige("thm:" + n, not extra, "axioms: " + ",".join(sorted(axioms[n])))
            allok = allok and not extra
        self.coverage["axioms"] = {n: sorted(a) for n, a in axioms.items()}
        # source grep
        hits = []
        dirs = [self.prop, "Common", "Gen"] + list(getattr(self, "extra_lean_dirs", []))
        for d in dirs:
            for dp, _, fn in os.walk(os.path.join(LEAN, "TsVerif", d)):
                for f in fn:
                    if f.endswith(".lean"):
                        hits += grep_forbidden(os.path.join(dp, f))
        self.oblige("no-sorry-admit-axiom-native_decide", not hits, "; ".join(hits)[:300])
        if self.tier == "thorough":
            for m in modules:
                if ".Props" in m:
                    rc, o = sh(["lake", "env", "leanchecker", m], cwd=LEAN, timeout=3000)
                    self.checker_cmds.append("cd lean && lake env leanchecker " + m)
                    self.oblige("leanchecker:" + m, rc == 0, o[-300:])
        return allok and not hits

    def build_driver(self, exe):
        ok, out, failed = self.lake_build([exe])
        self.oblige("build:" + exe, ok, "; ".join(failed))
        if not ok and any("Gen/" in f or "tie:gen" in f for f in failed + [o[0] for o in self.obligations if not o[1]]):
            # The regenerated definitions no longer compile (tie broken).  To still SEARCH for a
            # concrete failing input, rebuild the driver from the committed reference snapshot of Gen.
            self.log("regenerated Gen does not build; falling back to the committed Gen snapshot for the search")
            self.gen_fallback = True
            gen = os.path.join(LEAN, "TsVerif", "Gen")
            for f in os.listdir(gen):
                rc, txt = sh(["git", "-C", ROOT, "show", "HEAD:lean/TsVerif/Gen/" + f])
                if rc == 0:
                    open(os.path.join(gen, f), "w").write(txt)
            ok2, out2, failed2 = self.lake_build([exe])
            self.notes.append("driver %s built from the committed reference Gen (regenerated Gen failed to build): %s" % (exe, ok2))
        return os.path.join(LEAN, ".lake", "build", "bin", exe)

    def cargo_bin(self, name, features=None):
        cmd = ["cargo", "build", "--release", "--offline", "--bin", name]
        if features:
            cmd += ["--features", features]
        rc, out = sh(cmd, cwd=HARNESS, timeout=3000)
        if rc != 0:
            self.oblige("build:harness:" + name, False, out[-1500:])
            return None
        return os.path.join(HARNESS, "target", "release", name)

    def cunit(self, name="cunit"):
        """Unity build: csrc/<name>.c does `#include TSV_REPO_LIB_C` (= /repo/lib/src/lib.c) and adds a
        line-protocol main, so every function of the runtime, `static` ones included, is callable."""
        exe = os.path.join(self.workdir, "tsv-" + name)
        src = os.path.join(HARNESS, "csrc", name + ".c")
        rc, out = sh(["cc", "-std=c11", "-O1", "-w", "-D_POSIX_C_SOURCE=200112L", "-D_DEFAULT_SOURCE",
                      "-DTSV_REPO_LIB_C=\"%s/lib/src/lib.c\"" % REPO,
                      "-I", REPO + "/lib/src", "-I", REPO + "/lib/src/wasm", "-I", REPO + "/lib/include",
                      src, "-o", exe])
        if rc != 0:
            self.oblige("build:tsv-" + name, False, out[-1500:])
            return None
        return exe

    def validate_translator(self, n=4000):
        """T-gen validation: run the real C functions (unity build) and the generated Lean
        definitions on the same random + boundary arguments; restricted in nat mode to the
        no-overflow domain.  A difference breaks the tie (failed obligation)."""
        import random
        rnd = random.Random(self.seed)
        cu = self.cunit("cunit")
        drv = self.build_driver("tsv-gen")
        if not cu or not os.path.exists(drv):
            return False
        B = [0, 1, 2, 3, 15, 16, 17, 254, 255, 256, 65535, 65536, 2**31 - 1]
        BIG = B + [2**31, 2**32 - 2, 2**32 - 1]

        def v(big=False):
            r = rnd.random()
            if r < 0.55:
                return rnd.choice(BIG if big else B)
            if r < 0.85:
                return rnd.randrange(0, 40)
            return rnd.randrange(0, 2**31)
        lines = ["const"]
        skipped = 0
        fns2p = ["point_add", "point_sub", "point_lte", "point_lt", "point_gt", "point_gte", "point_eq"]
        fns2l = ["length_add", "length_sub", "length_min", "length_saturating_sub"]
        for _ in range(n):
            f = rnd.choice(fns2p)
            lines.append("%s %d %d %d %d" % (f, v(), v(), v(), v()))
            f = rnd.choice(fns2l)
            lines.append("%s %d %d %d %d %d %d" % (f, v(), v(), v(), v(), v(), v()))
        for _ in range(n // 4):
            lines.append("length_is_undefined %d %d %d" % (v(), v(), v()))
            a = [v() for _ in range(6)]
            if a[0] >= a[3] and a[2] >= a[5]:
                lines.append("length_backtrack " + " ".join(map(str, a)))
            else:
                skipped += 1
            lines.append("ts_subtree_can_inline " + " ".join(str(v()) for _ in range(7)))
            # ts_point_edit: point(2) byte edit(3+6)
            a = [v() for _ in range(12)]
            a[4] = max(a[4], a[3])  # old_end >= start
            lines.append("ts_point_edit " + " ".join(map(str, a)))
            a = [v() for _ in range(4)] + [v(True), v(True)] + [v(True), v(True), v(True)] + [v() for _ in range(6)]
            if a[4] > a[5]:
                a[4], a[5] = a[5], a[4]
            a[7] = max(a[7], a[6])
            lines.append("ts_range_edit " + " ".join(map(str, a)))
        for a in range(5):
            for b in range(5):
                for f in ("quantifier_mul", "quantifier_join", "quantifier_add"):
                    lines.append("%s %d %d" % (f, a, b))
        inp = "\n".join(lines) + "\n"
        rc1, out1 = sh([cu], input_text=inp, timeout=600)
        rc2, out2 = sh([drv], input_text=inp, timeout=600)
        o1, o2 = out1.strip().split("\n"), out2.strip().split("\n")
        diffs = [(lines[i], o1[i], o2[i]) for i in range(min(len(o1), len(o2))) if o1[i] != o2[i]]
        ok = rc1 == 0 and rc2 == 0 and len(o1) == len(lines) and len(o2) == len(lines) and not diffs
        self.oblige("tie:translator-validation(C functions = generated Lean defs)", ok,
                    "first differences: %s" % diffs[:3] if diffs else "rc=%d/%d lines=%d/%d/%d" % (rc1, rc2, len(lines), len(o1), len(o2)))
        self.coverage["translator_validation"] = {"calls": len(lines), "differences": len(diffs), "skipped_out_of_domain": skipped}
        for d in diffs[:3]:
            self.violation("tie", "generated Lean definition and C function disagree on `%s`: C=%s Lean=%s" % d,
                           {"call": d[0], "c": d[1], "lean": d[2]}, found_input=False)
        return ok

    def validate_compare_versions(self, n=6000):
        """Tie + judge for `ts_parser__compare_versions` (translator item Parser/…, theorems of
        C09/VersionOrder.lean).  (1) correspondence: the real C function (unity build) and the REGENERATED
        Lean definition give the same verdict on random + boundary status pairs of the no-wrap domain
        (ℕ product < 2^32).  (2) judge on the implementation alone, wrap domain included: the verdict
        for (b, a) is the mirror of the verdict for (a, b) (`compare_versions_mirror_wrapping`), a
        status compared with itself gives None, and Take… is returned only for a strictly cheaper
        version.  A failing pair is a concrete replay (the two statuses)."""
        import random
        rnd = random.Random(self.seed * 7919 + 11)
        cu = self.cunit("cunit")
        drv = self.build_driver("tsv-gen")
        if not cu or not os.path.exists(drv):
            return False
        costs = [0, 1, 2, 99, 100, 101, 109, 110, 111, 500, 1799, 1800, 1801, 1900, 3600, 3601, 65535, 2**31, 2**32 - 1]
        counts = [0, 1, 2, 3, 16, 17, 18, 35, 36, 599, 600, 1799, 1800, 1801, 65536, 2**24, 2**32 - 2, 2**32 - 1]
        precs = [1000000 + d for d in (-3, -1, 0, 1, 2, 7)]

        def status(base=None):
            if base is not None and rnd.random() < 0.5:
                s = list(base)
                k = rnd.randrange(4)
                s[k] = [rnd.choice(costs), rnd.choice(counts), rnd.choice(precs), rnd.randrange(2)][k]
                if k == 0 and rnd.random() < 0.7:
                    s[0] = max(0, min(2**32 - 1, base[0] + rnd.choice([-1801, -1800, -901, -900, -101, -100, -1, 1, 100, 101, 900, 901, 1800, 1801])))
                return s
            c = rnd.choice(costs) if rnd.random() < 0.6 else rnd.randrange(0, 4000)
            m = rnd.choice(counts) if rnd.random() < 0.6 else rnd.randrange(0, 40)
            return [c, m, rnd.choice(precs), rnd.randrange(2)]
        pairs = []
        for _ in range(n):
            a = status()
            b = status(a)
            pairs.append((a, b))
        lines = ["const2"]
        for a, b in pairs:
            lines.append("compare_versions " + " ".join(map(str, a + b)))
            lines.append("compare_versions " + " ".join(map(str, b + a)))
            lines.append("compare_versions " + " ".join(map(str, a + a)))
        inp = "\n".join(lines) + "\n"
        rc1, out1 = sh([cu], input_text=inp, timeout=600)
        rc2, out2 = sh([drv], input_text=inp, timeout=600)
        o1, o2 = out1.strip().split("\n"), out2.strip().split("\n")
        ok_run = rc1 == 0 and rc2 == 0 and len(o1) == len(lines) and len(o2) == len(lines)
        self.oblige("run:compare_versions(C unit + tsv-gen)", ok_run, "rc=%d/%d lines=%d/%d/%d" % (rc1, rc2, len(lines), len(o1), len(o2)))
        if not ok_run:
            return False
        compared = differ = judged = bad = 0
        verdicts = {}
        first_diff = None
        if o1[0] != o2[0]:
            differ += 1
            first_diff = ("MAX_COST_DIFFERENCE", o1[0], o2[0])
        for i, (a, b) in enumerate(pairs):
            j = 1 + 3 * i
            ab, ba, aa = o1[j], o1[j + 1], o1[j + 2]
            verdicts[ab] = verdicts.get(ab, 0) + 1
            nowrap = abs(a[0] - b[0]) * (1 + max(a[1], b[1])) < 2**32
            if nowrap:
                for k in range(3):
                    compared += 1
                    if o1[j + k] != o2[j + k]:
                        differ += 1
                        first_diff = first_diff or (lines[j + k], o1[j + k], o2[j + k])
            judged += 1
            why = None
            if not (ab.isdigit() and ba.isdigit() and int(ab) + int(ba) == 4):
                why = "verdict for (b,a) = %s is not the mirror of the verdict for (a,b) = %s" % (ba, ab)
            elif aa != "2":
                why = "a status compared with itself gives verdict %s, not None" % aa
            elif ab == "0" and not a[0] < b[0]:
                why = "TakeLeft although the left version is not strictly cheaper"
            elif ab == "4" and not b[0] < a[0]:
                why = "TakeRight although the right version is not strictly cheaper"
            if why:
                bad += 1
                if bad <= 3:
                    self.violation("judge", "ts_parser__compare_versions depends on the order of the two stack versions: " + why,
                                   {"a": {"cost": a[0], "node_count": a[1], "dynamic_precedence": a[2] - 1000000, "is_in_error": a[3]},
                                    "b": {"cost": b[0], "node_count": b[1], "dynamic_precedence": b[2] - 1000000, "is_in_error": b[3]},
                                    "verdict_ab": ab, "verdict_ba": ba, "verdict_aa": aa,
                                    "spec": {"kind": "compare_versions", "a": a, "b": b}},
                                   fingerprint={"kind": "compare_versions", "why": why.split(" ")[0]})
        self.oblige("corr:compare_versions(C function = regenerated Lean definition, no-wrap domain)", differ == 0,
                    "first difference: %s" % (first_diff,) if first_diff else "%d calls equal" % compared)
        if differ:
            self.violation("corr", "regenerated Lean definition and C function disagree on `%s`: C=%s Lean=%s" % first_diff,
                           {"call": first_diff[0], "c": first_diff[1], "lean": first_diff[2]}, found_input=False)
        self.oblige("judge:compare_versions(mirror law, reflexivity, Take only for strictly cheaper)", bad == 0,
                    "%d of %d pairs fail" % (bad, judged))
        self.coverage["compare_versions"] = {"pairs": judged, "compared_no_wrap": compared, "differences": differ,
                                             "judge_failures": bad, "verdict_distribution": verdicts}
        return differ == 0 and bad == 0

    # ---------------------------------------------------------------- violations
    def violation(self, kind, what, payload, fingerprint=None, found_input=True):
        """kind: judge | corr | proof | tie.  fingerprint: dict matched against KNOWN_FINDINGS."""
        for k in self.known:
            if k.get("status") == "known" and fingerprint is not None and match_fp(k.get("match", {}), fingerprint):
                if k["id"] not in [h["id"] for h in self.known_hits]:
                    self.known_hits.append(k)
                return
        self.violations.append({"kind": kind, "what": what, "payload": payload, "found_input": found_input,
                                "fingerprint": fingerprint})

    def finish(self, level="proof"):
        wall = time.time() - self.t0
        if not self.replay and not self.coverage.get("evaluations") and all(o[1] for o in self.obligations):
            # a run that explored nothing must not pass silently (crashed driver, empty case stream, …)
            self.oblige("run:explored-at-least-one-case", False, "coverage.evaluations is 0")
        # obligations that failed and produced no concrete failing input become
        # "no-failing-input-found" violations
        failed_obl = [o for o in self.obligations if not o[1]]
        concrete = [v for v in self.violations if v["found_input"]]
        if failed_obl and not concrete:
            self.violations.append({"kind": "proof", "what": "obligations no longer check: " +
                                    ", ".join(o[0] for o in failed_obl)[:400],
                                    "payload": {"failed_obligations": [{"name": o[0], "detail": o[2]} for o in failed_obl]},
                                    "found_input": False, "fingerprint": None})
        cov = dict(self.coverage)
        cov["obligations"] = len(self.obligations)
        cov["discharged"] = len([o for o in self.obligations if o[1]])
        cov["obligation_list"] = [{"name": o[0], "ok": o[1]} for o in self.obligations]
        cov["checker_cmd"] = " && ".join(dict.fromkeys(self.checker_cmds)) or "cd lean && lake build"
        cov["trusted_base"] = self.trusted
        cov.setdefault("evaluations", 0)
        cov.setdefault("distinct_nontrivial", 0)
        cov.setdefault("samples", [])
        cov["repo"] = repo_fingerprint()
        cov["known_findings_hit"] = [k["id"] for k in self.known_hits]
        ev = {"property_id": self.prop, "tier": self.tier, "seed": self.seed, "level": level,
              "coverage": cov, "assumptions": self.assumptions, "wall_s": round(wall, 2),
              "violations": len(self.violations), "notes": self.notes}
        json.dump(ev, open(os.path.join(ROOT, "evidence", self.prop + ".json"), "w"), indent=1)
        for k in self.known_hits:
            print("KNOWN-FINDING: property=%s %s" % (self.prop, k["what"]))
        code = 0
        # concrete failing inputs first: the first replay files should be replayable inputs
        self.violations.sort(key=lambda v: 0 if v["found_input"] else 1)
        for i, v in enumerate(self.violations[:5]):
            path = os.path.join(ROOT, "replay", "%s-%d-%d.json" % (self.prop, self.seed, i))
            json.dump({"property": self.prop, "seed": self.seed, "tier": self.tier, "kind": v["kind"],
                       "what": v["what"], "case": v["payload"], "repo": cov["repo"]}, open(path, "w"), indent=1)
            tail = "" if v["found_input"] else " no-failing-input-found"
            print("VIOLATION property=%s replay=%s%s" % (self.prop, path, tail))
            print("  (%s) %s" % (v["kind"], v["what"][:500]))
            code = 1
        subprocess.run(["rm", "-rf", self.workdir])
        self.log("done: %d/%d obligations, %d evaluations, %d violations, %d known findings, %.1fs" %
                 (cov["discharged"], cov["obligations"], cov.get("evaluations", 0), len(self.violations),
                  len(self.known_hits), wall))
        return code


def locate_decl(path, line):
    try:
        lines = open(path).read().split("\n")
    except OSError:
        return "?"
    for i in range(min(line, len(lines)) - 1, -1, -1):
        m = re.match(r"\s*(?:@\[[^\]]*\]\s*)?(?:private\s+|protected\s+)?(?:theorem|lemma|def|example|instance)\s+([\w\.']+)?", lines[i])
        if m:
            return m.group(1) or "example"
    return "?"


def audit_names(path):
    names = []
    for line in open(path):
        m = re.match(r"\s*#print axioms\s+([\w\.']+)", line)
        if m:
            names.append(m.group(1))
    return names


def parse_axioms(out):
    res = {}
    out = out.replace("\n  ", " ").replace("\n ", " ")
    for m in re.finditer(r"'([\w\.']+)' depends on axioms: \[([^\]]*)\]", out):
        res[m.group(1)] = [a.strip() for a in m.group(2).replace("\n", " ").split(",") if a.strip()]
    for m in re.finditer(r"'([\w\.']+)' does not depend on any axioms", out):
        res[m.group(1)] = []
    return res


def grep_forbidden(path):
    hits = []
    in_block = 0
    for i, line in enumerate(open(path), 1):
        # strip comments (line comments and block comments, roughly)
        s = line
        if in_block:
            if "-/" in s:
                s = s.split("-/", 1)[1]
                in_block = 0
            else:
                continue
        while "/-" in s:
            pre, rest = s.split("/-", 1)
            if "-/" in rest:
                s = pre + rest.split("-/", 1)[1]
            else:
                s = pre
                in_block = 1
        s = s.split("--", 1)[0]
        if FORBIDDEN.search(s):
            hits.append("%s:%d" % (os.path.relpath(path, ROOT), i))
    return hits


def load_known(prop):
    """Committed known findings: KNOWN_FINDINGS.json plus known_findings/*.json (never written at run time)."""
    out = []
    paths = [os.path.join(ROOT, "KNOWN_FINDINGS.json")]
    d = os.path.join(ROOT, "known_findings")
    if os.path.isdir(d):
        paths += [os.path.join(d, f) for f in sorted(os.listdir(d)) if f.endswith(".json")]
    for p in paths:
        if os.path.exists(p):
            out += [k for k in json.load(open(p)).get("findings", []) if k.get("property") == prop]
    return out


def match_fp(pattern, fp):
    """Every key of the pattern must be present in the fingerprint with an equal value
    (or, for strings ending in '*', a prefix match)."""
    if not pattern:
        return False
    for k, v in pattern.items():
        if k not in fp:
            return False
        if isinstance(v, str) and v.endswith("*"):
            if not str(fp[k]).startswith(v[:-1]):
                return False
        elif fp[k] != v:
            return False
    return True


def parse_kv_line(line):
    """`id k=v k=v msg…` -> (id, dict). Values run until the next ` k=`."""
    parts = line.rstrip("\n").split(" ", 1)
    ident = parts[0]
    d = {}
    if len(parts) > 1:
        for m in re.finditer(r"(\w+)=(.*?)(?= \w+=|$)", parts[1]):
            d[m.group(1)] = m.group(2)
    return ident, d


def main(argv):
    import argparse
    import importlib
    ap = argparse.ArgumentParser()
    ap.add_argument("prop")
    ap.add_argument("--tier", default=os.environ.get("VERIF_TIER", "quick"))
    ap.add_argument("--replay")
    a = ap.parse_args(argv)
    seed = int(os.environ.get("VERIF_SEED", "20260925"))
    sys.path.insert(0, ROOT)
    mod = importlib.import_module("checks." + a.prop.lower())
    os.makedirs(CACHE, exist_ok=True)
    import fcntl
    lock = open(os.path.join(CACHE, "repo.lock"), "w")
    if os.environ.get("VERIF_HAVE_REPO_LOCK") != "1":
        # writer-priority: pass through the gate first (a writer holding the gate blocks new readers
        # while it waits for the current ones to finish), then hold the main lock shared for the run.
        gate = open(os.path.join(CACHE, "repo.gate"), "w")
        fcntl.flock(gate, fcntl.LOCK_EX)
        fcntl.flock(lock, fcntl.LOCK_SH)
        fcntl.flock(gate, fcntl.LOCK_UN)
        gate.close()
    ctx = Ctx(a.prop, a.tier, seed, a.replay)
    try:
        try:
            return mod.run(ctx)
        except Exception:   # a crash of the orchestration is reported, never silently swallowed
            import traceback
            tb = traceback.format_exc()
            print(tb)
            ctx.oblige("check-script-completed", False, tb[-600:])
            return ctx.finish()
    finally:
        subprocess.run(["rm", "-rf", ctx.workdir])
