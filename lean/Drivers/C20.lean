-- Driver stub for C20 (replaced when the property's model driver is written).
def main : IO Unit := IO.println "C20: no driver yet"
