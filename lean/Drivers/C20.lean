import TsVerif.Common.IO
import TsVerif.C20.Judge
import TsVerif.C20.Idempotent
/-!
Driver for C20.  Protocol (hex = UTF-8 bytes in hex, `-` = empty):
```
case <id>
os <hex>
orig <hex>
act <lang> <input> <sexpFields> <sexpPlain> <cst> <hasError 0|1>
ent0|ent1 <name> <attrsStr> <input> <output> <hlen> <dlen> <hasFields> <platform> <failFast> <expect 0|1|2> <cst> <lang,lang,…>
wrote1 0|1
after1 <hex>
after2 <hex>
run
```
A line `fixes <keepUnrun> <oneCorrection> <keepSuffixPreamble> <quoteReset> <keepCstFiltered> <sameQuote>` (0/1 each) selects which proposed
repairs the model follows (default: none — the unchanged code).
Answer: `<id> parse0=… parse1=… upd1=… upd2=… judge=ok|FAIL:<clauses> n0=… n1=… nt=…`.
-/
open TsVerif TsVerif.C20

def natOf (s : String) : Nat := s.toNat?.getD 0

def hexVal' (c : Char) : Nat :=
  if '0' ≤ c ∧ c ≤ '9' then c.toNat - 48 else if 'a' ≤ c ∧ c ≤ 'f' then c.toNat - 87 else 0

def unhexStr (s : String) : Str :=
  if s == "-" then [] else
  let rec go : List Char → ByteArray → ByteArray
    | a :: b :: rest, acc => go rest (acc.push (UInt8.ofNat (hexVal' a * 16 + hexVal' b)))
    | _, acc => acc
  let bytes := go s.toList ByteArray.empty
  match String.fromUTF8? bytes with
  | some str => str.toList
  | none => "<<invalid utf-8>>".toList

def hexOf (s : Str) : String :=
  let bytes := (String.ofList s).toUTF8
  if bytes.size == 0 then "-" else
  bytes.foldl (fun acc b => acc ++ String.singleton (Nat.toDigits 16 (b.toNat / 16)).head! ++ String.singleton (Nat.toDigits 16 (b.toNat % 16)).head!) ""

structure St where
  fx : Fixes := {}
  id : String := ""
  os : Str := []
  orig : Str := []
  acts : List (Str × Str × Actual) := []
  ent0 : Array Entry := #[]
  ent1 : Array Entry := #[]
  wrote1 : Bool := false
  filter : String := "n"
  nms : List (Str × Bool) := []
  dir : Bool := false
  borig : Str := []
  bafter1 : Str := []
  bafter2 : Str := []
  res1 : String := ""
  res2 : String := ""
  after1 : Str := []
  after2 : Str := []

def parseEntry (ws : List String) : Option Entry :=
  match ws with
  | [name, attrs, input, output, hlen, dlen, hf, plat, ff, ex, cst, langs] =>
    some { name := unhexStr name, input := unhexStr input, output := unhexStr output,
           hlen := natOf hlen, dlen := natOf dlen, hasFields := hf == "1", attrsStr := unhexStr attrs,
           attrs := { platform := plat == "1", failFast := ff == "1",
                      expect := if ex == "2" then .skip else if ex == "1" then .error else .pass,
                      cst := cst == "1", languages := (langs.splitOn ",").map unhexStr } }
  | _ => none

def mkOracle (acts : List (Str × Str × Actual)) : Oracle := fun l inp =>
  (acts.find? fun (l', i', _) => l' == l && i' == inp).map (·.2.2)

def diffEntries (a b : List Entry) : String :=
  if a == b then "ok"
  else
    let rec go : List Entry → List Entry → Nat → String
      | [], [], _ => "ok"
      | x :: xs, y :: ys, i => if x == y then go xs ys (i + 1) else
          let f := if x.name != y.name then "name" else if x.input != y.input then "input" else if x.output != y.output then "output"
            else if x.attrsStr != y.attrsStr then "attrsStr" else if x.attrs != y.attrs then "attrs"
            else if x.hlen != y.hlen then "hlen" else if x.dlen != y.dlen then "dlen" else "hasFields"
          s!"DIFF@{i}:{f}"
      | xs, ys, i => s!"DIFF@{i}:count({xs.length + i}/{ys.length + i})"
    go a b 0

def diffStr (a b : Str) : String :=
  if a == b then "ok" else
    let rec go : Str → Str → Nat → Nat
      | x :: xs, y :: ys, i => if x == y then go xs ys (i + 1) else i
      | _, _, i => i
    s!"DIFF@{go a b 0}"

def runCase (s : St) : String :=
  let orc := mkOracle s.acts
  let raw : Str → Bool := fun n => ((s.nms.find? fun (n', _) => n' == n).map (·.2)).getD false
  let flt : Str → Bool := fun n => if s.filter == "i" || s.filter == "b" then raw n else if s.filter == "x" then !raw n else true
  let e0 := s.ent0.toList
  let e1 := s.ent1.toList
  let m0 := parseFile s.os s.orig
  let p0 := diffEntries m0 e0
  let p1 := diffEntries (parseFile s.os s.after1) e1
  let u1 := updateFileF s.fx s.os orc flt s.orig
  let c1 := diffStr u1 s.after1
  let c2 := diffStr (updateFileF s.fx s.os orc flt s.after1) s.after2
  -- directory mode: the case file is followed by a second file; a stopped run never reaches it
  let aborted (a : Str) : Bool := match parseFile s.os a with
    | [] => false
    | es => (updateEntriesF s.fx orc flt es []).isNone
  let esB (b : Str) : List Entry := if s.dir then parseFile s.os b else []
  let bm1 := if aborted s.orig then s.borig else updateFileF s.fx s.os orc flt s.borig
  let bm2 := if aborted s.after1 then s.bafter1 else updateFileF s.fx s.os orc flt s.bafter1
  let bu1 := if s.dir then diffStr bm1 s.bafter1 else "ok"
  let bu2 := if s.dir then diffStr bm2 s.bafter2 else "ok"
  let bj := if !s.dir then "ok"
    else if (parseFile s.os s.bafter1).map Entry.key != (parseFile s.os s.borig).map Entry.key then "FAIL:dirfile-keys"
    else if s.bafter2 != s.bafter1 then "FAIL:dirfile-idempotent" else "ok"
  let st1 := if updateStatus s.fx orc flt (m0 ++ esB s.borig) false then "ok" else "err"
  let st2 := if updateStatus s.fx orc flt (parseFile s.os s.after1 ++ esB s.bafter1) false then "ok" else "err"
  let r1 := if st1 == s.res1 then "ok" else s!"DIFF:model={st1},real={s.res1}"
  let r2 := if st2 == s.res2 then "ok" else s!"DIFF:model={st2},real={s.res2}"
  let sexps := s.acts.foldr (fun (_, _, a) acc => if a.hasError then acc else a.sexpFields :: a.sexpPlain :: acc) []
  let allSexps := s.acts.foldr (fun (_, _, a) acc => a.sexpFields :: a.sexpPlain :: acc) []
  let fails := judge { fx := s.fx, flt := flt, os := s.os, orig := s.orig, ent0 := e0, wrote1 := s.wrote1, after1 := s.after1,
                       ent1 := e1, after2 := s.after2, orc := orc, sexps := sexps, allSexps := allSexps }
  let j := if fails.isEmpty then "ok" else "FAIL:" ++ ",".intercalate fails
  let jin : JudgeIn := { fx := s.fx, flt := flt, os := s.os, orig := s.orig, ent0 := e0, wrote1 := s.wrote1, after1 := s.after1, ent1 := e1, after2 := s.after2, orc := orc, sexps := sexps, allSexps := allSexps }
  let canonF := canonB jin
  let simplesF := simplesB jin
  -- near-delimiter lines: a body line of an input or expectation of the ORIGINAL file that starts with a run of
  -- >= 3 `-` or `=` (whatever follows), and those among them that are NOT delimiters of this file
  let fs0 := firstSuffix (splitIncl s.orig)
  let bodyLines := e0.foldr (fun e acc => splitIncl (e.input ++ ['\n']) ++ acc) []
  let nearAll := (bodyLines.filter fun l => (parseDelimLine l '-').isSome || (parseDelimLine l '=').isSome).length
  let nearWs := (bodyLines.filter fun l => match parseDelimLine l '-' with
      | some (_, sf) => !suffixMatches fs0 sf && (match fs0 with | none => (trim sf).isEmpty | some f => trim sf == trim f)
      | none => false).length
  -- non-triviality data, measured on the real entries
  let attrs := (e0.filter fun e => !e.attrsStr.isEmpty).length
  let wrong := (e0.filter fun e => !(entryPasses orc e)).length
  let delimLike := (e0.filter fun e =>
      (splitIncl e.input).any fun l => (parseDelimLine l '=').isSome || (parseDelimLine l '-').isSome).length
  let wf := e0.all fun e => e.attrs.cst || sexpLike e.output
  let quoted := (e0 ++ e1).any fun e => (e.output.filter fun c => c == '\'' || c == '"').length ≥ 2
  let sxIn := (sexps.filter inFormatClass).length
  let canon := (e0.filter fun e => decide (e.attrs = flagsOf s.os e.name e.attrsStr)).length
  let stripok := (s.acts.filter fun (_, _, a) => stripSexpFields a.sexpFields == a.sexpPlain).length
  let actok := (s.acts.filter fun (_, _, a) => actOKGb a).length
  -- field names that are not snake_case: a rendering with a `X: (` whose word has a digit or an upper-case letter, and the
  -- tests whose expectation for such a rendering is written WITHOUT field names (compared through strip_sexp_fields)
  let oddField (sx : Str) : Bool :=
    let rec go (cs : Str) (word : Str) (fuel : Nat) : Bool :=
      match fuel, cs with
      | 0, _ => false
      | _, [] => false
      | fuel + 1, c :: rest =>
        if c == ':' && rest.take 2 == [' ', '('] then
          (word.any fun x => x.isDigit || x.isUpper) || go rest [] fuel
        else if c.isAlphanum || c == '_' then go rest (word ++ [c]) fuel
        else go rest [] fuel
    go sx [] (sx.length + 1)
  let oddActs := (s.acts.filter fun (_, _, a) => !a.hasError && oddField a.sexpFields).length
  let oddPlainTests := (e0.filter fun e => !e.attrs.cst && !e.hasFields && e.attrs.expect == .pass &&
      (e.attrs.languages.take 1).any fun l => match orc l e.input with
        | some a => !a.hasError && oddField a.sexpFields
        | none => false).length
  let shape := (e0.filter entryShapeB).length
  let expect := (e0.filter entryExpectB).length
  let model := if c1 == "ok" then "" else s!" model1={hexOf u1}"
  s!"{s.id} parse0={p0} parse1={p1} upd1={c1} upd2={c2} res1={r1} res2={r2} bupd1={bu1} bupd2={bu2} bjudge={bj} dir={if s.dir then 1 else 0} judge={j} n0={e0.length} n1={e1.length} attrs={attrs} wrong={wrong} delimlike={delimLike} suffixed={if (firstSuffix (splitIncl s.orig)).isSome then 1 else 0} wrote={if s.wrote1 then 1 else 0} filter={s.filter} carried={(e0.filter fun e => !flt e.name).length} carriedcst={(e0.filter fun e => !flt e.name && e.attrs.cst).length} wf={if wf then 1 else 0} canonf={if canonF then 1 else 0} simples={if simplesF then 1 else 0} nearall={nearAll} nearws={nearWs} oddacts={oddActs} oddplain={oddPlainTests} stripok={stripok} canon={canon} shape={shape} expectok={expect} acts={s.acts.length} actok={actok} sx={sexps.length} sxclass={sxIn} quoted={if quoted then 1 else 0} crlf={if s.orig.contains '\r' then 1 else 0} bytes={s.orig.length}{model}"

def step (s : St) (line : String) : IO St := do
  match line.splitOn " " with
  | ["fixes", a, b, c, d, e, f] =>
    return { s with fx := { keepUnrun := a == "1", oneCorrection := b == "1", keepSuffixPreamble := c == "1", quoteReset := d == "1", keepCstFiltered := e == "1", sameQuote := f == "1" } }
  | ["case", id] => return { fx := s.fx, id := id }
  | ["os", h] => return { s with os := unhexStr h }
  | ["orig", h] => return { s with orig := unhexStr h }
  | ["act", l, i, sf, sp, c, he] =>
    return { s with acts := s.acts ++ [(unhexStr l, unhexStr i, { sexpFields := unhexStr sf, sexpPlain := unhexStr sp, cst := unhexStr c, hasError := he == "1" })] }
  | "ent0" :: ws => return (match parseEntry ws with | some e => { s with ent0 := s.ent0.push e } | none => s)
  | "ent1" :: ws => return (match parseEntry ws with | some e => { s with ent1 := s.ent1.push e } | none => s)
  | ["strip", a, b] =>
    let m := stripSexpFields (unhexStr a)
    IO.println s!"strip strip={if m == unhexStr b then "ok" else "DIFF:" ++ a}"
    return s
  | ["filter", f] => return { s with filter := f }
  | ["borig", h] => return { s with dir := true, borig := unhexStr h }
  | ["bafter1", h] => return { s with bafter1 := unhexStr h }
  | ["bafter2", h] => return { s with bafter2 := unhexStr h }
  | ["res1", r] => return { s with res1 := r }
  | ["res2", r] => return { s with res2 := r }
  | ["nm", n, b] => return { s with nms := s.nms ++ [(unhexStr n, b == "1")] }
  | ["wrote1", b] => return { s with wrote1 := b == "1" }
  | ["after1", h] => return { s with after1 := unhexStr h }
  | ["after2", h] => return { s with after2 := unhexStr h }
  | ["run"] => IO.println (runCase s); return s
  | _ => return s

def main : IO Unit := do
  let _ ← foldLines (← IO.getStdin) ({} : St) step
