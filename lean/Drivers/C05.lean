-- Driver stub for C05 (replaced when the property's model driver is written).
def main : IO Unit := IO.println "C05: no driver yet"
