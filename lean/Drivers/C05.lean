import TsVerif.Common.IO
import TsVerif.Common.Tree
import TsVerif.C05.Judge
import TsVerif.C05.CapQuant
import TsVerif.C05.Verify
/-!
Driver for C05: reads cases written by `harness/src/bin/c05.rs` (visible tree, query text, compile
verdict, matches of the real cursor), parses the query into `Pat`, runs `matchAll`, prints
`<case> judge=<ok|FAIL kind…|SKIP why> nimpl= nmodel= qfree= compiled= haserror=`.
-/
open TsVerif TsVerif.C05

structure St where
  id : String := ""
  hasError : Bool := false
  query : String := ""
  compiled : Option Bool := none
  errOffset : Nat := 0
  errKind : String := ""
  srcLen : Nat := 0
  nodes : Array (VInfo × Nat) := #[]
  capNames : Array String := #[]
  impls : Array MatchKey := #[]
  cqs : Array (Nat × List Nat) := #[]
  sups : List String := []
  crashed : Bool := false   -- Query::new crashed / did not terminate in the guarded child process

def strOfHex (h : String) : String :=
  if h == "-" then "" else
    match String.fromUTF8? (ByteArray.mk ((unhexBytes h).map (fun n => n.toUInt8)).toArray) with
    | some s => s
    | none => "�"

structure VFrame where
  i : VInfo
  need : Nat
  acc : List VT

def closeFrames : List VFrame → VT → (List VFrame × Option VT)
  | [], t => ([], some t)
  | f :: fs, t =>
    let acc := t :: f.acc
    if acc.length == f.need then closeFrames fs (.mk f.i acc.reverse)
    else ({ f with acc := acc } :: fs, none)

def buildVT (nodes : List (VInfo × Nat)) : Option VT :=
  let rec go (nodes : List (VInfo × Nat)) (stack : List VFrame) (done : Option VT) : Option VT :=
    match nodes with
    | [] => done
    | (i, cc) :: rest =>
      if cc == 0 then
        let (stack', r) := closeFrames stack (.mk i [])
        go rest stack' (r <|> done)
      else go rest ({ i := i, need := cc, acc := [] } :: stack) done
  go nodes [] none

def parseCapPairs (names : Array String) : List Nat → List (String × Nat)
  | c :: n :: rest => (names[c]?.getD "?", n) :: parseCapPairs names rest
  | _ => []

/-- Does the query text contain an alternation or a `?`/`*` quantifier (parts that need not match)? -/
def optionalParts (q : String) : Bool := q.toList.any fun c => c == '[' || c == '?' || c == '*'

/-- Is there an anchor whose preceding sibling pattern carries no capture (`(x) . (y)`)? -/
def anchorAfterUncaptured (q : String) : Bool :=
  let toks := (tokenize (q.length + 1) q.toList #[]).toList
  let rec go : List Tok → Bool
    | a :: .dot :: rest => (a == .rp || a == .rb || a == .under || (match a with | .str _ => true | _ => false)) || go (.dot :: rest)
    | _ :: rest => go rest
    | [] => false
  go toks

/-- … and that preceding sibling pattern has child patterns of its own (`(x (y)) . (z)`)? -/
def anchorAfterUncapturedSubtree (q : String) : Bool :=
  let toks := (tokenize (q.length + 1) q.toList #[]).toList
  let rec go : List Tok → Bool
    | x :: .rp :: .dot :: rest =>
      (match x with | .ident _ => false | .lp => false | _ => true) || go (.rp :: .dot :: rest)
    | _ :: rest => go rest
    | [] => false
  go toks

def dropCaps : List Tok → List Tok
  | .cap _ :: rest => dropCaps rest
  | ts => ts

/-- negated fields `!f` after the last child pattern -/
def dropNeg : List Tok → List Tok
  | .bang :: .ident _ :: rest => dropNeg rest
  | ts => ts

/-- `… _ [@c] [!f] ) [@c] . …`: the unnamed wildcard is the last child pattern of the sibling before an anchor. -/
def anchorAfterNestedWildcard (q : String) : Bool :=
  let toks := (tokenize (q.length + 1) q.toList #[]).toList
  -- further closing parentheses (of plain groups / the node around a group), then the anchor
  let rec closers : List Tok → Bool
    | .cap _ :: r => closers r
    | .rp :: r => closers r
    | .dot :: _ => true
    | _ => false
  let rec go : List Tok → Bool
    | .under :: rest =>
      (match dropNeg (dropCaps rest) with
       | .rp :: r2 => closers r2
       | _ => false) || go rest
    | _ :: rest => go rest
    | [] => false
  go toks

/-- `[ … ] . …` with no capture on the alternation. -/
def anchorAfterAlternation (q : String) : Bool :=
  let toks := (tokenize (q.length + 1) q.toList #[]).toList
  let rec go : List Tok → Bool
    | .rb :: .dot :: _ => true
    | _ :: rest => go rest
    | [] => false
  go toks

def qCode : TsGen.TSQuantifier → Nat
  | .TSQuantifierZero => 0 | .TSQuantifierZeroOrOne => 1 | .TSQuantifierZeroOrMore => 2
  | .TSQuantifierOne => 3 | .TSQuantifierOneOrMore => 4

/-- `occ` of Props, as a Bool on quantifier codes. -/
def occB (q n : Nat) : Bool :=
  match q with | 0 => n == 0 | 1 => n ≤ 1 | 2 => true | 3 => n == 1 | _ => n ≥ 1

/-- Capture quantifiers: (a) the compiler's table equals `capQItem` (correspondence with the
definition `capture_count_within_quantifier` is about), (b) every real match respects the
compiler's table.  Returns (corr, judge). -/
def checkCapQ (s : St) (items : List Item) : String × String :=
  let names := s.capNames.toList
  let diffs := (s.cqs.toList.filterMap fun (p, qs) =>
    match items[p]? with
    | none => none
    | some it =>
      let model := names.map fun c => qCode (capQItem c it)
      if model == qs then none else some s!"p{p}:model={model},impl={qs}")
  let bad := s.impls.toList.filter fun m =>
    match s.cqs.toList.find? (fun x => x.1 == m.1) with
    | none => false
    | some (_, qs) => (names.zipIdx).any fun (c, i) => !occB (qs.getD i 2) ((m.2.filter fun x => x.1 == c).length)
  (if diffs.isEmpty then "ok" else "DIFF-" ++ String.intercalate ";" diffs, if bad.isEmpty then "ok" else "FAIL")

/-- Tokens up to the `)` that closes the currently open pattern; `none` when a capture occurs inside. -/
def closeNoCap : Nat → Nat → List Tok → Bool → Option (List Tok × Bool)
  | 0, _, _, _ => none
  | _, _, [], _ => none
  | fuel + 1, depth, t :: rest, kids =>
    match t with
    | .cap _ => none
    | .rp => if depth = 0 then some (rest, kids) else closeNoCap fuel (depth - 1) rest kids
    | .lp => closeNoCap fuel (depth + 1) rest true
    | .lb => closeNoCap fuel (depth + 1) rest true
    | .rb => closeNoCap fuel (depth - 1) rest kids
    | .str _ => closeNoCap fuel depth rest true
    | _ => closeNoCap fuel depth rest kids

/-- Is there a child pattern that has child patterns of its own and carries no capture (inside or on
itself)?  (`(a (b (c) (d)))`: the matcher must keep the choice of `b` open.) -/
def uncapturedSubtree (q : String) : Bool :=
  let toks := (tokenize (q.length + 1) q.toList #[]).toList
  let rec go : Nat → List Tok → Bool
    | _, [] => false
    | depth, .lp :: rest =>
      (depth ≥ 1 && (match closeNoCap (rest.length + 1) 0 rest false with
        | some (after, kids) => kids && (match after with | .cap _ :: _ => false | .quant _ :: .cap _ :: _ => false | _ => true)
        | none => false)) || go (depth + 1) rest
    | depth, .rp :: rest => go (depth - 1) rest
    | depth, _ :: rest => go depth rest
  go 0 toks

/-- Is there a child pattern that has child patterns of its own? -/
def hasNestedChildPattern (q : String) : Bool :=
  let toks := (tokenize (q.length + 1) q.toList #[]).toList
  let rec go : Nat → List Tok → Bool
    | _, [] => false
    | depth, .lp :: rest => (depth ≥ 2) || go (depth + 1) rest
    | depth, .lb :: rest => (depth ≥ 2) || go (depth + 1) rest
    | depth, .str _ :: rest => (depth ≥ 2) || go depth rest
    | depth, .under :: rest => (depth ≥ 2) || go depth rest
    | depth, .rp :: rest => go (depth - 1) rest
    | depth, .rb :: rest => go (depth - 1) rest
    | depth, _ :: rest => go depth rest
  go 0 toks

/-- `_ . x` with no capture on the `_`. -/
def anchorAfterUnnamedWildcard (q : String) : Bool :=
  let toks := (tokenize (q.length + 1) q.toList #[]).toList
  let rec go : List Tok → Bool
    | .under :: .dot :: _ => true
    | _ :: rest => go rest
    | [] => false
  go toks

/-- An anchor directly after a supertype pattern `(sup …) @c* .` or directly after a supertype head
`(sup . …`. -/
def anchorAfterSupertype (sups : List String) (q : String) : Bool :=
  let toks := (tokenize (q.length + 1) q.toList #[]).toList
  let rec skipCaps : List Tok → List Tok
    | .cap _ :: rest => skipCaps rest
    | ts => ts
  let rec go : List Bool → List Tok → Bool
    | _, [] => false
    | st, .lp :: .ident k :: rest =>
      (sups.contains k && (match rest with | .dot :: _ => true | _ => false)) || go (sups.contains k :: st) rest
    | st, .lp :: rest => go (false :: st) rest
    | st, .rp :: rest =>
      match st with
      | g :: st' => (g && (match skipCaps rest with | .dot :: _ => true | _ => false)) || go st' rest
      | [] => go [] rest
    | st, _ :: rest => go st rest
  go [] toks

/-- `( … ( group ) . )`: a trailing anchor directly after a plain group. -/
def trailingAnchorAfterGroup (q : String) : Bool :=
  let toks := (tokenize (q.length + 1) q.toList #[]).toList
  -- the group's quantifier and captures
  let rec skipSuffix : List Tok → List Tok
    | .quant _ :: rest => skipSuffix rest
    | .cap _ :: rest => skipSuffix rest
    | ts => ts
  let rec go : List Bool → List Tok → Bool
    | _, [] => false
    | st, .lp :: rest =>
      let isGroup := match rest with | .lp :: _ => true | .lb :: _ => true | .str _ :: _ => true | _ => false
      go (isGroup :: st) rest
    | st, .rp :: rest =>
      match st with
      | g :: st' => (g && (match skipSuffix rest with | .dot :: .rp :: _ => true | _ => false)) || go st' rest
      | [] => go [] rest
    | st, _ :: rest => go st rest
  go [] toks

/-- Model matches that no other model match of the same pattern extends, and that no reported match
of that pattern covers. -/
def maximalMissing (model impl : List MatchKey) : List MatchKey :=
  let maximal := model.filter fun x => !(model.any fun y => y.1 == x.1 && y != x && subBag x.2 y.2)
  maximal.filter fun x => !(impl.any fun y => y.1 == x.1 && subBag x.2 y.2)

/-- (pattern, capture, node) triples that some model binding has and no reported match of that
pattern has: a capture that can bind a node must bind it in some reported match. -/
def neverBound (model impl : List MatchKey) : List (Nat × String × Nat) :=
  let trip (ms : List MatchKey) := ms.flatMap fun m => m.2.map fun c => (m.1, c.1, c.2)
  let have_ := trip impl
  ((trip model).filter fun t => !have_.contains t).eraseDups

/-- `…)? .` / `…* @c .`: an anchor right after a quantified child pattern. -/
def quantifierBeforeAnchor (q : String) : Bool :=
  let toks := (tokenize (q.length + 1) q.toList #[]).toList
  let isGroupStart : List Tok → Bool
    | .lp :: _ => true | .lb :: _ => true | .str _ :: _ => true | _ => false
  -- `st`: for every open `(` whether it opens a group; `tail`: the element that was just completed
  -- ends in a quantified pattern (through the closing parentheses of groups)
  let rec go : List Bool → Bool → List Tok → Bool
    | _, _, [] => false
    | st, _, .quant _ :: rest => go st true rest
    | st, tail, .cap _ :: rest => go st tail rest
    | st, tail, .dot :: rest => tail || go st false rest
    | st, tail, .rp :: rest =>
      match st with
      | g :: st' => go st' (g && tail) rest
      | [] => go [] false rest
    | st, _, .lp :: rest => go (isGroupStart rest :: st) false rest
    | st, _, _ :: rest => go st false rest
  go [] false toks

/-- The only quantifier used is `?` (present-or-absent: no choice of how many repetitions). -/
def onlyOptionalQuantifiers (q : String) : Bool :=
  let toks := (tokenize (q.length + 1) q.toList #[]).toList
  toks.all fun t => match t with | .quant .star => false | .quant .plus => false | _ => true

/-- Skip one balanced child pattern (`[field:] ( … )`, `[ … ]`, a literal, `_`). -/
partial def skipItemToks : List Tok → List Tok
  | .ident _ :: .colon :: r => skipItemToks r
  | .lp :: r => closeToks 1 r
  | .lb :: r => closeToks 1 r
  | _ :: r => r
  | [] => []
where
  closeToks : Nat → List Tok → List Tok
    | 0, ts => ts
    | _, [] => []
    | d + 1, .lp :: r => closeToks (d + 2) r
    | d + 1, .lb :: r => closeToks (d + 2) r
    | d + 1, .rp :: r => closeToks d r
    | d + 1, .rb :: r => closeToks d r
    | d + 1, _ :: r => closeToks (d + 1) r

/-- A QUANTIFIED group `( e1 … )q` whose first element `e1` is itself quantified. -/
partial def quantGroupQuantFirst (q : String) : Bool :=
  let toks := (tokenize (q.length + 1) q.toList #[]).toList
  let isGroupStart : List Tok → Bool
    | .lp :: _ => true | .lb :: _ => true | .str _ :: _ => true | _ => false
  let rec go : List Tok → Bool
    | [] => false
    | .lp :: rest =>
      (isGroupStart rest &&
        (match skipItemToks rest with | .quant _ :: _ => true | _ => false) &&
        (match skipItemToks (.lp :: rest) with | .quant _ :: _ => true | _ => false)) || go rest
    | _ :: rest => go rest
  go toks

/-- An alternation that is itself a branch of an alternation. -/
def nestedAlternation (q : String) : Bool :=
  let toks := (tokenize (q.length + 1) q.toList #[]).toList
  -- stack: `true` = inside `[ … ]` at this level
  let rec go : List Bool → List Tok → Bool
    | _, [] => false
    | st, .lb :: rest => (st.head?.getD false) || go (true :: st) rest
    | st, .lp :: rest => go (false :: st) rest
    | st, .rb :: rest => go (st.drop 1) rest
    | st, .rp :: rest => go (st.drop 1) rest
    | st, _ :: rest => go st rest
  go [] toks

/-- How supertypes are used in the query: "true" = some supertype head has child patterns (or negated
fields / anchors) of its own, "bare" = supertype heads only as `(sup)` / `(sup/sub)`, "false" = none. -/
def superUse (sups : List String) (q : String) : String :=
  let toks := (tokenize (q.length + 1) q.toList #[]).toList
  let afterHead : List Tok → List Tok
    | .slash :: .ident _ :: r => r
    | .slash :: .str _ :: r => r
    | r => r
  let rec go : List Tok → Bool × Bool
    | [] => (false, false)
    | .lp :: .ident k :: rest =>
      let (a, b) := go rest
      if sups.contains k then
        match afterHead rest with
        | .rp :: _ => (a, true)
        | _ => (true, b)
      else (a, b)
    | _ :: rest => go rest
  let (withKids, bare) := go toks
  if withKids then "true" else if bare then "bare" else "false"

/-- Pattern `i` of the query (one pattern per line) contains no capture at all. -/
def capturelessPattern (q : String) (i : Nat) : Bool :=
  match (q.splitOn "\n")[i]? with
  | some l => !(l.toList.any (· == '@'))
  | none => false

def hasQuantifierToken (q : String) : Bool :=
  let toks := (tokenize (q.length + 1) q.toList #[]).toList
  toks.any fun t => match t with | .quant _ => true | _ => false

def runCase (s : St) : String :=
  let tail := s!"compiled={s.compiled.getD false} haserror={s.hasError}"
  if s.crashed then s!"{s.id} judge=FAIL nontermination-plus-on-empty-matching-group {tail}" else
  match buildVT s.nodes.toList with
  | none => s!"{s.id} judge=FAIL badtree {tail}"
  | some vt =>
    match parseQuery s.query s.sups (maxFanout vt) with
    | none => s!"{s.id} judge=SKIP unsupported {tail}"
    | some items =>
      -- quantified groups are unrolled by the parser: the text decides whether the query is quantified
      let quant := Item.anyQuant items || hasQuantifierToken s.query
      if quant && maxFanout vt > 9 then
        -- wide tree + quantifiers: no enumeration; every real match is VERIFIED against the semantics
        -- (soundness, which is all the property demands of quantified patterns)
        match s.compiled with
        | some true =>
          let bad := s.impls.toList.filter fun m =>
            match items[m.1]? with
            | some it => !verifyAnywhere vt it m.2
            | none => true
          let (cqCorr, cqJudge) := checkCapQ s items
          let info := s!"nimpl={s.impls.size} nmodel=- qfree=false npat={items.length} capq={cqCorr} capqjudge={cqJudge} verified=true {tail}"
          if bad.isEmpty then s!"{s.id} judge=ok {info}"
          else
            let kind := if quantGroupQuantFirst s.query then "unsound-quantified-group-left-after-quantified-first-element"
              else if (s.query.splitOn " .)").length > 1 && hasNestedChildPattern s.query then "unsound-quantified-trailing-anchor-nested"
              else if (s.query.splitOn " .)").length > 1 then "unsound-quantified-trailing-anchor" else "unsound-verifier"
            s!"{s.id} judge=FAIL {kind} first={repr bad.head!} {info}"
        | _ => s!"{s.id} judge=SKIP toolarge-rejected qfree=false {tail}"
      else
      let model := modelMatches vt items
      let impl := s.impls.toList.map fun m => (m.1, canon m.2)
      let (cqCorr, cqJudge) := checkCapQ s items
      -- statistic only (the property demands completeness for quantifier-free patterns only)
      let qempty := quant && ((List.range items.length).any fun p => (model.any fun x => x.1 == p) && !(impl.any fun x => x.1 == p))
      -- cross-validation of the verifier against the enumeration on the real matches
      let vdiff := s.compiled == some true && s.impls.toList.any fun m =>
        match items[m.1]? with
        | some it => verifyAnywhere vt it m.2 != model.contains (m.1, canon m.2)
        | none => false
      let info := s!"verif={if vdiff then "DIFF" else "agree"} nimpl={impl.length} nmodel={model.length} qfree={!quant} npat={items.length} capq={cqCorr} capqjudge={cqJudge} qempty={qempty} {tail}"
      match s.compiled with
      | some true =>
        if !(impl.all fun x => model.contains x) then
          let bad := impl.filter fun x => !model.contains x
          let partialB := bad.all fun x => model.any fun y => y.1 == x.1 && subBag x.2 y.2
          let wildKids := (s.query.splitOn "(_ ").length > 1
          let trailing := quant && (s.query.splitOn " .)").length > 1
          -- (a group left in the middle of a repetition yields a PARTIAL binding: ask for that family first)
          let kind := if quantGroupQuantFirst s.query then "unsound-quantified-group-left-after-quantified-first-element"
            else if partialB then "unsound-partial-binding"
            else if trailing && hasNestedChildPattern s.query then "unsound-quantified-trailing-anchor-nested"
            else if trailing then "unsound-quantified-trailing-anchor"
            else if wildKids && (s.query.splitOn "!").length > 1 then "unsound-wildroot-test-skipped"
            else if quantGroupQuantFirst s.query then "unsound-quantified-group-left-after-quantified-first-element"
            else if wildKids && s.hasError then "unsound-wildroot-error-parent"
            else if s.sups.any (fun n => (s.query.splitOn ("(" ++ n ++ " ")).length > 1) then "unsound-supertype-root-test-skipped"
            else "unsound"
          s!"{s.id} judge=FAIL {kind} first={repr bad.head!} {info}"
        else if !quant && !soundB impl model then
          let bad := impl.filter fun x => countOf x impl > countOf x model
          s!"{s.id} judge=FAIL duplicate first={repr bad.head!} {info}"
        else if !quant && !completeB impl model then
          let bad := model.filter fun x => countOf x model > countOf x impl
          let subsumed := bad.all fun x => impl.any fun y => y.1 == x.1 && y != x && subBag x.2 y.2
          let kind := if subsumed then "incomplete-subsumed" else if capturelessPattern s.query bad.head!.1 then "incomplete-captureless-pattern" else if nestedAlternation s.query then "incomplete-nested-alternation-loses-inner-branches" else if trailingAnchorAfterGroup s.query then "incomplete-trailing-anchor-after-group" else if anchorAfterSupertype s.sups s.query then "incomplete-anchor-after-supertype" else if s.hasError && (s.query.splitOn "(ERROR").length > 1 && (s.query.splitOn ": ").length > 1 then "incomplete-field-under-error-node" else if (s.query.splitOn "[").length > 1 && (s.query.splitOn "(_ ").length > 1 then "incomplete-wildroot-branch-in-alternation" else if anchorAfterNestedWildcard s.query then "incomplete-anchor-after-nested-wildcard" else if anchorAfterAlternation s.query then "incomplete-anchor-after-uncaptured-alternation" else if uncapturedSubtree s.query then "incomplete-uncaptured-subtree" else if (s.query.splitOn "(MISSING").length > 1 then "incomplete-missing-uncaptured" else if (s.query.splitOn "(ERROR ").length > 1 then "incomplete-error-children-uncaptured" else if anchorAfterUncapturedSubtree s.query then "incomplete-anchor-after-uncaptured-subtree" else if anchorAfterUnnamedWildcard s.query then "incomplete-strict-anchor-after-uncaptured-unnamed-wildcard" else if anchorAfterUncaptured s.query then "incomplete-anchor-uncaptured" else "incomplete"
          s!"{s.id} judge=FAIL {kind} first={repr bad.head!} {info}"
        else if quant && onlyOptionalQuantifiers s.query && !(maximalMissing model impl).isEmpty then
          -- quantified patterns: which of several overlapping repetitions is reported is
          -- implementation-defined, but a binding that no other binding extends (the longest match)
          -- must be covered by a reported match of that pattern
          let bad := maximalMissing model impl
          let kind := if nestedAlternation s.query then "incomplete-nested-alternation-loses-inner-branches"
            else if quantifierBeforeAnchor s.query then "quantified-maximal-binding-missing-anchor-after-quantifier"
            else if trailingAnchorAfterGroup s.query then "incomplete-trailing-anchor-after-group"
            else if anchorAfterSupertype s.sups s.query then "incomplete-anchor-after-supertype"
            else if anchorAfterNestedWildcard s.query then "incomplete-anchor-after-nested-wildcard"
            else if anchorAfterAlternation s.query then "incomplete-anchor-after-uncaptured-alternation"
            else if anchorAfterUnnamedWildcard s.query then "incomplete-strict-anchor-after-uncaptured-unnamed-wildcard"
            else "quantified-maximal-binding-missing"
          s!"{s.id} judge=FAIL {kind} first={repr bad.head!} {info}"
        else if quant && !(neverBound model impl).isEmpty then
          -- any quantifier: a (capture, node) pair that some binding of the definition has must
          -- occur in some reported match of that pattern
          let kind := if nestedAlternation s.query then "incomplete-nested-alternation-loses-inner-branches"
            else if quantifierBeforeAnchor s.query then "quantified-maximal-binding-missing-anchor-after-quantifier"
            else if trailingAnchorAfterGroup s.query then "incomplete-trailing-anchor-after-group"
            else if anchorAfterSupertype s.sups s.query then "incomplete-anchor-after-supertype"
            else if anchorAfterNestedWildcard s.query then "incomplete-anchor-after-nested-wildcard"
            else if anchorAfterAlternation s.query then "incomplete-anchor-after-uncaptured-alternation"
            else if anchorAfterUnnamedWildcard s.query then "incomplete-strict-anchor-after-uncaptured-unnamed-wildcard"
            else "quantified-capture-never-bound"
          s!"{s.id} judge=FAIL {kind} first={repr (neverBound model impl).head!} {info}"
        else if cqJudge != "ok" then s!"{s.id} judge=FAIL capture-count-outside-quantifier {info}"
        else s!"{s.id} judge=ok {info}"
      | _ =>
        -- the rejected pattern is the one on the line of the error offset (one pattern per line)
        let line := ((s.query.toList.take s.errOffset).filter (· == '\n')).length
        let modelHere := model.filter fun x => x.1 == line
        -- the fingerprint describes the REJECTED pattern (one pattern per line), not the whole query
        let rq := ((s.query.splitOn "\n")[line]?).getD s.query
        if s.errOffset > s.srcLen then s!"{s.id} judge=FAIL offset-outside-source {info}"
        else if !s.hasError && !modelHere.isEmpty then s!"{s.id} judge=FAIL rejected-but-matches errkind={s.errKind} pattern={line} optional={optionalParts rq} extras={decide ((rq.splitOn "(comment").length > 1)} super={superUse s.sups rq} {info}"
        else s!"{s.id} judge=ok rejected={s.errKind} {info}"

def step (s : St) (line : String) : IO St := do
  match line.splitOn " " with
  | ["case", id] => return { id := id }
  | ["haserror", b] => return { s with hasError := b == "1" }
  | ["query", h] => return { s with query := strOfHex h }
  | ["compile", "ok"] => return { s with compiled := some true }
  | ["compile", "crash"] => return { s with crashed := true }
  | ["compile", "err", off, kind, len] =>
    return { s with compiled := some false, errOffset := natOf off, errKind := kind, srcLen := natOf len }
  | "supertypes" :: names => return { s with sups := names.map strOfHex }
  | ["n", id, named, missing, error, extra, sb, eb, nc, kind, field, sv] =>
    let i : VInfo := { id := natOf id, kind := strOfHex kind, named := named == "1", missing := missing == "1",
                       error := error == "1", extra := extra == "1",
                       field := if field == "-" then none else some (strOfHex field), sb := natOf sb, eb := natOf eb,
                       sups := if sv == "-" then [] else (sv.splitOn ",").map strOfHex }
    return { s with nodes := s.nodes.push (i, natOf nc) }
  | "caps" :: names => return { s with capNames := names.toArray }
  | "m" :: pat :: _n :: rest =>
    return { s with impls := s.impls.push (natOf pat, parseCapPairs s.capNames (rest.map natOf)) }
  | "cq" :: pat :: rest => return { s with cqs := s.cqs.push (natOf pat, rest.map natOf) }
  | ["run"] => IO.println (runCase s); return s
  | _ => return s

def main : IO Unit := do
  let _ ← foldLines (← IO.getStdin) ({} : St) step
