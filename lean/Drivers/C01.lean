import Std.Data.HashMap
import Std.Data.HashSet
import TsVerif.Common.IO
import TsVerif.C01.Judge
import TsVerif.C01.Certify
/-!
Driver for C01.  Input: language tables (from `tsv-cunit_c01`), symbol names (from the harness),
then cases (edited old tree dump, incremental tree dump, scratch tree dump, the two cursor walks,
the parser's log of the incremental parse).  Output per case:

`<id> judge=<ok|FAIL msg> corr=<ok|DIFF msg> clean=<0|1> gate=.. match=.. undet=.. refusals=..
 reused_inner=.. reused_leaf=.. reused_bytes=.. lexed=.. nodes=..`
-/
open TsVerif TsVerif.C01 TsGen

structure LangData where
  lexModes : Array LexMode := #[]
  entries : Std.HashMap (Nat × Nat) TableEntry := {}
  kct : Nat := 0
  tokenCount : Nat := 0
  actions : Std.HashMap (Nat × Nat) (List String) := {}
  gotos : Std.HashMap (Nat × Nat) Nat := {}
  visibleSyms : Std.HashSet Nat := {}
  names : Std.HashMap Nat String := {}

def LangData.toLang (d : LangData) : Lang :=
  { lexMode := fun s => d.lexModes[s]?.getD { lexState := 0, extLexState := 0, reservedSet := 0 }
    entry := fun s t => (d.entries.get? (s, t)).getD { actionCount := 0, reusable := false }
    keywordCaptureToken := d.kct }

/-- One dumped action: `S<state>[e][r]`, `R<sym>.<count>.<dyn>.<prod>`, `A`, `V`.  Repetition
shifts (`r`) are dropped: `ts_parser__advance` skips them. -/
def parseAction (a : String) : Option LR.Action :=
  if a == "A" then some .accept
  else if a == "V" then some .error
  else if a.startsWith "S" then
    let body := (a.drop 1).toString
    if body.endsWith "r" then none
    else if body.endsWith "e" then some .shiftExtra
    else some (.shift (natOf body))
  else if a.startsWith "R" then
    match ((a.drop 1).toString).splitOn "." with
    | sym :: cnt :: _ => some (.reduce (natOf sym) (natOf cnt))
    | _ => some .error
  else some .error

def LangData.toLR (d : LangData) : LRData :=
  let acts := fun (s t : Nat) => ((d.actions.get? (s, t)).getD []).filterMap parseAction
  { table := { action := fun s t => match acts s t with
                 | [a] => a
                 | _ => .error
               goto := fun s n => (d.gotos.get? (s, n)).getD 0
               noLookahead := fun s => (d.lexModes[s]?.map (fun m => m.lexState == noLexState)).getD false }
    actions := acts
    ambiguous := fun s t => (acts s t).length > 1
    visible := fun s => d.visibleSyms.contains s
    tokenCount := d.tokenCount }

mutual
  def addrsOf (t : Tree) (acc : Std.HashSet Nat) : Std.HashSet Nat :=
    match t with
    | .mk d ks => addrsOfL ks (if d.addr == 0 then acc else acc.insert d.addr)
  def addrsOfL (ks : List Tree) (acc : Std.HashSet Nat) : Std.HashSet Nat :=
    match ks with
    | [] => acc
    | k :: rest => addrsOfL rest (addrsOf k acc)
end

structure CertStats where
  ok : Nat := 0
  stuck : Nat := 0
  amb : Nat := 0
  skipped : Nat := 0
  bad : Option String := none

/-- Certificates for every subtree the real incremental parse reused. -/
def certifyCase (L : LRData) (old incr : Tree) : CertStats := Id.run do
  let oldAddrs := addrsOf old {}
  let toks := leavesOf L.tokenCount incr #[]
  let (reused, _) := reusedOf L.tokenCount (fun a => oldAddrs.contains a) incr 0 #[]
  let mut st : CertStats := {}
  for r in reused do
    let s := r.tree.data.parseState
    -- subtrees with ERROR/MISSING descendants were built by error recovery: outside the machine
    if s == 65535 || dirtyTree r.tree then
      st := { st with skipped := st.skipped + 1 }
      continue
    let w := ((toks.extract r.first (r.first + r.count)).map (·.1)).toList
    -- the extras that follow and the first real token
    let mut u : Array Tok := #[]
    for i in [r.first + r.count : toks.size] do
      let (k, ex) := toks[i]!
      u := u.push k
      if !ex then break
    match certifyReuse L s r.tree.data.symbol w u.toList (shapeT r.tree 0 true #[]) r.tree.data.extra with
    | .ok _ => st := { st with ok := st.ok + 1 }
    | .stuck _ => st := { st with stuck := st.stuck + 1 }
    | .ambiguous =>
      match certifyReuseGLR L s r.tree.data.symbol w u.toList (shapeT r.tree 0 true #[]) r.tree.data.extra with
      | .ok _ => st := { st with amb := st.amb + 1 }
      | _ => st := { st with stuck := st.stuck + 1 }
    | .mismatch m => st := { st with bad := st.bad <|> some m }
  return st

def LangData.symName (d : LangData) (s : Nat) : String :=
  if s == symError then "ERROR" else if s == symErrorRepeat then "_ERROR"
  else (d.names.get? s).getD s!"?{s}"

structure St where
  langs : Std.HashMap String LangData := {}
  colFix : Bool := false
  eofFix : Bool := false
  cur : String := ""          -- language being defined
  mode : Nat := 0             -- 0 none 1 table 2 langdef 3 old 4 incr 5 scratch 6 walk_incr 7 walk_scratch 8 log
  id : String := ""
  lang : String := ""
  text2 : Array Nat := #[]
  apiIncr : Bool := false
  apiScratch : Bool := false
  old : Array String := #[]
  incr : Array String := #[]
  scratch : Array String := #[]
  walkIncr : Array String := #[]
  walkScratch : Array String := #[]
  log : Array String := #[]

def lineStarts (text : Array Nat) : Array Nat := Id.run do
  let mut a := #[0]
  for i in [0:text.size] do
    if text[i]! == 10 then a := a.push (i + 1)
  return a

/-- `key:value` fields of a log line after the event word, separated by ", ". -/
def field (rest : String) (key : String) : Option String :=
  (rest.splitOn ", ").findSome? fun kv =>
    if kv.startsWith (key ++ ":") then some ((kv.drop (key.length + 1)).toString) else none

def afterPrefix (line pre : String) : Option String :=
  if line.startsWith pre then some ((line.drop pre.length).toString) else none

def replayLine (L : Lang) (nm : Nat → String) (starts : Array Nat) (root : Tree) (s : RS) (line : String) : RS :=
  let s := if line.startsWith "state_mismatch " then s else s.flushShift
  if line == "parse_after_edit" then { s with it := Iter.reset root }
  else if let some r := afterPrefix line "different_included_range " then
    match r.splitOn " - " with
    | [a, b] => { s with diffs := s.diffs.push (natOf a, natOf b) }
    | _ => s
  else if let some r := afterPrefix line "process " then
    let st := natOf ((field r "state").getD "0")
    let row := natOf ((field r "row").getD "0")
    let col := natOf ((field r "col").getD "0")
    s.process st ((starts[row]?.getD 0) + col) col
  else if let some r := afterPrefix line "before_reusable_node symbol:" then s.gateEvent L nm .before r
  else if let some r := afterPrefix line "past_reusable_node symbol:" then s.gateEvent L nm .past r
  else if let some r := afterPrefix line "reusable_node_has_different_external_scanner_state symbol:" then s.gateEvent L nm .extState r
  else if let some r := afterPrefix line "cant_reuse_node_has_changes tree:" then s.gateEvent L nm .hasChanges r
  else if let some r := afterPrefix line "cant_reuse_node_is_error tree:" then s.gateEvent L nm .isError r
  else if let some r := afterPrefix line "cant_reuse_node_is_missing tree:" then s.gateEvent L nm .isMissing r
  else if let some r := afterPrefix line "cant_reuse_node_is_fragile tree:" then s.gateEvent L nm .isFragile r
  else if let some r := afterPrefix line "cant_reuse_node_contains_different_included_range tree:" then s.gateEvent L nm .rangeDiff r
  else if let some r := afterPrefix line "cant_reuse_node symbol:" then
    s.gateEvent L nm .firstLeaf ((r.splitOn ", first_leaf_symbol:").headD "")
  else if let some r := afterPrefix line "reuse_node symbol:" then s.gateEvent L nm .reuse r
  else if let some r := afterPrefix line "state_mismatch sym:" then s.stateMismatch nm r
  else if line.startsWith "breakdown_top_of_stack " then { s with state := none, stateKnown := false }
  else if line.startsWith "reduce " then { s with stateKnown := false }
  else if line.startsWith "shift state:" || line == "shift_extra" then s.shift
  else if line.startsWith "lexed_lookahead " then { s with lexed := s.lexed + 1, relexed := s.relexed || s.didReuse }
  else s

def runCase (s : St) : String :=
  match s.langs.get? s.lang, parseDump s.old.toList, parseDump s.incr.toList, parseDump s.scratch.toList with
  | some ld, some o, some i, some sc =>
    let (j, clean) := match judge i.root sc.root s.walkIncr s.walkScratch s.apiIncr s.apiScratch with
      | .ok c => ("ok", c)
      | .fail m => ("FAIL " ++ m, false)
    let L := ld.toLang
    let starts := lineStarts s.text2
    let newExt := if dirtyTree i.root then none else some (extLeaves i.root 0 #[])
    let rs := s.log.foldl (replayLine L ld.symName starts o.root) ({ colFix := s.colFix, newExt := newExt, eofEnd := if s.eofFix then some o.root.totalBytes else none, newRanges := i.ranges.map (fun r => (r.start_byte, r.end_byte)) } : RS)
    -- diagnosis for known finding C01-eof-lookahead-range-added: a range difference starts at or
    -- after the end of the old tree's last included range (tokens that peeked the old end of input)
    let oldEnd := o.ranges.foldl (fun m r => max m r.end_byte) 0
    let beyond := rs.diffs.any (fun d => d.1 ≥ oldEnd)
    let lr := ld.toLR
    let doc := if clean then
        match validateDocument lr 1 sc.root with
        | .ok _ => "ok"
        | .stuck _ => "stuck"
        | .ambiguous =>
          match validateDocumentGLR lr 1 sc.root with
          | .ok _ => "glr_ok"
          | .mismatch m => "MISMATCH " ++ m
          | _ => "glr_stuck"
        | .mismatch m => "MISMATCH " ++ m
      else "skipped"
    let cs := certifyCase lr o.root i.root
    let (gl, glReused) := if clean && !dirtyTree o.root then
        match gloopValidate lr 1 o.root i.root sc.root with
        | .ok n => ("ok", n)
        | .skipped => ("skipped", 0)
        | .mismatch m => ("MISMATCH " ++ m, 0)
      else ("skipped", 0)
    let rx := if clean then relexCheck o.root sc.root rs.diffs.toList rs.eofEnd else {}
    let sortedDiffs := (rs.diffs.toList.zip (rs.diffs.toList.drop 1)).all (fun p => p.1.2 ≤ p.2.1) && rs.diffs.all (fun d => d.1 ≤ d.2)
    let corr := match rs.fail, cs.bad with
      | some m, _ => "DIFF " ++ m
      | none, some m => "DIFF reuse certificate: " ++ m
      | none, none => if gl.startsWith "MISMATCH" then "DIFF gate loop model: " ++ (gl.drop 9).toString else if doc.startsWith "MISMATCH" then "DIFF LR machine on the real table: " ++ (doc.drop 9).toString else "ok"
    s!"{s.id} judge={j} corr={corr} clean={if clean then 1 else 0} gate={rs.gate} match={rs.matched} undet={rs.undet} pos_uncertain={rs.posUncertain} reordered={rs.reordered} ext={rs.extChecked} bd={rs.bdChecked} index_skipped={rs.indexSkipped} refusals={rs.refusals} reused_inner={rs.reusedInner} reused_leaf={rs.reusedLeaf} reused_bytes={rs.reusedBytes} lexed={rs.lexed} nodes={i.root.size} rangediffs={rs.diffs.size} coldep={if rs.coldepSeen then 1 else 0} diff_beyond_old_end={if beyond then 1 else 0} lr_doc={(doc.splitOn " ").headD ""} cert_ok={cs.ok} cert_stuck={cs.stuck} cert_glr={cs.amb} cert_skipped={cs.skipped} gloop={(gl.splitOn " ").headD ""} gloop_reused={glReused} relex_checked={rx.checked} relex_equal={rx.equal} diffs_sorted={if sortedDiffs then 1 else 0} relex_note={(rx.bad.getD "-").replace " " "_"}"
  | none, _, _, _ => s!"{s.id} judge=BADINPUT corr=BADINPUT no tables for language {s.lang}"
  | _, _, _, _ => s!"{s.id} judge=BADINPUT corr=BADINPUT unreadable dump"

def updLang (s : St) (f : LangData → LangData) : St :=
  { s with langs := s.langs.insert s.cur (f ((s.langs.get? s.cur).getD {})) }

def step (s : St) (line : String) : IO St := do
  if line.isEmpty then return s
  match s.mode with
  | 1 =>
    match line.splitOn " " with
    | ["end"] => return { s with mode := 0 }
    | ["lm", _, a, b, c] => return updLang s fun d => { d with lexModes := d.lexModes.push { lexState := natOf a, extLexState := natOf b, reservedSet := natOf c } }
    | "te" :: st :: tok :: cnt :: reus :: acts =>
      let te : TableEntry := { actionCount := natOf cnt, reusable := natOf reus == 1 }
      return updLang s fun d => { d with entries := d.entries.insert (natOf st, natOf tok) te, actions := d.actions.insert (natOf st, natOf tok) acts }
    | ["gt", st, nt, nx] => return updLang s fun d => { d with gotos := d.gotos.insert (natOf st, natOf nt) (natOf nx) }
    | _ => return s
  | 2 =>
    match line.splitOn " " with
    | ["end"] => return { s with mode := 0 }
    | "sym" :: id :: vis :: _ :: _ :: _ :: nameParts =>
      return updLang s fun d => { d with names := d.names.insert (natOf id) (" ".intercalate nameParts), visibleSyms := if vis == "1" then d.visibleSyms.insert (natOf id) else d.visibleSyms }
    | _ => return s
  | 3 => if line == "end" then return { s with mode := 0 } else return { s with old := s.old.push line }
  | 4 => if line == "end" then return { s with mode := 0 } else return { s with incr := s.incr.push line }
  | 5 => if line == "end" then return { s with mode := 0 } else return { s with scratch := s.scratch.push line }
  | 6 => if line == "end" then return { s with mode := 0 } else return { s with walkIncr := s.walkIncr.push line }
  | 7 => if line == "end" then return { s with mode := 0 } else return { s with walkScratch := s.walkScratch.push line }
  | 8 => if line == "end" then return { s with mode := 0 } else return { s with log := s.log.push line }
  | _ =>
    match line.splitOn " " with
    | "table" :: id :: _ :: _ :: tc :: kct :: _ =>
      let s := { s with cur := id, mode := 1 }
      return updLang s fun d => { d with kct := natOf kct, tokenCount := natOf tc, lexModes := #[], entries := {}, actions := {}, gotos := {} }
    | ["langdef", id] => return { s with cur := id, mode := 2 }
    | ["variant", "colfix", v] => return { s with colFix := v == "1" }
    | ["variant", "eoffix", v] => return { s with eofFix := v == "1" }
    | ["case", id] =>
      return { s with id := id, lang := "", text2 := #[], old := #[], incr := #[], scratch := #[],
                      walkIncr := #[], walkScratch := #[], log := #[] }
    | ["lang", id] => return { s with lang := id }
    | ["text2", h] => return { s with text2 := (unhexBytes h).toArray }
    | ["api", a, b] => return { s with apiIncr := a == "1", apiScratch := b == "1" }
    | ["old"] => return { s with mode := 3 }
    | ["incr"] => return { s with mode := 4 }
    | ["scratch"] => return { s with mode := 5 }
    | ["walk_incr"] => return { s with mode := 6 }
    | ["walk_scratch"] => return { s with mode := 7 }
    | ["log"] => return { s with mode := 8 }
    | ["run"] => IO.println (runCase s); return s
    | _ => return s

def main : IO Unit := do
  let _ ← foldLines (← IO.getStdin) ({} : St) step
