import Std.Data.HashMap
import TsVerif.Common.IO
import TsVerif.C01.Judge
/-!
Driver for C01.  Input: language tables (from `tsv-cunit_c01`), symbol names (from the harness),
then cases (edited old tree dump, incremental tree dump, scratch tree dump, the two cursor walks,
the parser's log of the incremental parse).  Output per case:

`<id> judge=<ok|FAIL msg> corr=<ok|DIFF msg> clean=<0|1> gate=.. match=.. undet=.. refusals=..
 reused_inner=.. reused_leaf=.. reused_bytes=.. lexed=.. nodes=..`
-/
open TsVerif TsVerif.C01 TsGen

structure LangData where
  lexModes : Array LexMode := #[]
  entries : Std.HashMap (Nat × Nat) TableEntry := {}
  kct : Nat := 0
  names : Std.HashMap Nat String := {}

def LangData.toLang (d : LangData) : Lang :=
  { lexMode := fun s => d.lexModes[s]?.getD { lexState := 0, extLexState := 0, reservedSet := 0 }
    entry := fun s t => (d.entries.get? (s, t)).getD { actionCount := 0, reusable := false }
    keywordCaptureToken := d.kct }

def LangData.symName (d : LangData) (s : Nat) : String :=
  if s == symError then "ERROR" else if s == symErrorRepeat then "_ERROR"
  else (d.names.get? s).getD s!"?{s}"

structure St where
  langs : Std.HashMap String LangData := {}
  colFix : Bool := false
  cur : String := ""          -- language being defined
  mode : Nat := 0             -- 0 none 1 table 2 langdef 3 old 4 incr 5 scratch 6 walk_incr 7 walk_scratch 8 log
  id : String := ""
  lang : String := ""
  text2 : Array Nat := #[]
  apiIncr : Bool := false
  apiScratch : Bool := false
  old : Array String := #[]
  incr : Array String := #[]
  scratch : Array String := #[]
  walkIncr : Array String := #[]
  walkScratch : Array String := #[]
  log : Array String := #[]

def lineStarts (text : Array Nat) : Array Nat := Id.run do
  let mut a := #[0]
  for i in [0:text.size] do
    if text[i]! == 10 then a := a.push (i + 1)
  return a

/-- `key:value` fields of a log line after the event word, separated by ", ". -/
def field (rest : String) (key : String) : Option String :=
  (rest.splitOn ", ").findSome? fun kv =>
    if kv.startsWith (key ++ ":") then some ((kv.drop (key.length + 1)).toString) else none

def afterPrefix (line pre : String) : Option String :=
  if line.startsWith pre then some ((line.drop pre.length).toString) else none

def replayLine (L : Lang) (nm : Nat → String) (starts : Array Nat) (root : Tree) (s : RS) (line : String) : RS :=
  let s := if line.startsWith "state_mismatch " then s else s.flushShift
  if line == "parse_after_edit" then { s with it := Iter.reset root }
  else if let some r := afterPrefix line "different_included_range " then
    match r.splitOn " - " with
    | [a, b] => { s with diffs := s.diffs.push (natOf a, natOf b) }
    | _ => s
  else if let some r := afterPrefix line "process " then
    let st := natOf ((field r "state").getD "0")
    let row := natOf ((field r "row").getD "0")
    let col := natOf ((field r "col").getD "0")
    s.process st ((starts[row]?.getD 0) + col) col
  else if let some r := afterPrefix line "before_reusable_node symbol:" then s.gateEvent L nm .before r
  else if let some r := afterPrefix line "past_reusable_node symbol:" then s.gateEvent L nm .past r
  else if let some r := afterPrefix line "reusable_node_has_different_external_scanner_state symbol:" then s.gateEvent L nm .extState r
  else if let some r := afterPrefix line "cant_reuse_node_has_changes tree:" then s.gateEvent L nm .hasChanges r
  else if let some r := afterPrefix line "cant_reuse_node_is_error tree:" then s.gateEvent L nm .isError r
  else if let some r := afterPrefix line "cant_reuse_node_is_missing tree:" then s.gateEvent L nm .isMissing r
  else if let some r := afterPrefix line "cant_reuse_node_is_fragile tree:" then s.gateEvent L nm .isFragile r
  else if let some r := afterPrefix line "cant_reuse_node_contains_different_included_range tree:" then s.gateEvent L nm .rangeDiff r
  else if let some r := afterPrefix line "cant_reuse_node symbol:" then
    s.gateEvent L nm .firstLeaf ((r.splitOn ", first_leaf_symbol:").headD "")
  else if let some r := afterPrefix line "reuse_node symbol:" then s.gateEvent L nm .reuse r
  else if let some r := afterPrefix line "state_mismatch sym:" then s.stateMismatch nm r
  else if line.startsWith "breakdown_top_of_stack " then { s with state := none, stateKnown := false }
  else if line.startsWith "reduce " then { s with stateKnown := false }
  else if line.startsWith "shift state:" || line == "shift_extra" then s.shift
  else if line.startsWith "lexed_lookahead " then { s with lexed := s.lexed + 1, relexed := s.relexed || s.didReuse }
  else s

def runCase (s : St) : String :=
  match s.langs.get? s.lang, parseDump s.old.toList, parseDump s.incr.toList, parseDump s.scratch.toList with
  | some ld, some o, some i, some sc =>
    let (j, clean) := match judge i.root sc.root s.walkIncr s.walkScratch s.apiIncr s.apiScratch with
      | .ok c => ("ok", c)
      | .fail m => ("FAIL " ++ m, false)
    let L := ld.toLang
    let starts := lineStarts s.text2
    let rs := s.log.foldl (replayLine L ld.symName starts o.root) ({ colFix := s.colFix } : RS)
    -- diagnosis for known finding C01-eof-lookahead-range-added: a range difference starts at or
    -- after the end of the old tree's last included range (tokens that peeked the old end of input)
    let oldEnd := o.ranges.foldl (fun m r => max m r.end_byte) 0
    let beyond := rs.diffs.any (fun d => d.1 ≥ oldEnd)
    let corr := match rs.fail with
      | none => "ok"
      | some m => "DIFF " ++ m
    s!"{s.id} judge={j} corr={corr} clean={if clean then 1 else 0} gate={rs.gate} match={rs.matched} undet={rs.undet} bd={rs.bdChecked} index_skipped={rs.indexSkipped} refusals={rs.refusals} reused_inner={rs.reusedInner} reused_leaf={rs.reusedLeaf} reused_bytes={rs.reusedBytes} lexed={rs.lexed} nodes={i.root.size} rangediffs={rs.diffs.size} coldep={if rs.coldepSeen then 1 else 0} diff_beyond_old_end={if beyond then 1 else 0}"
  | none, _, _, _ => s!"{s.id} judge=BADINPUT corr=BADINPUT no tables for language {s.lang}"
  | _, _, _, _ => s!"{s.id} judge=BADINPUT corr=BADINPUT unreadable dump"

def updLang (s : St) (f : LangData → LangData) : St :=
  { s with langs := s.langs.insert s.cur (f ((s.langs.get? s.cur).getD {})) }

def step (s : St) (line : String) : IO St := do
  if line.isEmpty then return s
  match s.mode with
  | 1 =>
    match line.splitOn " " with
    | ["end"] => return { s with mode := 0 }
    | ["lm", _, a, b, c] => return updLang s fun d => { d with lexModes := d.lexModes.push { lexState := natOf a, extLexState := natOf b, reservedSet := natOf c } }
    | "te" :: st :: tok :: cnt :: reus :: _ =>
      return updLang s fun d => { d with entries := d.entries.insert (natOf st, natOf tok) { actionCount := natOf cnt, reusable := natOf reus == 1 } }
    | _ => return s
  | 2 =>
    match line.splitOn " " with
    | ["end"] => return { s with mode := 0 }
    | "sym" :: id :: _ :: _ :: _ :: _ :: nameParts =>
      return updLang s fun d => { d with names := d.names.insert (natOf id) (" ".intercalate nameParts) }
    | _ => return s
  | 3 => if line == "end" then return { s with mode := 0 } else return { s with old := s.old.push line }
  | 4 => if line == "end" then return { s with mode := 0 } else return { s with incr := s.incr.push line }
  | 5 => if line == "end" then return { s with mode := 0 } else return { s with scratch := s.scratch.push line }
  | 6 => if line == "end" then return { s with mode := 0 } else return { s with walkIncr := s.walkIncr.push line }
  | 7 => if line == "end" then return { s with mode := 0 } else return { s with walkScratch := s.walkScratch.push line }
  | 8 => if line == "end" then return { s with mode := 0 } else return { s with log := s.log.push line }
  | _ =>
    match line.splitOn " " with
    | "table" :: id :: _ :: _ :: _ :: kct :: _ =>
      let s := { s with cur := id, mode := 1 }
      return updLang s fun d => { d with kct := natOf kct, lexModes := #[], entries := {} }
    | ["langdef", id] => return { s with cur := id, mode := 2 }
    | ["variant", "colfix", v] => return { s with colFix := v == "1" }
    | ["case", id] =>
      return { s with id := id, lang := "", text2 := #[], old := #[], incr := #[], scratch := #[],
                      walkIncr := #[], walkScratch := #[], log := #[] }
    | ["lang", id] => return { s with lang := id }
    | ["text2", h] => return { s with text2 := (unhexBytes h).toArray }
    | ["api", a, b] => return { s with apiIncr := a == "1", apiScratch := b == "1" }
    | ["old"] => return { s with mode := 3 }
    | ["incr"] => return { s with mode := 4 }
    | ["scratch"] => return { s with mode := 5 }
    | ["walk_incr"] => return { s with mode := 6 }
    | ["walk_scratch"] => return { s with mode := 7 }
    | ["log"] => return { s with mode := 8 }
    | ["run"] => IO.println (runCase s); return s
    | _ => return s

def main : IO Unit := do
  let _ ← foldLines (← IO.getStdin) ({} : St) step
