-- Driver stub for C01 (replaced when the property's model driver is written).
def main : IO Unit := IO.println "C01: no driver yet"
