import TsVerif.Common.IO
import TsVerif.GenRaw.Basic
import TsVerif.GenRaw.Edit
import TsVerif.GenRaw.Consts
import TsVerif.GenRaw.Query
import TsVerif.GenRaw.Parser
/-!
`tsv-gen`: evaluates the *regenerated raw* definitions (TsGenRaw) on the same argument lines as `tsv-cunit`
evaluates the C functions (translator validation).
-/
open TsGenRaw TsVerif
open TsGen (TSPoint TSRange TSInputEdit Length TSQuantifier ErrorStatus ErrorComparison)

def P (a : Array Nat) (i : Nat) : TSPoint := { row := a[i]!, column := a[i+1]! }
def L (a : Array Nat) (i : Nat) : Length := { bytes := a[i]!, extent := P a (i+1) }
def pp (p : TSPoint) : String := s!"{p.row} {p.column}"
def pl (l : Length) : String := s!"{l.bytes} {pp l.extent}"
def pb (b : Bool) : String := if b then "1" else "0"
def E (a : Array Nat) (i : Nat) : TSInputEdit :=
  { start_byte := a[i]!, old_end_byte := a[i+1]!, new_end_byte := a[i+2]!
    start_point := P a (i+3), old_end_point := P a (i+5), new_end_point := P a (i+7) }
def qOf : Nat → TSQuantifier
  | 0 => .TSQuantifierZero | 1 => .TSQuantifierZeroOrOne | 2 => .TSQuantifierZeroOrMore
  | 3 => .TSQuantifierOne | _ => .TSQuantifierOneOrMore
def qTo : TSQuantifier → Nat
  | .TSQuantifierZero => 0 | .TSQuantifierZeroOrOne => 1 | .TSQuantifierZeroOrMore => 2
  | .TSQuantifierOne => 3 | .TSQuantifierOneOrMore => 4

def ES (a : Array Nat) (i : Nat) : ErrorStatus :=
  { cost := a[i]!, node_count := a[i+1]!, dynamic_precedence := (a[i+2]! : Int) - 1000000, is_in_error := a[i+3]! != 0 }
def cTo : ErrorComparison → Nat
  | .ErrorComparisonTakeLeft => 0 | .ErrorComparisonPreferLeft => 1 | .ErrorComparisonNone => 2
  | .ErrorComparisonPreferRight => 3 | .ErrorComparisonTakeRight => 4

def eval (fn : String) (a : Array Nat) : String :=
  match fn with
  | "point_add" => pp (point_add (P a 0) (P a 2))
  | "point_sub" => pp (point_sub (P a 0) (P a 2))
  | "point_lte" => pb (point_lte (P a 0) (P a 2))
  | "point_lt" => pb (point_lt (P a 0) (P a 2))
  | "point_gt" => pb (point_gt (P a 0) (P a 2))
  | "point_gte" => pb (point_gte (P a 0) (P a 2))
  | "point_eq" => pb (point_eq (P a 0) (P a 2))
  | "length_add" => pl (length_add (L a 0) (L a 3))
  | "length_sub" => pl (length_sub (L a 0) (L a 3))
  | "length_min" => pl (length_min (L a 0) (L a 3))
  | "length_saturating_sub" => pl (length_saturating_sub (L a 0) (L a 3))
  | "length_is_undefined" => pb (length_is_undefined (L a 0))
  | "length_backtrack" => pl (length_backtrack (L a 0) (L a 3))
  | "ts_subtree_can_inline" => pb (ts_subtree_can_inline (L a 0) (L a 3) a[6]!)
  | "ts_point_edit" =>
    let r := ts_point_edit (P a 0) a[2]! (E a 3)
    s!"{pp r.1} {r.2}"
  | "ts_range_edit" =>
    let r : TSRange := { start_point := P a 0, end_point := P a 2, start_byte := a[4]!, end_byte := a[5]! }
    let r := ts_range_edit r (E a 6)
    s!"{pp r.start_point} {pp r.end_point} {r.start_byte} {r.end_byte}"
  | "quantifier_mul" => toString (qTo (quantifier_mul (qOf a[0]!) (qOf a[1]!)))
  | "quantifier_join" => toString (qTo (quantifier_join (qOf a[0]!) (qOf a[1]!)))
  | "quantifier_add" => toString (qTo (quantifier_add (qOf a[0]!) (qOf a[1]!)))
  | "compare_versions" => toString (cTo (ts_parser__compare_versions (ES a 0) (ES a 4)))
  | "const2" => toString MAX_COST_DIFFERENCE
  | "const" => s!"{TS_MAX_INLINE_TREE_LENGTH} {TS_MAX_TREE_POOL_SIZE} {ERROR_COST_PER_RECOVERY} {ERROR_COST_PER_MISSING_TREE} {ERROR_COST_PER_SKIPPED_TREE} {ERROR_COST_PER_SKIPPED_LINE} {ERROR_COST_PER_SKIPPED_CHAR} {MAX_LINK_COUNT} {MAX_NODE_POOL_SIZE} {MAX_ITERATOR_COUNT}"
  | _ => "unknown"

def main : IO Unit := do
  let _ ← foldLines (← IO.getStdin) () fun _ line => do
    match line.splitOn " " with
    | fn :: args =>
      let nums := ((args.filter (· ≠ "")).map (fun s => s.toNat?.getD 0)).toArray ++ Array.replicate 16 0
      IO.println (eval fn nums)
    | _ => pure ()
