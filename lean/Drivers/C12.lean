-- Driver stub for C12 (replaced when the property's model driver is written).
def main : IO Unit := IO.println "C12: no driver yet"
