import Std.Data.HashMap
import TsVerif.Common.IO
import TsVerif.C12.Judge
import TsVerif.C12.Shape
/-!
Driver for C12.  Input: `thr <lang> <size> <lexed_ppm> <bytes_ppm> <fresh_ppm> <freshvis_ppm>` lines, then cases
(measurements of the real runtime + dumps before the edit / after `ts_tree_edit` / after the
re-parse), then `finish`.  Output per case

`<id> judge=<ok|FAIL msg> marks=<ok|skipped|FAIL msg> lexed_ppm=.. bytes_ppm=.. fresh_ppm=.. tokens=.. nodes=.. heap=.. shared=.. marked=.. depth=..`

and per (language, edit position) one line `growth-<lang>-<where> judge=<ok|FAIL msg> …`.
-/
open TsVerif TsVerif.C12 TsGen

structure St where
  thr : Std.HashMap (String × Nat) Thresholds := {}
  series : Std.HashMap (String × String) (Array (Nat × Measured)) := {}
  keys : Array (String × String) := #[]
  noGrowth : Array String := #[]
  mode : Nat := 0
  id : String := ""
  lang : String := ""
  size : Nat := 0
  wher : String := ""
  start : Nat := 0
  oldEnd : Nat := 0
  newEnd : Nat := 0
  meas : Std.HashMap String Nat := {}
  before : Array String := #[]
  edited : Array String := #[]
  new : Array String := #[]

def runCase (s : St) : String × Option Measured :=
  match parseDump s.edited.toList, parseDump s.new.toList with
  | some ed, some nw =>
    let g := fun k => (s.meas.get? k).getD 0
    let sh := shareStats ed.root nw.root
    let m : Measured := { lexedPpm := ppm (g "lexed") (g "tokens"), bytesPpm := ppm (g "bytes_served") (g "doc_bytes")
                          freshPpm := ppm (sh.heap - sh.shared) sh.heap
                          freshVisPpm := ppm (sh.visHeap - sh.visShared) sh.visHeap }
    let (marks, mk) := match parseDump s.before.toList with
      | some bf =>
        let r := marksOk s.start s.oldEnd bf.root ed.root
        ((match r.fail with | none => "ok" | some msg => "FAIL " ++ msg), r)
      | none => ("skipped", ({} : Marks))
    -- the global marking bound of `marked_total_bound_partial`, its hypotheses evaluated on the real tree
    let (glob, globS) := match parseDump s.before.toList with
      | some bf =>
        let t := bf.root
        let h := height t
        let w := s.oldEnd - s.start
        let reach := reachTotal t s.start s.oldEnd h
        let bound := (h + 1) * (w + maxLa t + 2) + zerosTotal t h
        let r := (marksOk s.start s.oldEnd bf.root ed.root).marked
        let msg :=
          if !tiles t then "FAIL tiling obligation: some inner node's bytes are not the sum of its children's"
          else if noCol t && r > reach then s!"FAIL {r} marked nodes but only {reach} nodes reach the edit"
          else if reach > bound then s!"FAIL {reach} reaching nodes exceed the proved bound {bound}"
          else "ok"
        -- `edit_candidates_total_bound` (Round11b) decided on the real dumps: premises on the tree
        -- before the edit, counts on the real output of `ts_tree_edit`
        let prem := clean t && noCol t && tiles t && decide (s.start ≤ s.oldEnd)
        let tipsB := w + maxLa t + 2 + zeros t
        let cDesc := desc ed.root
        let cTips := tips ed.root
        let cFront := front ed.root
        let candB := 1 + tipsB * (h + 1) * maxFan t
        let msg :=
          if msg != "ok" then msg
          else if prem && cTips > tipsB then s!"FAIL {cTips} marked paths exceed the proved bound {tipsB} (tips_bound)"
          else if prem && cDesc > tipsB * (h + 1) then s!"FAIL {cDesc} descended marked nodes exceed the proved bound {tipsB * (h + 1)}"
          else if prem && cFront > candB then s!"FAIL {cFront} reuse candidates exceed the proved bound {candB}"
          else if height ed.root != h || maxFan ed.root != maxFan t then "FAIL ts_tree_edit changed the shape of the tree (edit_shape)"
          else "ok"
        (s!"tiles={if tiles t then 1 else 0} height={h} max_la={maxLa t} zero_width={zerosTotal t h} reach={reach} bound={bound} cand_prem={if prem then 1 else 0} desc={cDesc} tips={cTips} cand={cFront} tips_bound={tipsB} cand_bound={candB} fanout={maxFan t}", msg)
      | none => ("tiles=- reach=- bound=-", "skipped")
    -- `reparse_work_bound_partial` on the real re-parse: uncovered nodes of the NEW tree vs the bound
    let work := if s.size ≤ 20000 then
        let oldA := collectAddrs ed.root {}
        let sh : Tree → Bool := fun t => t.data.addr != 0 && oldA.contains t.data.addr
        let t := nw.root
        let h := height t
        let unc := uncoveredTotal sh t h
        let stray := strayTotal sh t s.start s.newEnd h
        let bound := (h + 1) * ((s.newEnd - s.start) + maxLa t + 2) + zerosTotal t h
        s!"uncovered={unc} stray={stray} work_bound={bound} work_ok={if tiles t && unc ≤ bound + stray then 1 else 0}"
      else "uncovered=- stray=- work_bound=- work_ok=-"
    let bal := balanced nw.root
    let balS := match bal.fail with | none => "ok" | some m => "FAIL " ++ m
    let j := match s.thr.get? (s.lang, s.size) with
      | none => s!"FAIL no threshold committed for {s.lang} at {s.size} tokens"
      | some thr =>
        match judgeCase thr m (g "incr_error" == 1) (g "scratch_error" == 1) (g "same_sexp" == 1) (g "lexed") with
        | some msg => "FAIL " ++ msg
        | none => if marks.startsWith "FAIL" then "FAIL marking: " ++ (marks.drop 5).toString
                  else if balS.startsWith "FAIL" then "FAIL not balanced: " ++ (balS.drop 5).toString
                  else if globS.startsWith "FAIL" then "FAIL global marking bound: " ++ (globS.drop 5).toString
                  else if (work.splitOn "work_ok=0").length > 1 then "FAIL re-parse work bound: uncovered nodes exceed bound + stray (or the new tree does not tile)" else "ok"
    (s!"{s.id} judge={j} marks={marks} lexed_ppm={m.lexedPpm} bytes_ppm={m.bytesPpm} fresh_ppm={m.freshPpm} freshvis_ppm={m.freshVisPpm} tokens={g "tokens"} lexed={g "lexed"} nodes={sh.nodes} heap={sh.heap} shared={sh.shared} vis_heap={sh.visHeap} vis_shared={sh.visShared} marked={mk.marked} max_marked_kids={mk.maxMarkedKids} depth={mk.maxDepth} chains={bal.chains} chain_max_elems={bal.maxElems} chain_max_height={bal.maxHeight} balance_slack={bal.worstSlack} {glob} {work}", some m)
  | _, _ => (s!"{s.id} judge=BADINPUT unreadable dump", none)

def growthLines (s : St) : Array String := Id.run do
  let mut out := #[]
  for key in s.keys do
    if s.noGrowth.contains key.1 then continue
    let ser := ((s.series.get? key).getD #[]).qsort (fun a b => a.1 < b.1)
    if ser.size < 2 then
      out := out.push s!"growth-{key.1}-{key.2} judge=FAIL fewer than two sizes measured"
      continue
    let (n0, m0) := ser[0]!
    let mut bad := ""
    for (n, m) in ser.toList.drop 1 do
      if !growthOk m0.lexedPpm m.lexedPpm then bad := s!"lexed fraction grows from {m0.lexedPpm} ppm at {n0} tokens to {m.lexedPpm} ppm at {n}"
      else if !growthOk m0.bytesPpm m.bytesPpm then bad := s!"requested-bytes fraction grows from {m0.bytesPpm} ppm at {n0} tokens to {m.bytesPpm} ppm at {n}"
      else if !growthOk m0.freshPpm m.freshPpm then bad := s!"fresh-node fraction grows from {m0.freshPpm} ppm at {n0} tokens to {m.freshPpm} ppm at {n}"
      else if !growthOk m0.freshVisPpm m.freshVisPpm then bad := s!"fresh visible-node fraction grows from {m0.freshVisPpm} ppm at {n0} tokens to {m.freshVisPpm} ppm at {n}"
    let last := ser[ser.size - 1]!
    out := out.push s!"growth-{key.1}-{key.2} judge={if bad.isEmpty then "ok" else "FAIL " ++ bad} sizes={ser.size} lexed_small={m0.lexedPpm} lexed_big={last.2.lexedPpm} bytes_small={m0.bytesPpm} bytes_big={last.2.bytesPpm} fresh_small={m0.freshPpm} fresh_big={last.2.freshPpm} freshvis_small={m0.freshVisPpm} freshvis_big={last.2.freshVisPpm}"
  return out

def step (s : St) (line : String) : IO St := do
  if line.isEmpty then return s
  match s.mode with
  | 1 => if line == "end" then return { s with mode := 0 } else return { s with before := s.before.push line }
  | 2 => if line == "end" then return { s with mode := 0 } else return { s with edited := s.edited.push line }
  | 3 => if line == "end" then return { s with mode := 0 } else return { s with new := s.new.push line }
  | _ =>
    match line.splitOn " " with
    | ["thr", lang, size, a, b, c, d] =>
      return { s with thr := s.thr.insert (lang, natOf size) { lexed := natOf a, bytes := natOf b, fresh := natOf c, freshVis := natOf d } }
    | ["nogrowth", lang] => return { s with noGrowth := s.noGrowth.push lang }
    | ["case", id] => return { s with id := id, before := #[], edited := #[], new := #[], meas := {} }
    | ["lang", l] => return { s with lang := l }
    | ["size", n] => return { s with size := natOf n }
    | ["where", w] => return { s with wher := w }
    | "edit" :: sb :: oeb :: neb :: _ => return { s with start := natOf sb, oldEnd := natOf oeb, newEnd := natOf neb }
    | "measure" :: kvs =>
      let m := kvs.foldl (fun (m : Std.HashMap String Nat) kv =>
        match kv.splitOn "=" with
        | [k, v] => m.insert k (natOf v)
        | _ => m) {}
      return { s with meas := m }
    | ["before"] => return { s with mode := 1 }
    | ["edited"] => return { s with mode := 2 }
    | ["new"] => return { s with mode := 3 }
    | ["run"] =>
      let (line, m) := runCase s
      IO.println line
      match m with
      | some m =>
        let key := (s.lang, s.wher)
        let keys := if s.series.contains key then s.keys else s.keys.push key
        return { s with keys := keys, series := s.series.insert key (((s.series.get? key).getD #[]).push (s.size, m)),
                        before := #[], edited := #[], new := #[] }
      | none => return s
    | ["finish"] =>
      for l in growthLines s do IO.println l
      return s
    | _ => return s

def main : IO Unit := do
  let _ ← foldLines (← IO.getStdin) ({} : St) step
