import Lean.Data.Json
import Std.Data.HashMap
import TsVerif.Common.IO
import TsVerif.Common.Tree
import TsVerif.C16.Judge
import TsVerif.C16.DeriveExec
import TsVerif.C16.Inline
import TsVerif.C16.DriverTie
/-!
Driver for C16.  Input = explorer ops (spec / nodetypes / Rust-API answers) followed by the output of
the C unit (table dumps, answers of the real C functions, real parse trees).  Output: one line per
language `L-<id> …` and one per tree `<case> …`.
-/
open TsVerif TsVerif.C16 Lean

def strOfHex (h : String) : String :=
  if h == "-" then "" else
  let bytes := (unhexBytes h).map (fun n => UInt8.ofNat n)
  match String.fromUTF8? (ByteArray.mk bytes.toArray) with
  | some s => s
  | none => "�" ++ h

def bytesOfHex (h : String) : List Nat := if h == "-" then [] else unhexBytes h

def nats (ws : List String) : Array Nat := (ws.map natOf).toArray

/-- "a:b:c" → [a,b,c] -/
def colon (w : String) : List Nat := (w.splitOn ":").map natOf

-- node-types.json → NodeTypes -------------------------------------------------------------------

def jStr (j : Json) (k : String) : String := ((j.getObjVal? k).toOption.bind (·.getStr?.toOption)).getD ""
def jBool (j : Json) (k : String) : Bool := ((j.getObjVal? k).toOption.bind (·.getBool?.toOption)).getD false
def jArr (j : Json) (k : String) : Option (Array Json) := (j.getObjVal? k).toOption.bind (·.getArr?.toOption)

def typeRefOf (j : Json) : TypeRef := { kind := jStr j "type", named := jBool j "named" }
def specOf (j : Json) : ChildSpec :=
  { required := jBool j "required", multiple := jBool j "multiple",
    types := ((jArr j "types").getD #[]).toList.map typeRefOf }

def entryOf (j : Json) : Entry :=
  let fields : List (String × ChildSpec) := match (j.getObjVal? "fields").toOption with
    | some (.obj kvs) => kvs.foldl (fun acc k v => acc ++ [(k, specOf v)]) []
    | _ => []
  { ty := typeRefOf j, fields := fields,
    children := (j.getObjVal? "children").toOption.map specOf,
    subtypes := (jArr j "subtypes").map (fun a => a.toList.map typeRefOf),
    extra := jBool j "extra", root := jBool j "root" }

def parseNodeTypes (text : String) : Option NodeTypes :=
  match Json.parse text with
  | .ok (.arr xs) => some (xs.toList.map entryOf)
  | _ => none

-- state ------------------------------------------------------------------------------------------

structure LangInfo where
  L : Lang := default
  aliasCount : Nat := 0
  fieldCount : Nat := 0
  smallLen : Nat := 0
  nt : Option NodeTypes := none
  rla : Array (List Nat) := #[]
  rrt : Array (Nat × Bool × Bool × Bool × Nat × List Nat) := #[]   -- id vis named sup back name
  rfld : Array (Nat × Nat) := #[]
  rout : String := ""
  nz : Array (List (Nat × Nat)) := #[]
  la : Array (List Yield) := #[]
  laEnd : Array Nat := #[]
  syms : Array (SymInfo × Nat) := #[]       -- with the real symbol_for_name answer
  probes : Array (Bool × List Nat × Nat) := #[]
  flds : Array (List Nat × Nat) := #[]      -- name, real field_id_for_name answer
  sups : Array (Nat × List Nat) := #[]      -- supertype symbol, runtime subtypes (ts_language_subtypes)
  names : Array (List Nat) := #[]
  gsyms : Array (Bool × Nat × Char × String) := #[]          -- is_rule, var, visibility, name
  gprods : Array (Nat × List Derive.Step) := #[]             -- (var, production)
  groots : List Nat := []
  reds : Array (Nat × Nat × List (Nat × Nat)) := #[]        -- reduce actions: symbol, child count, own fields (child index, field id)
  pas : Array (Nat × List C03.Action) := #[]                  -- action index ↦ decoded actions
  lexModes : Array Nat := #[]
  ginl : List Nat := []
  gextra : List Nat := []
  gorig : Nat := 0
  gskip : String := ""
  deriving Inhabited

structure Flat where
  depth : Nat
  ty : TypeRef
  extra : Bool
  fields : List String

structure St where
  langs : Std.HashMap String LangInfo := {}
  cur : String := ""
  exact : Bool := false
  -- current tree
  tcase : String := ""
  tlang : String := ""
  flat : Array Flat := #[]
  accs : List (Nat × Nat × Nat) := []
  accn : Array (Nat × List Nat) := #[]

def St.upd (s : St) (id : String) (f : LangInfo → LangInfo) : St :=
  { s with langs := s.langs.insert id (f (s.langs.getD id {})) }

partial def buildKids (xs : Array Flat) (i depth : Nat) (acc : Array VT) : Array VT × Nat :=
  if h : i < xs.size then
    let x := xs[i]
    if x.depth == depth then
      let (kids, j) := buildKids xs (i + 1) (depth + 1) #[]
      buildKids xs j depth (acc.push (.node x.ty x.extra x.fields kids.toList))
    else (acc, i)
  else (acc, i)

def firstFail {α} (xs : List α) (f : α → Option String) : Option String :=
  xs.findSome? f

def showName (bs : List Nat) : String := strOfHex (String.join (bs.map (fun b => (String.singleton (Nat.digitChar (b / 16))) ++ String.singleton (Nat.digitChar (b % 16)))))

/-- `Closed` on real data: G = the grammar's productions (flattened by the explorer), I = the real
node-types.json for every visible rule (type lists expanded through `subtypes`) + the least
information of the hidden rules.  Returns "ok …", "FAIL …" or "SKIP …". -/
def evalModelClosed (li : LangInfo) : String :=
  if li.gskip != "" then s!"SKIP {li.gskip}" else
  match li.nt with
  | none => "SKIP no-node-types"
  | some nt =>
    if li.gsyms.isEmpty then "SKIP no-productions" else
    let tyOf (vis : Char) (name : String) : Option TypeRef :=
      if vis == 'n' then some ⟨name, true⟩ else if vis == 'a' then some ⟨name, false⟩ else none
    let syms : List Derive.SymKind := li.gsyms.toList.map (fun (isRule, var, vis, name) =>
      if isRule then .rule var (tyOf vis name) else .token (tyOf vis name))
    let nvars := (li.gsyms.toList.filter (·.1)).length
    let prods : List (List (List Derive.Step)) := (List.range nvars).map (fun v =>
      (li.gprods.toList.filter (·.1 == v)).map (·.2))
    let G0 : Derive.Grammar := { syms := syms, prods := prods }
    -- process_inlines: substitution rounds of the Lean model (theorem `inline_round`) until no reference is left
    match Derive.inlineRounds li.ginl 20000 6 G0 with
    | none => "SKIP inlining-too-large-or-recursive"
    | some G =>
    let varSyms := li.gsyms.toList.filter (·.1)
    let expand (ts : List TypeRef) : List TypeRef := (closure nt (closureFuel nt) ts).getD ts
    -- every anonymous kind of the grammar (anonymous children without a field are not described by the file)
    let anon : List TypeRef := (li.gsyms.toList.filterMap (fun (_, _, vis, name) => if vis == 'a' then some (⟨name, false⟩ : TypeRef) else none)) ++
      (li.gprods.toList.flatMap (fun (_, p) => p.filterMap (fun s => match s.alias with | some a => if a.named then none else some a | none => none)))
    let hidden : List Nat := (List.range nvars).filter (fun v => match varSyms[v]? with | some (_, _, vis, _) => vis == 'h' | none => true)
    let init : Derive.InfoF := (List.range nvars).map (fun v =>
      match varSyms[v]? with
      | some (_, _, vis, name) =>
        if vis == 'h' then { childMin := 2, plainMin := 2, fields := (Derive.fieldUniverse G []).eraseDups.map (fun f => (f, [], 0, 2)) } else
        match nt.find? (fun e => e.ty == (⟨name, vis == 'n'⟩ : TypeRef)) with
        | none => {}
        | some e =>
          let fields := e.fields.map (fun (f, sp) => (f, expand sp.types, (if sp.multiple then 2 else 1), (if sp.required then 1 else 0)))
          let plain := match e.children with | some sp => expand sp.types | none => []
          { children := (fields.flatMap (·.2.1)) ++ plain ++ anon, childMax := 2, childMin := 0, fields := fields,
            plain := plain,
            plainMax := (match e.children with | some sp => if sp.multiple then 2 else 1 | none => 0),
            plainMin := (match e.children with | some sp => if sp.required then 1 else 0 | none => 0) }
      | none => {})
    let F := Derive.fieldUniverse G init
    let I := Derive.iterate G F hidden (4 * nvars + 16) init
    -- only the variables the file has to describe (start rule, extras, referenced ones) and the hidden ones are checked
    let checked : List Nat := (List.range nvars).filter (fun v => li.groots.contains v)
    let Gc : Derive.Grammar := { G with prods := (List.range nvars).map (fun v => if checked.contains v then G.prodsOf v else []) }
    -- extras: every visible extra of the grammar is marked `extra: true` in the file
    let extraBad := li.gextra.findSome? (fun sid => match li.gsyms[sid]? with
      | some (_, _, vis, name) => match tyOf vis name with
        | some ty => if nt.any (fun e => e.ty == ty && e.extra) then none else some name
        | none => none
      | none => none)
    -- correspondence of the flattened + inlined productions with the REAL ones: for every named rule the set of
    -- (child count, own field by child index) of its model productions = that of the real reduce actions
    let insertSorted (x : Nat × String) (l : List (Nat × String)) : List (Nat × String) :=
      let (a, b) := l.span (fun y => y.1 < x.1 || (y.1 == x.1 && y.2 < x.2)); a ++ x :: b
    let sortF (l : List (Nat × String)) : List (Nat × String) := l.foldr insertSorted []
    let fieldName (fid : Nat) : String := match li.flds[fid - 1]? with | some (bs, _) => showName bs | none => s!"?{fid}"
    let shapeBad := (List.range nvars).findSome? (fun v => match varSyms[v]? with
      | some (_, _, vis, name) =>
        if vis != 'n' || v ≥ li.gorig || li.ginl.contains v then none else
        -- the non-terminal symbol with the rule's name; when a default alias publishes ANOTHER rule under the same name
        -- (two candidates) the rule is not compared
        let cands := (List.range li.L.symbolCount).filter (fun i => i ≥ li.L.tokenCount && (match li.syms[i]? with
          | some (si, _) => si.named && si.visible && showName si.name == name | none => false))
        let ids := if cands.length == 1 then cands else []
        let real := (li.reds.toList.filter (fun (sy, _, _) => ids.contains sy)).map (fun (_, cc, fs) => (cc, sortF (fs.map (fun (i, fid) => (i, fieldName fid)))))
        let model := (G.prodsOf v).map (fun p => (p.length, sortF (p.zipIdx.filterMap (fun (st, i) => st.field.map (fun f => (i, f))))))
        if ids.isEmpty then none else
        match real.find? (fun r => !model.contains r) with
        | some r => some s!"{name}/real-production-not-in-model:{r.1}:{r.2.map (fun (i, f) => s!"{i}.{f}")}"
        | none => match model.find? (fun m => !real.contains m) with
          | some m => some s!"{name}/model-production-not-real:{m.1}:{m.2.map (fun (i, f) => s!"{i}.{f}")}"
          | none => none
      | none => none)
    let shapeVars := ((List.range nvars).filter (fun v => match varSyms[v]? with
      | some (_, _, vis, name) => vis == 'n' && v < li.gorig && !li.ginl.contains v &&
          ((List.range li.L.symbolCount).filter (fun i => i ≥ li.L.tokenCount && (match li.syms[i]? with
            | some (si, _) => si.named && si.visible && showName si.name == name | none => false))).length == 1
      | none => false)).length
    -- every kind the (inlined) productions of a described rule can show is a kind of the language's symbol table
    let kindBad : Option TypeRef := checked.findSome? (fun v => (G.prodsOf v).findSome? (fun p => p.findSome? (fun st =>
      match Derive.visTy G st with
      | some ty => if li.syms.any (fun (si, _) => si.visible && si.named == ty.named && showName si.name == ty.kind) then none else some ty
      | none => none)))
    match kindBad with
    | some ty => s!"FAIL var={ty.kind.replace " " "_"}/derivable-kind-without-symbol prod=0"
    | none =>
    match shapeBad with
    | some what => s!"FAIL var={what.replace " " ""} prod=shape"
    | none =>
    match extraBad with
    | some name => s!"FAIL var={name}/extra-flag prod=0"
    | none =>
    if Derive.closedB Gc I then s!"ok vars={nvars} hidden={hidden.length} prods={li.gprods.size} inlined={li.ginl.length} prods_after={G.prods.foldl (fun a ps => a + ps.length) 0} extras={li.gextra.length} reds={li.reds.size} shapevars={shapeVars}"
    else match Derive.firstOpen Gc I with
      | some (v, i) =>
        let name := match varSyms[v]? with | some (_, _, vis, name) => s!"{name}/{vis}" | none => "?"
        s!"FAIL var={name} prod={i}"
      | none => "FAIL"

/-- language-level evaluation, printed at `endlang` -/
def evalLang (exact : Bool) (id : String) (li : LangInfo) : String :=
  let L := li.L
  let wf := tableWF L
  let states := List.range L.stateCount
  -- correspondence: ports vs real functions, all states
  let corrLa := firstFail states (fun s =>
    if modelYields L s == li.la.getD s [] then none else some s!"state={s}")
  let corrLookup := firstFail states (fun s =>
    if modelNonzero L s == li.nz.getD s [] then none else some s!"state={s}")
  -- judge on the real outputs
  let judgeLa := firstFail states (fun s =>
    if !judgeLookahead (li.la.getD s []) (li.nz.getD s []) then some s!"iterator-vs-table state={s}"
    else if li.laEnd.getD s 1 != 0 then some s!"iterator-restarts state={s}"
    else if (li.rla.getD s []) != (li.la.getD s []).map (·.1) then some s!"rust-iterator state={s}"
    else none)
  -- how the real function treats proper prefixes of "ERROR" is observed, not read off the source:
  -- the probe `ER` (named) answers 65535 exactly when the comparison is by prefix
  let exact := exact || !(li.probes.any (fun (named, name, r) => named && name == [69, 82] && r == errorSym))
  let T : SymTab := { exactError := exact, syms := li.syms.toList.map (·.1), fieldNames := li.flds.toList.map (·.1) }
  let corrNames :=
    (firstFail li.syms.toList (fun (si, real) =>
      if symbolForName T si.name si.named == real then none else some s!"symbol_for_name {showName si.name}")).orElse fun _ =>
    (firstFail li.probes.toList (fun (named, name, real) =>
      if symbolForName T name named == real then none else some s!"probe {showName name}")).orElse fun _ =>
    (firstFail li.flds.toList (fun (name, real) =>
      if fieldIdForName T name == real then none else some s!"field_id_for_name {showName name}"))
  let judgeNames :=
    (firstFail li.syms.toList (fun (si, real) =>
      if si.hasKind && real != si.pub && !(si.named && isErrorPrefix si.name && real == errorSym && !exact) then
        some s!"symbol-roundtrip kind={showName si.name} named={si.named} got={real} want={si.pub}" else none)).orElse fun _ =>
    (firstFail li.syms.toList (fun (si, real) =>
      if si.hasKind && real != si.pub then some s!"symbol-roundtrip-error-prefix kind={showName si.name} named={si.named} got={real} want={si.pub}" else none)).orElse fun _ =>
    (if pubConsistent T then none else some "public-symbol-map-inconsistent").orElse fun _ =>
    (if decide T.fieldNames.Nodup then none else some "duplicate-field-name").orElse fun _ =>
    (firstFail (List.range li.flds.size) (fun i =>
      if (li.flds.getD i ([], 0)).2 == i + 1 then none else some s!"field-roundtrip id={i + 1}")).orElse fun _ =>
    (firstFail li.rrt.toList (fun (k, vis, _named, sup, back, name) =>
      let si := (li.syms.getD k (default, 0)).1
      if (vis || sup) && back != si.pub && !(isErrorPrefix name && back == errorSym) then some s!"rust-kind-roundtrip id={k} kind={showName name} got={back} want={si.pub}"
      else if name != si.name then some s!"rust-kind-name id={k}" else none)).orElse fun _ =>
    (firstFail li.rfld.toList (fun (f, back) => if f == back then none else some s!"rust-field-roundtrip id={f}")).orElse fun _ =>
    (if li.rout == "0 0" || li.rout == "" then none else some s!"out-of-range-id-has-name {li.rout}")
  let refOf (sym : Nat) : TypeRef :=
    let si := (li.syms.getD sym (default, 0)).1
    { kind := showName si.name, named := si.named }
  let judgeSup := match li.nt with
    | none => none
    | some nt => firstFail li.sups.toList (fun (sym, subs) =>
        if subtypesAgree nt (refOf sym) (subs.map refOf) then none else some s!"subtypes-of {(refOf sym).kind}")
  -- the decoded table the C03 driver reads (cells: real ts_language_lookup values, action lists: real parse_actions)
  let paSize := li.pas.foldl (fun m (i, _) => max m (i + 1)) 0
  let paArr : Array (List C03.Action) := li.pas.foldl (fun a (i, as) => a.set! i as) (Array.replicate paSize [])
  let actRows : Array (List (Nat × List C03.Action)) := states.toArray.map (fun s => ((li.nz.getD s []).filter (fun (sym, _) => sym < L.tokenCount)).map (fun (sym, v) => (sym, paArr.getD v [])))
  let tbl : C03.Table := { symbolCount := L.symbolCount, tokenCount := L.tokenCount, stateCount := L.stateCount, lexState := li.lexModes, acts := actRows }
  let judgeActs : Option String :=
    if li.pas.isEmpty then some "no-action-dump"
    else if !actsAgree L tbl then some "decoded-cell-without-raw-entry"
    else if !cellsHaveActions L tbl then some "listed-terminal-without-actions"
    else none
  let actCells := (tbl.acts.toList.map List.length).foldl (· + ·) 0
  -- ts_language_symbol_type (through the Rust binding's three questions) vs the port on the dumped metadata
  let corrSymType := firstFail li.rrt.toList (fun (k, vis, named, sup, _, _) =>
    if kindFlags (li.syms.getD k (default, 0)).1 == (vis, named, sup) then none else some s!"symbol_type id={k}")
  -- every kind a node can carry has an entry in node-types.json, and every entry is such a kind
  let bytesOf (x : String) : List Nat := x.toUTF8.toList.map (·.toNat)
  let inlinedNames : List (List Nat) := li.ginl.filterMap (fun v => ((li.gsyms.toList.filter (·.1))[v]?).map (fun (_, _, _, name) => bytesOf name))
  let judgeListed : Option String := match li.nt with
    | none => none
    | some nt =>
      let entries := nt.map (fun e => (bytesOf e.ty.kind, e.ty.named, e.subtypes.isSome))
      if kindsListed T inlinedNames entries then none else
        match T.syms.find? (fun sy => sy.visible && !inlinedNames.contains sy.name && !entries.any (fun e => e.1 == sy.name && e.2.1 == sy.named && !e.2.2)) with
        | some sy => some s!"kind-without-entry kind={showName sy.name} named={sy.named}"
        | none => some "supertype-without-entry"
  let spurious := match li.nt with
    | some nt => (spuriousEntries T (nt.map (fun (e : Entry) => (bytesOf e.ty.kind, e.ty.named, e.subtypes.isSome)))).length
    | none => 0
  let modelNames := namesRoundTrip T
  let ntwf := match li.nt with | some nt => if ntWF nt then "ok" else "FAIL" | none => "MISSING"
  let r (o : Option String) := match o with | none => "ok" | some m => "FAIL " ++ m
  let total := (li.la.toList.map List.length).foldl (· + ·) 0
  s!"L-{id} tablewf={if wf then "ok" else "FAIL"} corr_la={r corrLa} corr_lookup={r corrLookup} corr_names={r corrNames} " ++
  s!"model_closed={evalModelClosed li} " ++
  s!"judge_la={r judgeLa} judge_names={r judgeNames} judge_sup={r judgeSup} judge_listed={r judgeListed} spurious_entries={spurious} corr_symtype={r corrSymType} judge_acts={r judgeActs} actcells={actCells} supertypes={li.sups.size} model_names={modelNames} ntwf={ntwf} states={L.stateCount} large={L.largeStateCount} " ++
  s!"symbols={L.symbolCount} aliases={li.aliasCount} fields={li.fieldCount} listed={total} entries={(li.nt.getD []).length}"

def viaSuper (nt : NodeTypes) : VT → Nat
  | .node ty _ _ kids =>
    match nt.find? (fun e => e.ty == ty) with
    | none => 0
    | some e => (kids.filter (fun k => !k.extra && (
        k.fields.any (fun f => (e.fields.any (fun fs => fs.1 == f && !fs.2.types.contains k.ty))) ||
        (k.fields.isEmpty && k.ty.named && (match e.children with | some sp => !sp.types.contains k.ty | none => false))))).length

partial def sumTree (f : VT → Nat) : VT → Nat
  | .node ty e fl kids => f (.node ty e fl kids) + (kids.map (sumTree f)).foldl (· + ·) 0

def evalTree (s : St) (stats : String) : String :=
  match s.langs.get? s.tlang with
  | none => s!"{s.tcase} judge=NOLANG"
  | some li =>
    let (roots, _) := buildKids s.flat 0 0 #[]
    match roots.toList, li.nt with
    | [root], some nt =>
      let ok := checkConforms nt root
      let j := if ok then "ok" else match firstBad nt [] root with
        | some (path, ty) =>
          let reason := if nt.any (fun e => e.ty == ty) then "entry-mismatch" else "unlisted-type"
          s!"FAIL node-types reason={reason} type={ty.kind} tnamed={ty.named} path={path}"
        | none => "FAIL node-types"
      let acc1 := firstFail s.accs (fun (st, sym, leaf) =>
        if listed li.la st sym then none else some s!"state={st} sym={sym} leaf={leaf}")
      let acc2 := firstFail s.accn.toList (fun (st, name) =>
        if listedName li.la li.names st name then none else some s!"state={st} name={showName name}")
      let acc := match acc1.orElse (fun _ => acc2) with | none => "ok" | some m => "FAIL not-listed " ++ m
      let vs := sumTree (viaSuper nt) root
      let j := if j != "ok" then j
        else if !rootMarked nt root then s!"FAIL node-types reason=root-not-marked type={root.ty.kind} tnamed={root.ty.named} path=[]"
        else match extraUnmarked nt root with
          | some ty => s!"FAIL node-types reason=extra-not-marked type={ty.kind} tnamed={ty.named} path=[]"
          | none => "ok"
      s!"{s.tcase} judge={j} acc={acc} accpairs={s.accs.length + s.accn.size} viasuper={vs} {stats}"
    | _, none => s!"{s.tcase} judge=NONODETYPES"
    | _, _ => s!"{s.tcase} judge=BADTREE"

def step (s : St) (line : String) : IO St := do
  let ws := line.splitOn " "
  match ws with
  | ["cfg", "errormode", m] => return { s with exact := m == "exact" }
  | ["gsym", id, _, kind, var, vis, name] =>
    return s.upd id (fun li => { li with gsyms := li.gsyms.push (kind == "R", natOf var, vis.toList.headD 'h', strOfHex name) })
  | ["gprod", id, var, steps] =>
    let ps : List Derive.Step := if steps == "-" then [] else (steps.splitOn ";").map (fun w => match w.splitOn "," with
      | [sy, f, ak, an] => { sym := natOf sy, field := (if f == "-" then none else some (strOfHex f)),
                             alias := (if ak == "-" then none else some ⟨strOfHex an, ak == "n"⟩) }
      | _ => default)
    return s.upd id (fun li => { li with gprods := li.gprods.push (natOf var, ps) })
  | ["gend", id, roots] => return s.upd id (fun li => { li with groots := (roots.splitOn ",").map natOf })
  | ["ginl", id, vs] => return s.upd id (fun li => { li with ginl := if vs == "-" then [] else (vs.splitOn ",").map natOf })
  | ["gorig", id, n] => return s.upd id (fun li => { li with gorig := natOf n })
  | ["gextra", id, vs] => return s.upd id (fun li => { li with gextra := if vs == "-" then [] else (vs.splitOn ",").map natOf })
  | ["gskip", id, why] => return s.upd id (fun li => { li with gskip := why })
  | ["nodetypes", id, h] =>
    return s.upd id (fun li => { li with nt := parseNodeTypes (strOfHex h) })
  | ["rla", id, st, syms] =>
    let l := if syms == "-" then [] else (syms.splitOn ",").map natOf
    return s.upd id (fun li => { li with rla := (li.rla.setIfInBounds (natOf st) l |> fun a => if a.size ≤ natOf st then a.push l else a) })
  | ["rrt", id, k, vis, named, sup, back, name] =>
    return s.upd id (fun li => { li with rrt := li.rrt.push (natOf k, vis == "1", named == "1", sup == "1", natOf back, bytesOfHex name) })
  | ["rfld", id, f, back, _] => return s.upd id (fun li => { li with rfld := li.rfld.push (natOf f, natOf back) })
  | ["rout", id, a, b] => return s.upd id (fun li => { li with rout := a ++ " " ++ b })
  | ["lang", id, sc, ac, tc, stc, lsc, fc, sl, _kct] =>
    let lang : Lang := { symbolCount := natOf sc, tokenCount := natOf tc, stateCount := natOf stc, largeStateCount := natOf lsc, parseTable := #[], smallTable := #[], smallMap := #[], actionCounts := #[] }
    let s := s.upd id (fun li => { li with aliasCount := natOf ac, fieldCount := natOf fc, smallLen := natOf sl, L := lang })
    return { s with cur := id }
  | "pt" :: rest => return s.upd s.cur (fun li => { li with L := { li.L with parseTable := nats rest } })
  | "spt" :: rest => return s.upd s.cur (fun li => { li with L := { li.L with smallTable := nats rest } })
  | "spm" :: rest => return s.upd s.cur (fun li => { li with L := { li.L with smallMap := nats rest } })
  | "ac" :: rest => return s.upd s.cur (fun li => { li with L := { li.L with actionCounts := nats rest } })
  | "nz" :: _ :: rest =>
    let l := rest.map (fun w => match colon w with | [a, b] => (a, b) | _ => (0, 0))
    return s.upd s.cur (fun li => { li with nz := li.nz.push l })
  | "la" :: _ :: rest =>
    let ys : List Yield := (rest.filter (fun w => !w.startsWith "end:")).map (fun w => match colon w with | [a, b, c, d] => (a, b, c, d) | _ => (0, 0, 0, 0))
    let e := match rest.find? (fun w => w.startsWith "end:") with | some w => natOf (w.drop 4).toString | none => 1
    return s.upd s.cur (fun li => { li with la := li.la.push ys, laEnd := li.laEnd.push e })
  | ["sym", _, vis, named, sup, pub, name, sfn] =>
    let nm := if name == "?" then [] else bytesOfHex name
    return s.upd s.cur (fun li => { li with
      syms := li.syms.push ({ name := nm, visible := vis == "1", named := named == "1", supertype := sup == "1", pub := natOf pub }, natOf sfn),
      names := li.names.push nm })
  | ["probe", named, name, r] => return s.upd s.cur (fun li => { li with probes := li.probes.push (named == "1", bytesOfHex name, natOf r) })
  | ["sup", sym, subs] =>
    let l := if subs == "-" then [] else (subs.splitOn ",").map natOf
    return s.upd s.cur (fun li => { li with sups := li.sups.push (natOf sym, l) })
  | "pa" :: idx :: rest => return s.upd s.cur (fun li => { li with pas := li.pas.push (natOf idx, rest.filterMap C03.parseAction) })
  | "lm" :: rest => return s.upd s.cur (fun li => { li with lexModes := (rest.map natOf).toArray })
  | "red" :: sym :: cc :: _ :: "f" :: rest =>
    let fs := (rest.takeWhile (· != "a")).map (fun w => match colon w with | [a, b] => (a, b) | _ => (0, 0))
    return s.upd s.cur (fun li => { li with reds := li.reds.push (natOf sym, natOf cc, fs) })
  | ["fld", _, name, r] => return s.upd s.cur (fun li => { li with flds := li.flds.push (bytesOfHex name, natOf r) })
  | ["endlang", id] =>
    IO.println (evalLang s.exact id (s.langs.getD id {}))
    return s
  | "tree" :: cid :: lang :: status :: _ =>
    if status != "ok" then IO.println s!"{cid} skipped={status}"
    return { s with tcase := cid, tlang := lang, flat := #[], accs := [], accn := #[] }
  | ["v", depth, _sym, named, extra, kind, fields] =>
    let fl := if fields == "-" then [] else (fields.splitOn ",").map strOfHex
    return { s with flat := s.flat.push { depth := natOf depth, ty := { kind := strOfHex kind, named := named == "1" }, extra := extra == "1", fields := fl } }
  | "accs" :: rest =>
    return { s with accs := rest.filterMap (fun w => match colon w with | [a, b, c] => some (a, b, c) | _ => none) }
  | ["accn", st, name] => return { s with accn := s.accn.push (natOf st, bytesOfHex name) }
  | "endtree" :: _ :: stats =>
    IO.println (evalTree s (" ".intercalate stats))
    return { s with flat := #[], accs := [], accn := #[] }
  | _ => return s

def main : IO Unit := do
  let _ ← foldLines (← IO.getStdin) ({} : St) step
