-- Driver stub for C16 (replaced when the property's model driver is written).
def main : IO Unit := IO.println "C16: no driver yet"
