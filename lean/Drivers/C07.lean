import TsVerif.Common.IO
import TsVerif.C07.Judge
/-!
Driver for C07.  Input lines (written by harness/src/bin/c07.rs):

    hist <id> kind=.. lang=.. allocs=.. live_delta=<n>
    dump <id> hasext=<0|1>  … dump_tree lines …  enddump
    arrcase <id> / arrop <op…> / arrreal <size> <cap> c0 c1 … / arrend <id> ops=.. answered=..
    inlq <id> pb pr pc sb sr sc la | inl can=.. inline=.. rb=pb pr pc sb sr sc la

Output: `<id> kind=<hist|dump|arr|inl> corr=<ok|na|DIFF:…> judge=<ok|FAIL:…> …`.
-/
open TsVerif TsVerif.C07 TsGen

structure St where
  dumpId : String := ""
  hasExt : Bool := false
  lines : Array String := #[]
  inDump : Bool := false
  arr : Arr := { contents := [], capacity := 0 }
  arrId : String := ""
  arrOp : List String := []
  arrBad : Option String := none
  arrJudge : Option String := none
  arrN : Nat := 0

def kvGet (ws : List String) (k : String) : String :=
  (ws.findSome? fun w => match w.splitOn "=" with | [a, b] => if a == k then some b else none | _ => none).getD ""

def step (s : St) (line : String) : IO St := do
  if s.inDump then
    if line == "enddump" then
      let j := match parseDump s.lines.toList with
        | some d => (match judgeTree s.hasExt d.root with | some e => s!"FAIL:{e}" | none => "ok")
        | none => "FAIL:unreadable-dump"
      IO.println s!"{s.dumpId} kind=dump corr=na judge={j} nodes={s.lines.size}"
      return { s with inDump := false, lines := #[] }
    else return { s with lines := s.lines.push line }
  match line.splitOn " " with
  | "hist" :: id :: ws =>
    let d := (kvGet ws "live_delta").toInt?.getD 1
    let j := if judgeBalance d then "ok" else s!"FAIL:allocator-balance:{d}"
    IO.println s!"{id} kind=hist corr=na judge={j} hkind={kvGet ws "kind"} lang={kvGet ws "lang"} allocs={kvGet ws "allocs"}"
    return s
  | ["dump", id, he] => return { s with dumpId := id, hasExt := he == "hasext=1", inDump := true, lines := #[] }
  | ["arrcase", id] => return { s with arr := { contents := [], capacity := 0 }, arrId := id, arrBad := none, arrJudge := none, arrN := 0 }
  | "arrop" :: op => return { s with arrOp := op }
  | "arrreal" :: sz :: cap :: cs =>
    let acc := accessesOf s.arr s.arrOp
    let a' := applyArr s.arr s.arrOp
    let real : Arr := { contents := cs.map natOf, capacity := natOf cap }
    let bad := if a' == real && natOf sz == real.size then s.arrBad
      else s.arrBad <|> some s!"op#{s.arrN}:{" ".intercalate s.arrOp}:model=({a'.size},{a'.capacity}):real=({sz},{cap})"
    let jd := if decide (real.size ≤ real.capacity) && inBoundsB real.capacity acc then s.arrJudge
      else s.arrJudge <|> some s!"op#{s.arrN}:{" ".intercalate s.arrOp}:out-of-bounds-or-size>capacity"
    return { s with arr := a', arrBad := bad, arrJudge := jd, arrN := s.arrN + 1 }
  | "arrend" :: id :: ws =>
    let corr := match s.arrBad with | some b => s!"DIFF:{b}" | none => if kvGet ws "ops" == kvGet ws "answered" then "ok" else "DIFF:cunit-died"
    let j := match s.arrJudge with | some b => s!"FAIL:array:{b}" | none => "ok"
    IO.println s!"{id} kind=arr corr={corr} judge={j} ops={s.arrN}"
    return s
  | "inlq" :: id :: rest =>
    let (q, r) := rest.span (· != "|")
    let v := q.map natOf
    let r := r.drop 2
    let can := kvGet r "can" == "1"
    let inl := kvGet r "inline" == "1"
    let rb := ((r.dropWhile fun w => !w.startsWith "rb=").map fun w => natOf ((w.splitOn "=").getLast!))
    match v with
    | [pb, pr, pc, sb, sr, sc, la] =>
      let p : Length := ⟨pb, ⟨pr, pc⟩⟩
      let sz : Length := ⟨sb, ⟨sr, sc⟩⟩
      let m := ts_subtree_can_inline p sz la
      let corr := if m == can then "ok" else s!"DIFF:generated-can_inline={m}:real={can}"
      let expect := if inl then [pb, pr, pc, sb, 0, sb, la] else [pb, pr, pc, sb, sr, sc, la]
      let j := if inl != can then "FAIL:inline-decision-differs-from-can_inline"
        else if rb != expect then s!"FAIL:stored-value-truncated:stored={rb}:given={v}"
        else "ok"
      IO.println s!"{id} kind=inl corr={corr} judge={j} can={can}"
      return s
    | _ =>
      IO.println s!"{id} kind=inl corr=DIFF:bad-line judge=ok"
      return s
  | _ => return s

def main : IO Unit := do
  let _ ← foldLines (← IO.getStdin) ({} : St) step
