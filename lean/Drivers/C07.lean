import TsVerif.Common.IO
import TsVerif.C07.Judge
import TsVerif.C07.Ranges
import TsVerif.C07.Walks
import TsVerif.C06.Sexp
/-!
Driver for C07.  Input lines (written by harness/src/bin/c07.rs):

    hist <id> kind=.. lang=.. allocs=.. live_delta=<n>
    dump <id> hasext=<0|1>  … dump_tree lines …  enddump
    arrcase <id> / arrop <op…> / arrreal <size> <cap> c0 c1 … / arrend <id> ops=.. answered=..
    inlq <id> pb pr pc sb sr sc la | inl can=.. inline=.. rb=pb pr pc sb sr sc la
    crq <id> <n_old> s e … <n_new> s e … | cr fault=.. kind=.. off=.. acc_old=.. acc_new=.. out=..
    lxq <id> <hexdoc> <n> s e … | <ops> | lx fault=.. kind=.. off=.. acc=.. trace=..
    bitsq <id> | bits inline=.. pb=.. pr=.. pc=.. sb=.. la=.. links=.. maxlinks=..

Output: `<id> kind=<hist|dump|arr|inl> corr=<ok|na|DIFF:…> judge=<ok|FAIL:…> …`.
-/
open TsVerif TsVerif.C07 TsGen

structure St where
  dumpId : String := ""
  hasExt : Bool := false
  lines : Array String := #[]
  inDump : Bool := false
  arr : Arr := { contents := [], capacity := 0 }
  arrId : String := ""
  arrOp : List String := []
  arrBad : Option String := none
  arrJudge : Option String := none
  arrN : Nat := 0
  -- generic protocol state (one of pw / cl / al at a time)
  pw : PoolW := { cap := 0, enabled := false, pool := [], live := [], released := [], next := 0 }
  cl : CapPool := { inUse := [], max := 4294967295, freeCount := 0 }
  gr : Graph := []
  op : List String := []
  bad : Option String := none
  jbad : Option String := none
  n : Nat := 0
  /-- `list.size` the REAL capture-list pool reported after the previous operation -/
  clRealSize : Nat := 0
  -- ts_node_string cases
  langs : List (String × TsVerif.C02.Lang) := []
  defLang : Option (String × TsVerif.C02.Lang) := none
  inSexp : Bool := false
  sexpHead : List String := []

def kvGet (ws : List String) (k : String) : String :=
  (ws.findSome? fun w => match w.splitOn "=" with | [a, b] => if a == k then some b else none | _ => none).getD ""

def unhexStr (h : String) : String := TsVerif.C02.hexString h

def step (s : St) (line : String) : IO St := do
  -- language tables for the port of the S-expression writer
  if let some (id, l) := s.defLang then
    if line == "enddeflang" then return { s with defLang := none, langs := (id, l) :: s.langs }
    else return { s with defLang := some (id, l.addLine line) }
  if s.inSexp then
    if line == "endsexp" then
      let ws := s.sexpHead
      let id := ws.headD "?"
      let len := natOf (kvGet ws "len")
      let alloc := natOf (kvGet ws "alloc")
      let real := unhexStr (kvGet ws "str")
      let corr := match s.langs.lookup (kvGet ws "lang"), parseDump s.lines.toList with
        | some lang, some d =>
          let m := TsVerif.C06.nodeString lang d.root 0
          if m == real then "ok" else s!"DIFF:port-of-ts_subtree__write_to_string:{m.replace " " "_"}:real:{real.replace " " "_"}"
        | _, _ => "na"
      -- the buffer comes from the MEASURING pass, the content from the WRITING pass
      let j := if alloc != len + 1 then s!"FAIL:string-buffer:ts_node_string:allocated:{alloc}:written-incl-terminator:{len + 1}:{real.replace " " "_"}"
        else if kvGet ws "tail" != "1" then "FAIL:string-buffer:ts_node_string:guard-bytes-overwritten"
        else "ok"
      IO.println s!"{id} kind=sexp corr={corr} judge={j} len={len}"
      return { s with inSexp := false, lines := #[], sexpHead := [] }
    else return { s with lines := s.lines.push line }
  if s.inDump then
    if line == "enddump" then
      let j := match parseDump s.lines.toList with
        | some d => (match judgeTree s.hasExt d.root with | some e => s!"FAIL:{e}" | none => "ok")
        | none => "FAIL:unreadable-dump"
      IO.println s!"{s.dumpId} kind=dump corr=na judge={j} nodes={s.lines.size}"
      return { s with inDump := false, lines := #[] }
    else return { s with lines := s.lines.push line }
  match line.splitOn " " with
  | "hist" :: id :: ws =>
    let d := (kvGet ws "live_delta").toInt?.getD 1
    let lk := kvGet ws "leak"
    let me := kvGet ws "memerr"
    let qc := kvGet ws "qcrash"
    let j := if qc != "" then s!"FAIL:assertion-or-crash:Query-new:{qc}"
      else if me != "" then s!"FAIL:memory-corruption:{me}"
      else if judgeBalance d && lk == "" then "ok"
      else if lk != "" then s!"FAIL:allocator-balance:detail:{lk}"
      else s!"FAIL:allocator-balance:{d}"
    IO.println s!"{id} kind=hist corr=na judge={j} hkind={kvGet ws "kind"} lang={kvGet ws "lang"} allocs={kvGet ws "allocs"}"
    return s
  | ["dump", id, he] => return { s with dumpId := id, hasExt := he == "hasext=1", inDump := true, lines := #[] }
  | ["arrcase", id] => return { s with arr := { contents := [], capacity := 0 }, arrId := id, arrBad := none, arrJudge := none, arrN := 0 }
  | "arrop" :: op => return { s with arrOp := op }
  | "arrreal" :: sz :: cap :: cs =>
    let acc := accessesOf s.arr s.arrOp
    let a' := applyArr s.arr s.arrOp
    let real : Arr := { contents := cs.map natOf, capacity := natOf cap }
    let bad := if a' == real && natOf sz == real.size then s.arrBad
      else s.arrBad <|> some s!"op#{s.arrN}:{" ".intercalate s.arrOp}:model=({a'.size},{a'.capacity}):real=({sz},{cap})"
    let jd := if decide (real.size ≤ real.capacity) && inBoundsB real.capacity acc then s.arrJudge
      else s.arrJudge <|> some s!"op#{s.arrN}:{" ".intercalate s.arrOp}:out-of-bounds-or-size>capacity"
    return { s with arr := a', arrBad := bad, arrJudge := jd, arrN := s.arrN + 1 }
  | "arrend" :: id :: ws =>
    let corr := match s.arrBad with | some b => s!"DIFF:{b}" | none => if kvGet ws "ops" == kvGet ws "answered" then "ok" else "DIFF:cunit-died"
    let j := match s.arrJudge with | some b => s!"FAIL:array:{b}" | none => "ok"
    IO.println s!"{id} kind=arr corr={corr} judge={j} ops={s.arrN}"
    return s
  | "pwcase" :: _ :: ws =>
    return { s with pw := { cap := natOf (kvGet ws "cap"), enabled := kvGet ws "enabled" == "1", pool := [], live := [], released := [], next := 0 },
                    bad := none, jbad := none, n := 0 }
  | "pwop" :: op => return { s with op := op }
  | "pwreal" :: ws =>
    if s.op.head? == some "N" then return s else
    let liveBefore := s.pw.live
    let (w', obj) := applyPw s.pw s.op
    let ok := obj == kvGet ws "obj" && toString w'.pool.length == kvGet ws "pool" && toString w'.released.length == kvGet ws "frees"
    let bad := if ok then s.bad else s.bad <|> some s!"op#{s.n}:{" ".intercalate s.op}:model=(obj {obj},pool {w'.pool.length},frees {w'.released.length}):real=({kvGet ws "obj"},{kvGet ws "pool"},{kvGet ws "frees"})"
    -- judge on the real answer: cache within its cap; an allocation never returns a live object
    let realPool := natOf (kvGet ws "pool")
    let jb := if realPool > s.pw.cap then some s!"op#{s.n}:cache-exceeds-cap:{realPool}"
      else if s.op == ["A"] && liveBefore.contains (natOf (kvGet ws "obj")) then some s!"op#{s.n}:allocate-returned-live-object:{kvGet ws "obj"}"
      else if !poolOkB w' then some s!"op#{s.n}:model-invariant"
      else none
    return { s with pw := w', bad := bad, jbad := s.jbad <|> jb, n := s.n + 1 }
  | "pwend" :: id :: ws =>
    let corr := match s.bad with | some b => s!"DIFF:{b}" | none => if kvGet ws "ops" == kvGet ws "answered" then "ok" else "DIFF:cunit-died"
    let j := match s.jbad with | some b => s!"FAIL:pool:{b}" | none => "ok"
    IO.println s!"{id} kind=pw corr={corr} judge={j} ops={s.n}"
    return s
  | "clcase" :: _ => return { s with cl := { inUse := [], max := 4294967295, freeCount := 0 }, bad := none, jbad := none, n := 0, clRealSize := 0 }
  | "clop" :: op => return { s with op := op }
  | "clreal" :: ws =>
    let before := s.cl
    let (p', id) := applyCl s.cl s.op
    let ok := id == kvGet ws "id" && toString p'.inUse.length == kvGet ws "size" && toString p'.freeCount == kvGet ws "free" &&
      (if p'.isEmpty then "1" else "0") == kvGet ws "empty"
    let bad := if ok then s.bad else s.bad <|> some s!"op#{s.n}:{" ".intercalate s.op}:model=(id {id},size {p'.inUse.length},free {p'.freeCount}):real=({kvGet ws "id"},{kvGet ws "size"},{kvGet ws "free"})"
    let rid := kvGet ws "id"
    let jb := if s.op == ["A"] && rid != "NONE" && before.inUse.getD (natOf rid) false then some s!"op#{s.n}:acquire-returned-list-in-use:{rid}"
      else if natOf (kvGet ws "size") > before.max && s.op == ["A"] then some s!"op#{s.n}:pool-exceeds-limit"
      else if !capOkB p' then some s!"op#{s.n}:model-invariant"
      else
        -- the elements of list.contents this operation touches (Walks.lean) must exist in the REAL array
        let cop : Option CapOp := match s.op with
          | ["A"] => some .acquire
          | ["R", i] => some (.release (natOf i))
          | ["X"] => some .reset
          | _ => none
        match cop with
        | some o => if (capAccesses before o).all (fun i => decide (i < s.clRealSize)) then none
                    else some s!"op#{s.n}:access-beyond-real-list-size:{s.clRealSize}"
        | none => none
    let realSize := if s.op == ["N"] then 0 else natOf (kvGet ws "size")
    return { s with cl := p', bad := bad, jbad := s.jbad <|> jb, n := s.n + 1, clRealSize := realSize }
  | "clend" :: id :: ws =>
    let corr := match s.bad with | some b => s!"DIFF:{b}" | none => if kvGet ws "ops" == kvGet ws "answered" then "ok" else "DIFF:cunit-died"
    let j := match s.jbad with | some b => s!"FAIL:capture-pool:{b}" | none => "ok"
    IO.println s!"{id} kind=cl corr={corr} judge={j} ops={s.n}"
    return s
  | "alcase" :: _ => return { s with gr := [], bad := none, jbad := none, n := 0 }
  | "alop" :: op => return { s with op := op }
  | "alreal" :: ws =>
    let g' := applyAl s.gr s.op
    let real := " ".intercalate ws
    let ok := showGraph g' == real
    let bad := if ok then s.bad else s.bad <|> some s!"op#{s.n}:{" ".intercalate s.op}:model=[{showGraph g'}]:real=[{real}]"
    let tooMany := ws.any fun w => match w.splitOn ":" with
      | [_, ts] => ts != "" && (ts.splitOn ",").length > MAX_LINK_COUNT
      | _ => false
    let jb := if tooMany then some s!"op#{s.n}:link_count-exceeds-MAX_LINK_COUNT" else none
    return { s with gr := g', bad := bad, jbad := s.jbad <|> jb, n := s.n + 1 }
  | "alend" :: id :: ws =>
    let corr := match s.bad with | some b => s!"DIFF:{b}" | none => if kvGet ws "ops" == kvGet ws "answered" then "ok" else "DIFF:cunit-died"
    let j := match s.jbad with | some b => s!"FAIL:stack-links:{b}" | none => "ok"
    IO.println s!"{id} kind=al corr={corr} judge={j} ops={s.n}"
    return s
  | "essq" :: id :: ws =>
    let len := natOf (kvGet ws "len")
    let m := Ess.init (List.replicate len 0)
    let mc := m.1.copy
    let corr := if (if m.1.onHeap then "1" else "0") == kvGet ws "heap" && toString m.2 == kvGet ws "allocs" && toString mc.2 == kvGet ws "copyallocs" &&
        toString (m.1.delete + mc.1.delete) == kvGet ws "frees" then "ok"
      else s!"DIFF:model=(heap {m.1.onHeap},allocs {m.2},copy {mc.2},frees {m.1.delete + mc.1.delete})"
    let j := if kvGet ws "rb" != "1" || kvGet ws "copyrb" != "1" then "FAIL:ess:data-not-read-back"
      else if kvGet ws "eq" != "1" || kvGet ws "neq" != "1" then "FAIL:ess:eq-wrong"
      else if natOf (kvGet ws "allocs") + natOf (kvGet ws "copyallocs") != natOf (kvGet ws "frees") then "FAIL:ess:allocations-not-balanced"
      else "ok"
    IO.println s!"{id} kind=ess corr={corr} judge={j} len={len}"
    return s
  | ["deflang", id] => return { s with defLang := some (id, {}) }
  | "sexproot" :: ws => return { s with inSexp := true, sexpHead := ws, lines := #[] }
  | "sexpnode" :: id :: ws =>
    -- only written when the two passes disagree for an inner node
    let real := unhexStr (kvGet ws "str")
    IO.println s!"{id} kind=sexp corr=na judge=FAIL:string-buffer:ts_node_string:allocated:{kvGet ws "alloc"}:written-incl-terminator:{natOf (kvGet ws "len") + 1}:tail:{kvGet ws "tail"}:{real.replace " " "_"}"
    return s
  | "crq" :: id :: rest =>
    -- ts_range_array_get_changed_ranges on two range lists, arrays flush against a guard page
    let (q, r) := rest.span (· != "|")
    let v := q.map natOf
    let r := r.drop 2
    let rec pairs : List Nat → List BR
      | a :: b :: t => ⟨a, b⟩ :: pairs t
      | _ => []
    let no := v.headD 0
    let olds := pairs ((v.drop 1).take (2 * no))
    let nn := (v.drop (1 + 2 * no)).headD 0
    let news := pairs ((v.drop (2 + 2 * no)).take (2 * nn))
    let fault := kvGet r "fault" == "1"
    let conforming := kvGet r "acc_old" == "1" && kvGet r "acc_new" == "1"
    let showOut := fun (o : List (Nat × Nat)) => ",".intercalate (o.map fun (a, b) => s!"{a}-{b}")
    let fx := changedRanges .fixed olds news
    let af := changedRanges .asis olds news
    let realOut := kvGet r "out"
    let oob := af.1.filter fun rd => !decide (ReadOk olds news rd)
    let oobS := ",".intercalate (oob.map fun (isNew, i) => (if isNew then "new_ranges" else "old_ranges") ++ s!"[{i}]")
    let corr := if fault || !conforming then "na"
      else if fx.2.map showOut == some realOut || af.2.map showOut == some realOut then "ok"
      else s!"DIFF:real:{realOut}:model-fixed:{(fx.2.map showOut).getD "stuck"}:model-as-found:{(af.2.map showOut).getD "stuck"}"
    let j := if !conforming then "ok"
      else if fault then s!"FAIL:out-of-bounds-read:ts_range_array_get_changed_ranges:{kvGet r "kind"}:bytes-past-the-array:{kvGet r "off"}:model-of-the-loop-as-found-reads:{oobS}"
      else if !(fx.1.all fun rd => decide (ReadOk olds news rd)) then "FAIL:model-fixed-reads-out-of-bounds"
      else "ok"
    IO.println s!"{id} kind=cr corr={corr} judge={j} conforming={conforming} predicted_oob={oob.length}"
    return s
  | "lxq" :: id :: rest =>
    -- the real Lexer driven by a script; trace of (range cursor, count, chunk != NULL) after every op
    let r := (rest.reverse.takeWhile (· != "|")).reverse.drop 1
    let fault := kvGet r "fault" == "1"
    let acc := kvGet r "acc" == "1"
    let parseSt := fun (w : String) => match w.splitOn "/" with
      | [a, b, c] => some ({ idx := natOf a, count := natOf b, chunk := c == "1" } : LxS)
      | _ => none
    let entries := (kvGet r "trace").splitOn ","
    let states := entries.map fun e => match e.splitOn ":" with
      | [nm, st] => (nm, parseSt st)
      | _ => (e, none)
    let rec scan : List (String × Option LxS) → Option LxS → Option String
      | [], _ => none
      | (nm, some post) :: t, pre =>
        if post.idx > post.count then some s!"cursor-beyond-count:{nm}" else
        match pre with
        | some p =>
          if nm == "A" || nm == "K" then
            let variant := if p.idx == p.count && p.chunk && !post.chunk then Variant.asis else Variant.fixed
            if (advanceReads variant p).any (fun i => decide (p.count ≤ i)) then
              some s!"ts_lexer__advance:included_ranges[{p.idx}]-of-{p.count}:entered-at-the-end-with-a-chunk"
            else scan t (some post)
          else scan t (some post)
        | none => scan t (some post)
      | (nm, none) :: _, pre => some s!"ts_lexer__advance:fault-in-op-{nm}:state-before:{match pre with | some p => s!"{p.idx}/{p.count}/{p.chunk}" | none => "?"}"
    let j := if !acc then "ok"
      else match scan states none with
        | some e => s!"FAIL:out-of-bounds-read:{e}:guard-page-fault:{fault}"
        | none => if fault then s!"FAIL:out-of-bounds-read:lexer:{kvGet r "kind"}:off:{kvGet r "off"}" else "ok"
    IO.println s!"{id} kind=lx corr=na judge={j} ops={states.length}"
    return s
  | "bitsq" :: id :: rest =>
    -- compile-time facts of the real headers measured through the unity build, against the widths
    -- the theorems are about (`widths`) and the generated MAX_LINK_COUNT
    let r := rest.drop 2
    let w := widths
    let want := [("pb", 2 ^ w.padding_bytes - 1), ("pr", 2 ^ w.padding_rows - 1), ("pc", 2 ^ w.padding_columns - 1),
                 ("sb", 2 ^ w.size_bytes - 1), ("la", 2 ^ w.lookahead_bytes - 1), ("links", MAX_LINK_COUNT), ("maxlinks", MAX_LINK_COUNT),
                 ("inline", 1), ("sym300inline", 0), ("sym300rb", 300), ("extinline", 0),
                 ("capslots", maxStepCaptureCount), ("maxcaps", maxStepCaptureCount), ("stepdepth", 7), ("stepsym", 5), ("stepalt", 1)]
    let capsWant := ",".intercalate (((List.range 6).map (· + 1)).foldl (fun st c => addCapture st c) []|>.map toString)
    let bad := want.filter fun (k, v) => kvGet r k != toString v
    let bad := if kvGet r "caps" == capsWant then bad else bad ++ [("caps", 0)]
    let corr := if bad.isEmpty then "ok" else "DIFF:" ++ ",".intercalate (bad.map fun (k, v) => s!"{k}:model:{v}:real:{kvGet r k}")
    IO.println s!"{id} kind=bits corr={corr} judge=ok"
    return s
  | "inlq" :: id :: rest =>
    let (q, r) := rest.span (· != "|")
    let v := q.map natOf
    let r := r.drop 2
    let can := kvGet r "can" == "1"
    let inl := kvGet r "inline" == "1"
    let rb := ((r.dropWhile fun w => !w.startsWith "rb=").map fun w => natOf ((w.splitOn "=").getLast!))
    match v with
    | [pb, pr, pc, sb, sr, sc, la] =>
      let p : Length := ⟨pb, ⟨pr, pc⟩⟩
      let sz : Length := ⟨sb, ⟨sr, sc⟩⟩
      let m := ts_subtree_can_inline p sz la
      let corr := if m == can then "ok" else s!"DIFF:generated-can_inline={m}:real={can}"
      let expect := if inl then [pb, pr, pc, sb, 0, sb, la] else [pb, pr, pc, sb, sr, sc, la]
      let j := if inl != can then "FAIL:inline-decision-differs-from-can_inline"
        else if rb != expect then s!"FAIL:stored-value-truncated:stored={rb}:given={v}"
        else "ok"
      IO.println s!"{id} kind=inl corr={corr} judge={j} can={can}"
      return s
    | _ =>
      IO.println s!"{id} kind=inl corr=DIFF:bad-line judge=ok"
      return s
  | _ => return s

def main : IO Unit := do
  let _ ← foldLines (← IO.getStdin) ({} : St) step
