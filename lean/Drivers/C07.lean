-- Driver stub for C07 (replaced when the property's model driver is written).
def main : IO Unit := IO.println "C07: no driver yet"
