-- Driver stub for C14 (replaced when the property's model driver is written).
def main : IO Unit := IO.println "C14: no driver yet"
