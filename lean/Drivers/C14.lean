import TsVerif.Common.IO
import TsVerif.Common.Tree
import TsVerif.C14.Lex
import TsVerif.C14.Sep
import TsVerif.C14.Nested
/-!
Driver for C14.  Input: `set <id> <tokenset>` / `kw <idx,…|->` / `s <codepoints> <real leaves|E|->` / `endset <id>`.
Output per set: `S-<id> corr=… judge=… strings=… …`.
-/
open TsVerif TsVerif.C14 TsVerif.C14.Regex

def hexNat (s : String) : Nat := parseHexNat s

-- parser for the AST serialisation of harness/src/bin/c14.rs ---------------------------------------

def takeWhileIdx (cs : Array Char) (i : Nat) (p : Char → Bool) : Nat := Id.run do
  let mut j := i
  while j < cs.size && p cs[j]! do j := j + 1
  return j

def strOf (cs : Array Char) (i j : Nat) : String := String.ofList (cs.toList.drop i |>.take (j - i))

def ws : List (Nat × Nat) := [(9, 13), (32, 32)]

partial def parseRe (cs : Array Char) (i : Nat) : Regex × Nat :=
  let c := cs[i]!
  let i := i + 1
  match c with
  | 'L' =>
    let rec lits (i : Nat) (acc : List Nat) : List Nat × Nat :=
      let j := takeWhileIdx cs i (fun c => c.isDigit || ('a' ≤ c && c ≤ 'f'))
      let acc := if j > i then acc ++ [hexNat (strOf cs i j)] else acc
      if j < cs.size && cs[j]! == '.' then lits (j + 1) acc else (acc, j)
    let (v, j) := lits i []
    (lit v, j)
  | 'C' =>
    let neg := cs[i]! == '1'
    let rec rngs (i : Nat) (acc : List (Nat × Nat)) : List (Nat × Nat) × Nat :=
      if i < cs.size && cs[i]! == ':' then
        let j := takeWhileIdx cs (i + 1) (fun c => c.isDigit || ('a' ≤ c && c ≤ 'f'))
        let a := hexNat (strOf cs (i + 1) j)
        let k := takeWhileIdx cs (j + 1) (fun c => c.isDigit || ('a' ≤ c && c ≤ 'f'))
        let b := hexNat (strOf cs (j + 1) k)
        rngs k (acc ++ [(a, b)])
      else (acc, i)
    let (rs, j) := rngs (i + 1) []
    (.cls (if neg then rs ++ ws else rs) neg, j)
  | 'S' | 'A' =>
    let (a, j) := parseRe cs (i + 1)
    let (b, k) := parseRe cs (j + 1)
    ((if c == 'S' then .seq a b else .alt a b), k + 1)
  | 'K' | 'P' | 'O' =>
    let (a, j) := parseRe cs (i + 1)
    ((match c with | 'K' => .star a | 'P' => plus a | _ => opt a), j + 1)
  | 'U' =>
    -- Unicode property class; the ranges are exact on the code points the explorer ever puts into an
    -- input (ASCII, é É λ Λ, 😀), which is all the comparison needs
    let j := takeWhileIdx cs i (fun c => c != '.')
    let rs : List (Nat × Nat) := match strOf cs i j with
      | "L" => [(65, 90), (97, 122), (0xc9, 0xc9), (0xe9, 0xe9), (0x39b, 0x39b), (0x3bb, 0x3bb)]
      | "Lu" => [(65, 90), (0xc9, 0xc9), (0x39b, 0x39b)]
      | "Ll" => [(97, 122), (0xe9, 0xe9), (0x3bb, 0x3bb)]
      | "Nd" => [(48, 57)]
      | _ => [(0x21, 0x23), (0x25, 0x2a), (0x2c, 0x2f), (0x3a, 0x3b), (0x3f, 0x40), (0x5b, 0x5d), (0x5f, 0x5f), (0x7b, 0x7b), (0x7d, 0x7d)]
    (.cls rs false, j + 1)
  | 'R' =>
    let j := takeWhileIdx cs i Char.isDigit
    let m := (strOf cs i j).toNat!
    let k := takeWhileIdx cs (j + 1) Char.isDigit
    let n := (strOf cs (j + 1) k).toNat!
    let (a, e) := parseRe cs (k + 1)
    (rep a m n, e + 1)
  | _ => (.empty, i)

structure SetInfo where
  id : String := ""
  toks : List Token := []
  texts : List (Option (List Nat)) := []     -- literal text of String tokens
  word : Option Nat := none
  extras : Nat := 0
  masks : List Nat := []
  follow : Option (Nat × Nat) := none
  reserved : List Nat := []
  reservedB : Option (List Nat) := none   -- `reserved('alt', word)` in mode B
  kws : List Nat := []
  ambig : List Nat := []
  pres : List PRe := []     -- round 11b: the tokens with the precedence of every character position
  nested : Bool := false    -- some token has a `prec` on an inner part (`Z(…)` below the top of its AST)
  deriving Inhabited

/-- round 11b: the AST with the precedence in force at every leaf: `Z(p~a/q~b)` = `choice(prec(p, a), prec(q, b))` anywhere
in the AST (one member: `prec(p, a)`); everything without a `Z` inside is one leaf of the enclosing precedence -/
partial def parsePRe (cs : Array Char) (i : Nat) (p : Int) : PRe × Nat :=
  let c := cs[i]!
  match c with
  | 'S' | 'A' =>
    let (a, j) := parsePRe cs (i + 2) p
    let (b, k) := parsePRe cs (j + 1) p
    ((if c == 'S' then .seq a b else .alt a b), k + 1)
  | 'K' | 'P' | 'O' =>
    let (a, j) := parsePRe cs (i + 2) p
    ((match c with | 'K' => .star a | 'P' => .seq a (.star a) | _ => .alt a (.leaf p .eps)), j + 1)
  | 'Z' =>
    let rec go (i : Nat) (acc : Option PRe) : PRe × Nat :=
      let j := takeWhileIdx cs i (fun c => c != '~')
      let q := (strOf cs i j).toInt?.getD 0
      let (a, k) := parsePRe cs (j + 1) q
      let acc := match acc with | none => a | some x => PRe.alt x a
      if k < cs.size && cs[k]! == '/' then go (k + 1) (some acc) else (acc, k + 1)
    go (i + 2) none
  | _ =>
    let (r, j) := parseRe cs i
    (.leaf p r, j)

/-- `Z(p~ast/p~ast/…)`: alternatives with their own precedence -/
def parseAlts (a : String) : List (Int × Regex) :=
  if a.startsWith "Z(" then
    let inner := ((a.drop 2).toString.dropEnd 1).toString
    (inner.splitOn "/").filterMap (fun alt => match alt.splitOn "~" with
      | [p, ast] => some (p.toInt?.getD 0, (parseRe ast.toList.toArray 0).1)
      | _ => none)
  else []

def altRegex : List (Int × Regex) → Regex
  | [] => .empty
  | [(_, r)] => r
  | (_, r) :: rest => .alt r (altRegex rest)

/-- the `i` flag: every class leaf is closed under simple case folding before negation
(crates/generate/src/prepare_grammar/pattern.rs); only the letters the explorer uses are folded:
ASCII letters, é/É, λ/Λ -/
def foldRanges (rs : List (Nat × Nat)) : List (Nat × Nat) :=
  rs ++ rs.flatMap (fun (lo, hi) =>
    let lower := if max lo 97 ≤ min hi 122 then [(max lo 97 - 32, min hi 122 - 32)] else []
    let upper := if max lo 65 ≤ min hi 90 then [(max lo 65 + 32, min hi 90 + 32)] else []
    let pair (a b : Nat) := (if lo ≤ a && a ≤ hi then [(b, b)] else []) ++ (if lo ≤ b && b ≤ hi then [(a, a)] else [])
    lower ++ upper ++ pair 0xe9 0xc9 ++ pair 0x3bb 0x39b)

def foldCase : Regex → Regex
  | .cls rs neg => .cls (foldRanges rs) neg
  | .seq a b => .seq (foldCase a) (foldCase b)
  | .alt a b => .alt (foldCase a) (foldCase b)
  | .star a => .star (foldCase a)
  | r => r

def parseLit (cs : Array Char) : Option (List Nat) :=
  if cs.size > 0 && cs[0]! == 'L' then
    some (((String.ofList cs.toList).drop 1).toString.splitOn "." |>.filter (· != "") |>.map hexNat)
  else none

def parseSet (id spec : String) : SetInfo :=
  match spec.splitOn ";" with
  | w :: rest =>
    let wx := (w.drop 1).toString.splitOn "x"
    let word := (wx.headD "").toNat?
    let extras := ((wx.drop 1).headD "0").toNat?.getD 0
    let toks := rest.map (fun t => match t.splitOn "," with
      | p :: s :: ast =>
        let a := ",".intercalate ast
        let cs := a.toList.toArray
        let nestedTok := !a.startsWith "Z(" && (a.splitOn "Z(").length > 1
        let pre := (parsePRe cs 0 (p.toInt?.getD 0)).1
        -- a nested token gets a dummy non-empty `alts` so that everything reserved to tokens without inner precedences is off
        let alts := if nestedTok then [(p.toInt?.getD 0, pre.erase)] else parseAlts a
        let ci := natOf s / 4 % 2 == 1
        let base := if nestedTok then pre.erase else if alts.isEmpty then (parseRe cs 0).1 else altRegex alts
        (({ re := (if ci then foldCase base else base), prec := p.toInt?.getD 0,
            isString := natOf s % 2 == 1, immediate := natOf s / 2 % 2 == 1, alts := alts } : Token),
         (if natOf s % 2 == 1 then parseLit cs else none), pre, nestedTok)
      | _ => (default, none, .dead, false))
    { id := id, toks := toks.map (·.1), texts := toks.map (·.2.1), word := word, extras := extras,
      pres := toks.map (·.2.2.1), nested := toks.any (·.2.2.2) }
  | _ => {}

/-- the extras shapes of harness/src/bin/c14.rs: 0 /\\s/, 1 /[ \\n]/, 2 / /, 3 / / and /\\n/, 4 /[ \\t]/ -/
def isExtraOf (shape : Nat) (c : Nat) : Bool :=
  match shape with
  | 1 => c == 32 || c == 10
  | 2 => c == 32
  | 3 => c == 32 || c == 10
  | 4 => c == 32 || c == 9
  | _ => (9 ≤ c && c ≤ 13) || c == 32

/-- the characters of an extras shape (white space only) -/
def extraCharsOf (shape : Nat) : List Nat :=
  match shape with
  | 1 => [32, 10]
  | 2 => [32]
  | 3 => [32, 10]
  | 4 => [32, 9]
  | _ => [9, 10, 11, 12, 13, 32]

/-- some token can BEGIN with a character that is also an extra: the set is lexed by the separator-aware
model `sepScan` (TsVerif/C14/Sep.lean) instead of `skipExtras` + `lexScan` -/
def overlapsExtras (si : SetInfo) : Bool :=
  si.toks.any (fun t => (extraCharsOf si.extras).any (fun c => !(Regex.deriv c t.re).isEmpty))

/-- JUDGE for such sets ("extras are skipped between tokens", not tokens): walking the REAL tokens, no
position of a skipped gap is the start of a valid token of precedence ≥ 0 (the separators' precedence);
returns the first offending position -/
def skippedToken (si : SetInfo) (input : List Nat) (real : List (Nat × Nat × Nat)) : Option Nat :=
  let nonNeg : Nat → Bool := fun i => decide ((tokAt si.toks i).prec ≥ 0)
  let gaps : List (Nat × Nat) := (real.foldl (fun (acc : List (Nat × Nat) × Nat) (t : Nat × Nat × Nat) => (acc.1 ++ [(acc.2, t.2.1)], t.2.2)) ([], 0)) |>
    (fun (acc : List (Nat × Nat) × Nat) => acc.1 ++ [(acc.2, input.length)])
  gaps.findSome? (fun (p, s) => (List.range (s - p)).findSome? (fun d =>
    match refToken si.toks (validAt si.toks nonNeg d) (input.drop (p + d)) with
    | some _ => some (p + d)
    | none => none))

inductive RefLex where
  | tok (i s e : Nat)
  | fin
  | err

/-- the documented reading for sets in which tokens can begin with extras characters: extras are skipped
only up to the FIRST position where a valid token matches; there the documented order chooses -/
def refLexOverlap (si : SetInfo) (isExtra : Nat → Bool) (input : List Nat) : RefLex :=
  let rec go (fuel d : Nat) (rest : List Nat) : RefLex :=
    match fuel with
    | 0 => .err
    | f + 1 =>
      match rest with
      | [] => .fin
      | c :: more =>
        match refToken si.toks (validAt si.toks (fun _ => true) d) rest with
        | some (i, n) => .tok i d (d + n)
        | none => if isExtra c then go f (d + 1) more else .err
  go (input.length + 1) 0 input

/-- first deviation of the separator-aware model (= the real lexer, by correspondence) from that reading:
"" none, "sepeof" = trailing extras are rejected (the model/real lexer reports an error where only extras
remain), "sepabsorb" = the same token but its extent also covers extras next to it, "other" anything else -/
def overlapDeviation (si : SetInfo) (isExtra : Nat → Bool) (input : List Nat) : String :=
  let rec go (fuel : Nat) (rest : List Nat) : String :=
    match fuel with
    | 0 => ""
    | f + 1 =>
      let m := lexOneSep si.toks (fun _ => true) isExtra rest
      match m, refLexOverlap si isExtra rest with
      | none, .fin => if sepAtEof si.toks (fun _ => true) isExtra rest {} then "" else "sepeof"
      | none, .err => ""
      | none, .tok _ _ _ => "other"
      | some (i, s, e), .tok i' s' e' =>
        if i == i' && s == s' && e == e' then (if e == 0 then "" else go f (rest.drop e))
        else if i == i' && s ≤ s' && e' ≤ e then "sepabsorb"
        else "other"
      | some _, _ => "other"
  go (input.length + 1) input

def chooser (si : SetInfo) (useRef : Bool) : Nat → List Nat → Option Cand := fun off =>
  let validMain : Nat → Bool := validAt si.toks (fun i => !si.kws.contains i) off
  let validKw : Nat → Bool := fun i => si.kws.contains i
  let inner := si.toks.any (fun t => !t.alts.isEmpty)
  let pick (v : Nat → Bool) : List Nat → Option Cand :=
    if useRef then refToken si.toks v else if si.nested then lexScanN si.toks si.pres v
    else if inner then lexScanP si.toks v else lexScan si.toks v
  match si.word with
  | some w => withKeywords (pick validMain) (pick validKw) w
  | none => pick validMain

def parseReal (r : String) : Option (List (Nat × Nat × Nat)) :=
  if r == "E" then none
  else if r == "-" then some []
  else some ((r.splitOn ",").map (fun w => match (w.splitOn ":").map natOf with | [a, b, c] => (a, b, c) | _ => (0, 0, 0)))

def pick (si : SetInfo) (useRef : Bool) (kwLexer : Bool) (off : Nat) : List Nat → Option Cand :=
  let v : Nat → Bool := fun i => si.kws.contains i == kwLexer && (kwLexer || off == 0 || !(tokAt si.toks i).immediate)
  if useRef then refToken si.toks v else lexScan si.toks v

def classify (si : SetInfo) (a b : Option Cand) : String :=
  match a, b with
  | some (t, n), some (t', n') =>
    if (tokAt si.toks t').prec > (tokAt si.toks t).prec && n > n' then "overtake" else "other"
  | _, _ => "other"

/-- kind of the first deviation (lock-step over the input): compares the main lexers, and when both
return the word token, the keyword lexers -/
partial def firstDiffKind (si : SetInfo) (cs cr : Nat → List Nat → Option Cand) (input : List Nat) : String :=
  let isExtra := isExtraOf si.extras
  let inp := skipExtras isExtra input
  let off := input.length - inp.length
  if inp.isEmpty then "other" else
  let a := cs off inp; let b := cr off inp
  if a != b then
    let ms := pick si false false off inp; let mr := pick si true false off inp
    if ms != mr then classify si ms mr
    else match si.word, ms with
      | some w, some (i, _) => if i == w then classify si (pick si false true off inp) (pick si true true off inp) else "other"
      | _, _ => "other"
  else match a with
    | some (_, n) => if n == 0 then "other" else firstDiffKind si cs cr (inp.drop n)
    | none => "other"

structure Tally where
  strings : Nat := 0
  errors : Nat := 0
  nontrivial : Nat := 0
  corrBad : Nat := 0
  firstCorr : String := ""
  dev : Nat := 0
  overtake : Nat := 0
  other : Nat := 0
  firstOvertake : String := ""
  firstOther : String := ""
  tokens : Nat := 0
  overlapStrings : Nat := 0
  sepSame : Nat := 0
  sepEof : Nat := 0
  sepAbsorb : Nat := 0
  firstSepEof : String := ""
  firstSepAbsorb : String := ""
  deriving Inhabited

/-- token list of a two-mode set: `mx<extras>f…;prec,isString,mask,AST;…` -/
def parseModeSet (id spec : String) : SetInfo :=
  match spec.splitOn ";" with
  | h :: rest =>
    -- header `mx<extras>f<x.y|->w<word|->r<k.k…|->` (w/r parts optional)
    let body := (h.drop 2).toString
    let (xpart, rest1) := match body.splitOn "f" with | [a, b] => (a, b) | _ => (body, "-")
    let (fpart, rest2) := match rest1.splitOn "w" with | [a, b] => (a, b) | _ => (rest1, "-r-")
    let (wpart, rpart) := match rest2.splitOn "r" with | [a, b] => (a, b) | _ => (rest2, "-")
    let extras := xpart.toNat?.getD 0
    let follow := match fpart.splitOn "." with
      | [a, b] => match a.toNat?, b.toNat? with | some x, some y => some (x, y) | _, _ => none
      | _ => none
    let word := wpart.toNat?
    let (rpart, qpart) := match rpart.splitOn "q" with | [a, b] => (a, some b) | _ => (rpart, none)
    let reserved := (rpart.splitOn ".").filterMap (·.toNat?)
    let reservedB := qpart.map (fun q => (q.splitOn ".").filterMap (·.toNat?))
    let toks := rest.map (fun t => match t.splitOn "," with
      | p :: s :: mask :: ast =>
        let cs := (",".intercalate ast).toList.toArray
        let base := (parseRe cs 0).1
        (({ re := (if natOf s / 4 % 2 == 1 then foldCase base else base), prec := p.toInt?.getD 0, isString := natOf s % 2 == 1 } : Token), natOf mask,
         (if natOf s % 2 == 1 && natOf s / 4 % 2 == 0 then parseLit cs else none))
      | _ => (default, 0, none))
    { id := id, toks := toks.map (·.1), masks := toks.map (·.2.1), follow := follow, texts := toks.map (·.2.2), word := word, reserved := reserved, reservedB := reservedB, extras := extras }
  | _ => {}

/-- grammar-level automaton of a two-mode grammar: mode 0 = before any marker, 1 = A, 2 = B;
`pending` = the previous token was `x` of a `seq(x, y)` item -/
structure AState where
  mode : Nat := 0
  pending : Bool := false

def gValid (si : SetInfo) (st : AState) : List Nat :=
  let n := si.toks.length
  let items := if st.mode == 0 then [] else
    (List.range (n - 2)).filter (fun i => (si.masks.getD i 0) / st.mode % 2 == 1)
  let y := match si.follow with | some (_, y) => if st.pending then [y] else [] | none => []
  items ++ y ++ [n - 2, n - 1]

def gStep (si : SetInfo) (st : AState) (t : Nat) : AState :=
  let n := si.toks.length
  if t == n - 2 then { mode := 1 } else if t == n - 1 then { mode := 2 } else
  match si.follow with
  | some (x, _) => { st with pending := t == x && (si.masks.getD x 0) / st.mode % 2 == 1 }
  | none => { st with pending := false }

/-- the lexer of ONE parse state with valid set `vs` (keyword extraction included):
main lexer over the non-keyword tokens of `vs ∪ reserved` plus the word token when a keyword or the word
itself is among them; when it returns the word token the keyword lexer (ALL keywords) runs from the same
start and its answer replaces the word token when it covers the whole word and is valid or reserved. -/
def stateChoose (si : SetInfo) (vs : List Nat) (useRef : Bool) (inp : List Nat) (mode : Nat := 0) : Option Cand :=
  let pickWith (v : Nat → Bool) : Option Cand := if useRef then refToken si.toks v inp else lexScan si.toks v inp
  match si.word with
  | none => pickWith (fun i => vs.contains i)
  | some w =>
    let res := if vs.contains w then (if mode == 2 then si.reservedB.getD si.reserved else si.reserved) else []
    let base := vs ++ res
    let mainSet : Nat → Bool := fun i =>
      (base.contains i && !si.kws.contains i) || (i == w && (vs.contains w || base.any (fun k => si.kws.contains k)))
    withKeywordsIn (fun _ => pickWith mainSet) (fun _ => pickWith (fun k => si.kws.contains k)) w
      (fun k => vs.contains k || res.contains k) inp

/-- kind of a deviation between scan and documented order in one parse state: compared at the level of the
main lexers, and when both return the word token, of the keyword lexers -/
def classifyState (si : SetInfo) (vs : List Nat) (inp : List Nat) (mode : Nat := 0) : String :=
  match si.word with
  | none => classify si (stateChoose si vs false inp) (stateChoose si vs true inp)
  | some w =>
    let res := if vs.contains w then (if mode == 2 then si.reservedB.getD si.reserved else si.reserved) else []
    let base := vs ++ res
    let mainSet : Nat → Bool := fun i =>
      (base.contains i && !si.kws.contains i) || (i == w && (vs.contains w || base.any (fun k => si.kws.contains k)))
    let ms := lexScan si.toks mainSet inp
    let mr := refToken si.toks mainSet inp
    if ms != mr then classify si ms mr
    else match ms with
      | some (i, _) =>
        if i == w then classify si (lexScan si.toks (fun k => si.kws.contains k) inp) (refToken si.toks (fun k => si.kws.contains k) inp)
        else "other"
      | none => "other"

/-- reference run over the grammar automaton with the given lexer model: tokens `(tok, start, end)`,
or `none` when some position has no valid token (the sentence is rejected) -/
partial def autoRun (si : SetInfo) (useRef : Bool) (input : List Nat) (pos : Nat) (st : AState)
    (acc : Array (Nat × Nat × Nat)) : Option (Array (Nat × Nat × Nat)) :=
  let isExtra := isExtraOf si.extras
  let rest := input.drop pos
  let inp := skipExtras isExtra rest
  if inp.isEmpty then some acc else
  let off := rest.length - inp.length
  let vs := gValid si st
  match stateChoose si vs useRef inp st.mode with
  | none => none
  | some (t, n) => if n == 0 || !vs.contains t then none else
    autoRun si useRef input (pos + off + n) (gStep si st t) (acc.push (t, pos + off, pos + off + n))

/-- lock-step over the automaton: kind of the first step where scan and documented choice differ -/
partial def autoDiffKind (si : SetInfo) (input : List Nat) (pos : Nat) (st : AState) : String :=
  let isExtra := isExtraOf si.extras
  let rest := input.drop pos
  let inp := skipExtras isExtra rest
  if inp.isEmpty then "other" else
  let off := rest.length - inp.length
  let vs := gValid si st
  let a := stateChoose si vs false inp st.mode
  let b := stateChoose si vs true inp st.mode
  if a != b then classifyState si vs inp st.mode else
  match a with
  | some (t, n) => if n == 0 then "other" else autoDiffKind si input (pos + off + n) (gStep si st t)
  | none => "other"

structure MTally where
  strings : Nat := 0
  errors : Nat := 0
  leaves : Nat := 0
  ctx : Nat := 0            -- leaves where some token matching here is NOT valid in the state (context matters)
  corrBad : Nat := 0
  firstCorr : String := ""
  overtake : Nat := 0
  other : Nat := 0
  firstOvertake : String := ""
  firstOther : String := ""
  leak : Nat := 0
  firstLeak : String := ""
  kwRej : Nat := 0
  firstKwRej : String := ""
  kwPre : Nat := 0
  firstKwPre : String := ""
  deriving Inhabited

/-- judge one real parse of a two-mode grammar.  `events` = every lexing step of the real parser
`(tok, pos, end, state)` (tok 100000 = end of input, 100001 = error/unknown).
* acceptance: the tree is error-free iff the reference run over the grammar automaton accepts;
* error-free parses: the real token sequence equals the reference run, and at every step the token is
  what the model chooses among the tokens the PARSE TABLE lists for the real parse state
  (`valid`, from the look-ahead iterator), which must contain the grammar-level valid set. -/
def evalEvents (si : SetInfo) (valid : Array (List Nat)) (cps : String) (input : List Nat) (isErr : Bool)
    (events : List (Nat × Nat × Nat × Nat)) (a : MTally) : MTally := Id.run do
  let isExtra := isExtraOf si.extras
  let mut a := a
  let runScan := autoRun si false input 0 {} #[]
  let runRef := autoRun si true input 0 {} #[]
  let realToks : Array (Nat × Nat) := (events.filter (fun e => e.1 < 100000)).toArray.map (fun e => (e.1, e.2.2.1))
  let same (r : Option (Array (Nat × Nat × Nat))) : Bool :=
    match r with
    | some ts => !isErr && ts.map (fun t => (t.1, t.2.2)) == realToks
    | none => isErr
  let mut bad := !same runScan
  let mut st : AState := {}
  if !isErr then
    for (tok, pos, en, state) in events do
      let rest := input.drop pos
      let inp := skipExtras isExtra rest
      let off := rest.length - inp.length
      let vs := valid.getD state []
      let scan := stateChoose si vs false inp st.mode
      let real : Option Cand := if tok < 100000 && pos + off ≤ en then some (tok, en - pos - off) else none
      a := { a with leaves := a.leaves + 1 }
      if ((candidates si.toks (fun _ => true) inp).any (fun c => !vs.contains c.1)) then a := { a with ctx := a.ctx + 1 }
      -- per-state valid set from the table ⊇ grammar-level valid set of the automaton state
      if !(gValid si st).all (fun i => vs.contains i) then bad := true
      if tok == 100000 then
        if !inp.isEmpty then bad := true
      else
        if scan != real then bad := true
      if tok < 100000 then st := gStep si st tok
  -- DIFFERENCE 1 through a MERGED lex state: the real lexer returned a token that is not valid in the
  -- parse state, longer and of lower precedence than the model's choice among the valid tokens
  -- (the pairwise conflict analysis behind `merge_token_set` does not see three-way overtakes)
  let leakKind (tok pos en state : Nat) : Nat :=   -- 0 none, 1 overtake, 2 continuation leak
    let rest := input.drop pos
    let inp := skipExtras isExtra rest
    let off := rest.length - inp.length
    let vs := valid.getD state []
    if tok < 100000 && !vs.contains tok && pos + off ≤ en then
      match stateChoose si vs false inp with
      | some (t', n') =>
        if en - pos - off > n' then
          if (tokAt si.toks t').prec > (tokAt si.toks tok).prec then 1
          -- the valid, completed token t' can itself continue on the next character: token_conflicts.rs then
          -- does not count the longer token as a conflict ("successor contains the completed token") and lets
          -- merge_token_set put it into this state's lex state
          else if !(derivs (tokAt si.toks t').re (inp.take (n' + 1))).isEmpty then 2 else 0
        else 0
      | none => 0
    else 0
  -- "a keyword is recognised … when the whole word equals it" / which tokens become keywords is part of which token
  -- wins: the parse failed at a step where the lexer returned a token WITHOUT an action in the state, although a token
  -- that HAS an action there matches exactly the whole word (the word token's longest match) at that position
  -- sub-case (known finding): the whole-word token is itself a KEYWORD, and a keyword of HIGHER precedence matches a
  -- proper prefix of the word: the keyword lexer applies "higher precedence first", returns the shorter keyword, the
  -- whole-word test fails and the word token (not valid here) is returned
  let kwPrefixCase : Bool :=
    match si.word, events.getLast? with
    | some w, some (tok, pos, _, state) =>
      let rest := input.drop pos
      let inp := skipExtras isExtra rest
      let vs := valid.getD state []
      if isErr && !vs.contains tok then
        match (matchLens (tokAt si.toks w).re inp).getLast? with
        | some nw => vs.any (fun t => t != w && si.kws.contains t && matchesB (tokAt si.toks t).re (inp.take nw) &&
            si.kws.any (fun k => decide ((tokAt si.toks k).prec > (tokAt si.toks t).prec) && (matchLens (tokAt si.toks k).re inp).any (fun n => n < nw)))
        | none => false
      else false
    | _, _ => false
  let wholeWordRejected : Bool :=
    match si.word, events.getLast? with
    | some w, some (tok, pos, _, state) =>
      let rest := input.drop pos
      let inp := skipExtras isExtra rest
      let vs := valid.getD state []
      -- (a RESERVED word is returned although it has no action: that rejection is the documented meaning of reserved words)
      let isReserved := si.reserved.contains tok || (si.reservedB.getD []).contains tok
      if isErr && !vs.contains tok && !isReserved then
        match (matchLens (tokAt si.toks w).re inp).getLast? with
        | some nw => vs.any (fun t => t != w && t < si.toks.length && matchesB (tokAt si.toks t).re (inp.take nw))
        | none => false
      else false
    | _, _ => false
  let leaks := events.map (fun (tok, pos, en, state) => leakKind tok pos en state)
  let mergedOvertake := leaks.any (· == 1)
  let mergedLeak := leaks.any (· == 2)
  if isErr && mergedLeak && !mergedOvertake then
    return { a with leak := a.leak + 1, firstLeak := if a.firstLeak == "" then cps else a.firstLeak }
  if wholeWordRejected && !mergedOvertake then
    if kwPrefixCase then a := { a with kwPre := a.kwPre + 1, firstKwPre := if a.firstKwPre == "" then cps else a.firstKwPre }
    else a := { a with kwRej := a.kwRej + 1, firstKwRej := if a.firstKwRej == "" then cps else a.firstKwRej }
  if bad && !(isErr && mergedOvertake) then a := { a with corrBad := a.corrBad + 1, firstCorr := if a.firstCorr == "" then cps else a.firstCorr }
  if isErr && mergedOvertake then
    a := { a with overtake := a.overtake + 1, firstOvertake := if a.firstOvertake == "" then cps else a.firstOvertake }
  else if !same runRef then
    if autoDiffKind si input 0 {} == "overtake" then
      a := { a with overtake := a.overtake + 1, firstOvertake := if a.firstOvertake == "" then cps else a.firstOvertake }
    else a := { a with other := a.other + 1, firstOther := if a.firstOther == "" then cps else a.firstOther }
  return a

def hexOfNat (n : Nat) : String := String.ofList (Nat.toDigits 16 n)

/-- JUDGE on the REAL keyword set (which tokens the generator took out of the main lexer): no keyword is
shadowed by another keyword — a String keyword whose text the first one matches too and which is preferred
on that text (precedence, String over RegExp, earlier rule): the keyword lexer could never return the
shadowed one, so it must stay in the main lexer (`identify_keywords`, "exclude keyword candidates that
shadow another keyword candidate").  Returns (shadowed, shadowing, common text). -/
def shadowedKeyword (si : SetInfo) (kws : List Nat) : Option (Nat × Nat × List Nat) :=
  kws.findSome? (fun k => kws.findSome? (fun k' =>
    if k == k' then none else
    match si.texts.getD k' none with
    | some txt =>
      if !txt.isEmpty && matchesB (tokAt si.toks k).re txt &&
         decide (Better (keyOf si.toks (k', txt.length)) (keyOf si.toks (k, txt.length))) then some (k, k', txt) else none
    | none => none))

structure St where
  msi : SetInfo := {}
  mvalid : Array (List Nat) := #[]
  mt : MTally := {}
  si : SetInfo := {}
  /-- one tally per assignment of the unclassifiable tokens to the keyword lexer -/
  variants : Array (List Nat × Tally) := #[]

def sublists : List Nat → List (List Nat)
  | [] => [[]]
  | x :: xs => let r := sublists xs; r ++ r.map (x :: ·)

def evalString (si : SetInfo) (cps : String) (input : List Nat) (r : Option (List (Nat × Nat × Nat))) (a : Tally) : Tally :=
  let isExtra := isExtraOf si.extras
  let cs := chooser si false
  let cr := chooser si true
  let mscan := refTokenize cs isExtra input
  let mref := refTokenize cr isExtra input
  let a := { a with strings := a.strings + 1, errors := a.errors + (if r.isNone then 1 else 0),
                    tokens := a.tokens + (r.getD []).length }
  let inp0 := skipExtras isExtra input
  let nt := ((candidates si.toks (fun _ => true) inp0).map (·.1)).eraseDups.length ≥ 2
  let a := if nt then { a with nontrivial := a.nontrivial + 1 } else a
  -- token sets in which a token can begin with an extras character: separator-aware model, and the
  -- "no token is skipped as an extra" judge instead of the position-by-position documented choice
  if overlapsExtras si && si.word.isNone then
    let msep := tokenizeSep si.toks (fun _ => true) isExtra (input.length + 2) 0 input
    let a := { a with nontrivial := a.nontrivial + 1, overlapStrings := a.overlapStrings + 1 }
    let a := match overlapDeviation si isExtra input with
      | "sepeof" => { a with dev := a.dev + 1, sepEof := a.sepEof + 1, firstSepEof := if a.firstSepEof == "" then cps else a.firstSepEof }
      | "sepabsorb" => { a with dev := a.dev + 1, sepAbsorb := a.sepAbsorb + 1, firstSepAbsorb := if a.firstSepAbsorb == "" then cps else a.firstSepAbsorb }
      | "other" => { a with dev := a.dev + 1, other := a.other + 1, firstOther := if a.firstOther == "" then cps else a.firstOther }
      | _ => a
    let a := if msep != r then { a with corrBad := a.corrBad + 1, firstCorr := if a.firstCorr == "" then cps else a.firstCorr } else a
    match r with
    | some real =>
      match skippedToken si input real with
      | some _ => { a with dev := a.dev + 1, other := a.other + 1, firstOther := if a.firstOther == "" then cps else a.firstOther }
      | none => a
    | none => a
  else
  -- where no token can begin with an extras character the separator-aware model must be the old one
  -- (`skipExtras` + `lexScan`): evaluated on every such string of the sets without word token / inner precedences
  let a := if si.word.isNone && !si.toks.any (fun t => !t.alts.isEmpty) then
      let msep := tokenizeSep si.toks (fun _ => true) isExtra (input.length + 2) 0 input
      if msep != mscan then { a with corrBad := a.corrBad + 1, firstCorr := if a.firstCorr == "" then cps else a.firstCorr }
      else { a with sepSame := a.sepSame + 1 }
    else a
  let a := if mscan != r then { a with corrBad := a.corrBad + 1, firstCorr := if a.firstCorr == "" then cps else a.firstCorr } else a
  if mref != r && !si.toks.any (fun t => !t.alts.isEmpty) then
    let kind := firstDiffKind si cs cr input
    if kind == "overtake" then { a with dev := a.dev + 1, overtake := a.overtake + 1, firstOvertake := if a.firstOvertake == "" then cps else a.firstOvertake }
    else { a with dev := a.dev + 1, other := a.other + 1, firstOther := if a.firstOther == "" then cps else a.firstOther }
  else a

def step (s : St) (line : String) : IO St := do
  match line.splitOn " " with
  | ["set", id, spec] => return { si := parseSet id spec, variants := #[] }
  -- the same token set with the inline flag directives `(?i)` / `(?-i)` resolved by the explorer with the documented
  -- scoping (up to the end of the enclosing group) and the groups removed: what the model lexes with
  | ["setm", id, spec] => return { s with si := parseSet id spec }
  | ["mset", id, spec] => return { s with msi := parseModeSet id spec, mvalid := #[], mt := {} }
  | ["mkw", l] => return { s with msi := { s.msi with kws := if l == "-" then [] else (l.splitOn ",").map natOf } }
  | ["mambig", l] => return { s with msi := { s.msi with ambig := if l == "-" then [] else (l.splitOn ",").map natOf } }
  | ["vs", _, l] => return { s with mvalid := s.mvalid.push (if l == "-" then [] else (l.splitOn ",").map natOf) }
  | ["m", cps, real] =>
    if !s.msi.ambig.isEmpty then return { s with mt := { s.mt with strings := s.mt.strings + 1 } }
    let input := if cps == "-" then [] else (cps.splitOn ".").map hexNat
    let parts := real.splitOn ","
    let isErr := parts.headD "E" == "E"
    let events := (parts.drop 1).map (fun w => match w.splitOn ":" with
      | [t, b, c, d] => ((if t == "end" then 100000 else if t == "other" then 100001 else natOf t), natOf b, natOf c, natOf d)
      | _ => (100001, 0, 0, 0))
    let mt := { s.mt with strings := s.mt.strings + 1, errors := s.mt.errors + (if isErr then 1 else 0) }
    return { s with mt := evalEvents s.msi s.mvalid cps input isErr events mt }
  | ["endmset", id] =>
    match shadowedKeyword s.msi s.msi.kws with
    | some (k, k', txt) =>
      IO.println s!"S-{id} corr=ok judge=FAIL kwshadow {".".intercalate (txt.map hexOfNat)} shadowed={k} by={k'} strings={s.mt.strings} mode=true"
      return s
    | none =>
    if !s.msi.ambig.isEmpty then
      IO.println s!"S-{id} skipped=unclassified-keyword-tokens strings={s.mt.strings} ambig={s.msi.ambig}"
      return s
    let a := s.mt
    let corr := if a.corrBad == 0 then "ok" else s!"DIFF {a.firstCorr}"
    let judge := if a.other > 0 then s!"FAIL other {a.firstOther}" else if a.kwRej > 0 then s!"FAIL kwreject {a.firstKwRej}" else if a.leak > 0 then s!"FAIL mergedleak {a.firstLeak}"
      else if a.kwPre > 0 then s!"FAIL kwprefix {a.firstKwPre}"
      else if a.overtake > 0 then s!"FAIL overtake {a.firstOvertake}" else "ok"
    let distinctSets := (s.mvalid.toList.eraseDups).length
    IO.println s!"S-{id} corr={corr} judge={judge} strings={a.strings} errors={a.errors} nontrivial={a.ctx} corrbad={a.corrBad} docdev={a.overtake + a.other + a.leak + a.kwRej + a.kwPre} kwprefix={a.kwPre} overtake={a.overtake} other={a.other} mergedleak={a.leak} kwreject={a.kwRej} tokens={a.leaves} ntok={s.msi.toks.length} word={s.msi.word.isSome} keywords={s.msi.kws.length} reserved={s.msi.reserved.length} mode=true states={s.mvalid.size} validsets={distinctSets}"
    return s
  | ["kw", l] => return { s with si := { s.si with kws := if l == "-" then [] else (l.splitOn ",").map natOf } }
  | ["ambig", l] =>
    let amb := if l == "-" then [] else (l.splitOn ",").map natOf
    let vs := if amb.length > 3 then #[] else ((sublists amb).map (fun extra => (s.si.kws ++ extra, ({} : Tally)))).toArray
    return { s with si := { s.si with ambig := amb }, variants := vs }
  | ["s", cps, real] =>
    let input := if cps == "-" then [] else (cps.splitOn ".").map hexNat
    let r := parseReal real
    return { s with variants := s.variants.map (fun (kws, a) => (kws, evalString { s.si with kws := kws } cps input r a)) }
  | ["endset", id] =>
    if s.variants.isEmpty then
      IO.println s!"S-{id} skipped=too-many-unclassified-tokens ambig={s.si.ambig}"
      return s
    let best := s.variants.foldl (fun (b : List Nat × Tally) v => if v.2.corrBad < b.2.corrBad then v else b) s.variants[0]!
    match shadowedKeyword s.si best.1 with
    | some (k, k', txt) =>
      IO.println s!"S-{id} corr=ok judge=FAIL kwshadow {".".intercalate (txt.map hexOfNat)} shadowed={k} by={k'} strings={best.2.strings}"
      return s
    | none =>
    let a := best.2
    let corr := if a.corrBad == 0 then "ok" else s!"DIFF {a.firstCorr}"
    let judge := if a.other > 0 then s!"FAIL other {a.firstOther}" else if a.overtake > 0 then s!"FAIL overtake {a.firstOvertake}"
      else if a.sepEof > 0 then s!"FAIL sepeof {a.firstSepEof}" else if a.sepAbsorb > 0 then s!"FAIL sepabsorb {a.firstSepAbsorb}" else "ok"
    IO.println s!"S-{id} corr={corr} judge={judge} overlap={a.overlapStrings} sepsame={a.sepSame} sepeof={a.sepEof} sepabsorb={a.sepAbsorb} strings={a.strings} errors={a.errors} nontrivial={a.nontrivial} corrbad={a.corrBad} docdev={a.dev} overtake={a.overtake} other={a.other} tokens={a.tokens} ntok={s.si.toks.length} word={s.si.word.isSome} keywords={best.1.length} unclassified={s.si.ambig.length}"
    return s
  | _ => return s

def main : IO Unit := do
  let _ ← foldLines (← IO.getStdin) ({} : St) step
