-- Driver stub for C09 (replaced when the property's model driver is written).
def main : IO Unit := IO.println "C09: no driver yet"
