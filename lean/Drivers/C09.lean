import TsVerif.Common.IO
import TsVerif.C09.Judge
/-!
Driver for C09.  `L`/`D` lines: function level, same protocol as Drivers/C13.lean (answers must equal
those of the unity build `cunit_c13`).  System level (harness/src/bin/c09.rs):
  `case <cid> <lang>`, `doc <hex>`, `canon` dump `end`,
  `drive <id> <kind> <param>`, [`map a:b,…`], `tree` dump `end` | `notree`, `rundrive`
    → `<id> kind=… eq=ok|FAIL … cause=… whole=… streams=…`
-/
open TsVerif TsVerif.Lex TsVerif.C09 TsVerif.Utf TsGen

def fmtState (l : Lexer) : String :=
  s!"{l.pos.bytes},{l.pos.extent.row},{l.pos.extent.column},{l.idx},{l.lookahead},{l.laSize},{if l.eof then 1 else 0}," ++
  s!"{l.tokStart.bytes},{l.tokStart.extent.row},{l.tokStart.extent.column},{l.tokEnd.bytes},{l.tokEnd.extent.row},{l.tokEnd.extent.column}," ++
  s!"{l.chunkStart},{l.chunk.length},{if l.colValid then 1 else 0},{l.colValue}"

def runScript (read : Read) (l : Lexer) (ops : List String) : List String :=
  let rec go (ops : List String) (l : Lexer) (laEnd : Nat) (acc : List String) : List String :=
    match ops with
    | [] => acc.reverse
    | op :: rest =>
      if op == "S" then let l := l.start read; go rest l laEnd (fmtState l :: acc)
      else if op == "A" then let l := l.advance read false; go rest l laEnd (fmtState l :: acc)
      else if op == "K" then let l := l.advance read true; go rest l laEnd (fmtState l :: acc)
      else if op == "M" then let l := l.markEnd; go rest l laEnd (fmtState l :: acc)
      else if op == "F" then
        let (l, e) := l.finish laEnd
        go rest l e ((fmtState l ++ s!",{e}") :: acc)
      else if op == "I" then let l := l.setInput; go rest l laEnd (fmtState l :: acc)
      else if op == "C" then
        let (l, c) := l.getColumn read
        go rest l laEnd ((fmtState l ++ s!",{c}") :: acc)
      else if op.startsWith "R:" then
        match (op.splitOn ":").map natOf with
        | [_, b, r, c] => let l := l.reset ⟨b, ⟨r, c⟩⟩; go rest l laEnd (fmtState l :: acc)
        | _ => go rest l laEnd acc
      else go rest l laEnd acc
  go ops l 0 []

def runL (line : String) : String :=
  match line.splitOn " | " with
  | [head, script] =>
    match head.splitOn " " with
    | "L" :: id :: hx :: ch :: _ =>
      let doc := (if hx == "-" then [] else unhexBytes hx).toArray
      let l : Lexer := {}
      let (l, ok) := l.setIncludedRanges []
      let l := l.setInput
      let tr := runScript (schemeRead doc ch) l ((script.splitOn " ").filter (· ≠ ""))
      s!"{id} set={if ok then 1 else 0} trace={";".intercalate tr}"
    | _ => "? set=BADINPUT"
  | _ => "? set=BADINPUT"

structure St where
  cid : String := ""
  doc : Array Nat := #[]
  canon : Array String := #[]
  canonTree : Option TreeDump := none
  did : String := ""
  kind : String := ""
  param : String := ""
  map : Option (List (Nat × Nat)) := none
  tree : Array String := #[]
  hasTree : Bool := false
  ptbad : Nat := 0     -- calls of a point-addressed read callback in which offset and point disagreed
  mode : Nat := 0

def hasErr (t : Tree) : Bool := t.data.errorCost > 0 || t.data.isMissing || t.data.symbol == 65535

def parseMap (s : String) : List (Nat × Nat) :=
  (s.splitOn ",").filterMap fun p =>
    match p.splitOn ":" with
    | [a, b] => some (natOf a, natOf b)
    | _ => none

/-- `coreChars` (what `chars_chunk_indep` talks about) against the full port's stream, modulo the BOM that `start` skips. -/
def coreAgrees (doc : Array Nat) (scheme : String) : Bool :=
  let read := schemeRead doc scheme
  let fuel := doc.size + 2
  let core := coreChars read fuel 0 ⟨0, []⟩
  let core := match core with
    | (0, cp, _) :: rest => if cp == 0xFEFF then rest else core
    | _ => core
  decide (core = lexStream read fuel)

def runDrive (s : St) : String :=
  let base := s!"{s.did} kind={s.kind}" ++ (if s.kind == "chunk" then s!" core={if coreAgrees s.doc s.param then "ok" else "bad"}" else "")
  match s.canonTree with
  | none => s!"{base} eq=BADINPUT cause=other"
  | some canon =>
    if s.ptbad > 0 then
      s!"{base} eq=FAIL the read callback was handed {s.ptbad} (offset, point) pairs that disagree in its own units cause=other"
    else if !s.hasTree then s!"{base} eq=FAIL the drive returned no tree cause=other"
    else
      match parseDump s.tree.toList with
      | none => s!"{base} eq=BADINPUT cause=other"
      | some t =>
        let d := diffTree s.map canon.root t.root 0 0
        let d := match d with
          | some m => some m
          | none => if s.map.isNone && !decide (canon.ranges = t.ranges) then some "included ranges of the trees differ" else none
        -- a cancelled and resumed parse may rotate the HIDDEN repeat nodes differently (balancing is restarted):
        -- invisible through the node API; accepted when the visible trees are identical, counted as `internal=1`
        let d := match d with
          | some m => if s.kind == "cancel-resume" &&
                (visibleList canon.root length_zero == visibleList t.root length_zero) then none else some m
          | none => none
        let internal := d.isNone && (diffTree s.map canon.root t.root 0 0).isSome
        match d with
        | none => s!"{base} eq=ok cause=- nodes={canon.root.size} internal={if internal then 1 else 0}"
        | some msg =>
          if s.kind == "chunk" then
            -- is this exactly the short-chunk finding?  the chunking violates WholeChar at a character start
            -- AND the lexer port sees a different character stream under it than with one chunk
            let text := s.doc.toList
            let read := schemeRead s.doc s.param
            let whole := wholeCharOnStarts text read
            let fuel := text.length + 2
            let same := decide (lexStream read fuel = lexStream (schemeRead s.doc "w") fuel)
            let cause := if !whole && !same then "short-chunk-at-char-start" else "other"
            s!"{base} eq=FAIL {msg} cause={cause} whole={if whole then 1 else 0} streams={if same then 1 else 0}"
          else
            -- erroneous inputs: recovery is steered by costs that count skipped BYTES (encoding dependent) and by
            -- the order in which stack versions are advanced (restarted from version 0 on resume)
            -- BOTH trees must be erroneous: an error-free canonical tree against an erroneous drive tree is never excused
            let err := hasErr canon.root && hasErr t.root
            -- UTF-16BE with a supplementary-plane character: U16_NEXT_BE does not byte-swap the trail unit
            let supp := s.doc.toList.any (· ≥ 0xF0)
            let cause := if s.kind == "utf16" && err then "utf16-error-recovery"
              else if s.kind == "utf16" && s.param.startsWith "u16be" && supp then "utf16be-surrogate-pair"
              -- the uninterrupted parse went through error recovery (erroneous canonical tree); the resumed parse advances the
              -- stack versions in another order, so pruning/recovery can end elsewhere — with another repair or (GLR: c07glr,
              -- thorough seed 1) with an error-free tree.  An ERRONEOUS drive tree against an error-free canonical one is never excused.
              else if s.kind == "cancel-resume" && hasErr canon.root then "resume-error-recovery"
              else if s.kind == "cancel-resume" && sameModuloStates canon.root t.root then "resume-token-parse-state"
              else "other"
            s!"{base} eq=FAIL {msg} cause={cause} err={if err then 1 else 0}"

def step (s : St) (line : String) : IO St := do
  if s.mode == 1 then
    if line == "end" then return { s with mode := 0, canonTree := parseDump s.canon.toList }
    else return { s with canon := s.canon.push line }
  if s.mode == 2 then
    if line == "end" then return { s with mode := 0 } else return { s with tree := s.tree.push line }
  if line.startsWith "L " then IO.println (runL line); return s
  match line.splitOn " " with
  | ["D", id, hx] =>
    let bytes := if hx == "-" then [] else unhexBytes hx
    let (cp, n) := if bytes.isEmpty then (DECODE_ERROR, 0) else decodeUtf8 bytes
    IO.println s!"{id} dec={cp},{n}"; return s
  | ["E", id, en, hx] =>
    let bytes := if hx == "-" then [] else unhexBytes hx
    let (cp, n) := decodeUtf16 (en == "be") bytes true
    let (cpA, nA) := decodeUtf16 (en == "be") bytes false
    IO.println s!"{id} dec16={cp},{n} asis={cpA},{nA}"; return s
  | ["case", id, _lang] => return { cid := id }
  | ["doc", h] => return { s with doc := (if h == "-" then [] else unhexBytes h).toArray }
  | ["canon"] => return { s with mode := 1, canon := #[] }
  | ["drive", id, kind, param] => return { s with did := id, kind := kind, param := param, map := none, tree := #[], hasTree := false, ptbad := 0 }
  | ["map", m] => return { s with map := some (parseMap m) }
  | ["ptbad", n] => return { s with ptbad := natOf n }
  | ["tree"] => return { s with mode := 2, hasTree := true }
  | ["notree"] => return { s with hasTree := false }
  | ["rundrive"] => IO.println (runDrive s); return s
  | _ => return s

def main : IO Unit := do
  let _ ← foldLines (← IO.getStdin) ({} : St) step
