-- Driver stub for C08 (replaced when the property's model driver is written).
def main : IO Unit := IO.println "C08: no driver yet"
