import TsVerif.Common.IO
import TsVerif.C08.Judge
/-!
Driver for C08.  Input: per case a sequence of *states* (dumps of every live handle) separated by
operations:

    case <id> mode=<fresh|persist>
    state <number of handles ever created>
    handle <h>
    tree …            (dump_tree output)
    end
    endstate
    op <copy h new | delete h | edit h <9 numbers> | reparse h new | parse new | query h | walk h>
    state … endstate
    run

Each `run` prints `<id>.<k> op=… corr=<ok|na|DIFF:…> judge=<ok|FAIL:…> cells=… shared=… handles=… visited=…`.
-/
open TsVerif TsVerif.C08 TsGen

structure St where
  id : String := ""
  exact : Bool := true
  step : Nat := 0
  prev : Option (Nat × List (Nat × TsVerif.Tree)) := none
  cur : List (Nat × TsVerif.Tree) := []
  nh : Nat := 0
  curH : Nat := 0
  lines : Array String := #[]
  inDump : Bool := false
  op : List String := []

def padHandles (s : State NodeData) (n : Nat) : State NodeData :=
  { s with handles := s.handles ++ List.replicate (n - s.handles.length) none }

def parseEdit (ws : List String) : Option TSInputEdit :=
  match ws.map natOf with
  | [sb, oeb, neb, sr, sc, oer, oec, ner, nec] =>
    some { start_byte := sb, old_end_byte := oeb, new_end_byte := neb
           start_point := { row := sr, column := sc }
           old_end_point := { row := oer, column := oec }
           new_end_point := { row := ner, column := nec } }
  | _ => none

def sharedCells (s : State NodeData) : Nat :=
  (s.heap.filter fun o => match o with | some c => c.rc > 1 | none => false).length

def runStep (st : St) : String :=
  let cid := s!"{st.id}.{st.step}"
  let (after, incA) := loadState st.cur
  let after := padHandles after st.nh
  let stats := s!"cells={liveCount after.heap} shared={sharedCells after} handles={(after.handles.filter Option.isSome).length}"
  let rcJ := match incA with
    | some m => some s!"inconsistent-dump:{m}"
    | none => (judgeRc after st.exact).map fun m => s!"rc_invariant:{m}"
  match st.prev with
  | none =>
    let j := match rcJ with | some m => s!"FAIL:{m}" | none => "ok"
    s!"{cid} op=init corr=na judge={j} {stats} visited=0"
  | some (nhB, hsB) =>
    let (before, _) := loadState hsB
    let before := padHandles before nhB
    let opName := st.op.headD "?"
    let h := natOf (st.op.getD 1 "0")
    -- model prediction
    let (model, visited) : Option (State NodeData) × Nat := match st.op with
      | "copy" :: _ => (some (before.copy h), 0)
      | "delete" :: _ => (some (before.delete h), 0)
      | "edit" :: _ :: ws =>
        match parseEdit ws, hsB.lookup h with
        | some e, some t =>
          let spec := visitSpec t (C10.Edit.ofInput e)
          (some (before.edit h spec), specVisited spec)
        | _, _ => (none, 0)
      | ["reparse", _, newh] | ["parse", newh] =>
        -- abstract build: what the real result reuses is read off the addresses; the model then
        -- predicts every count (fresh-parser mode only: a persistent parser's token cache holds extra references)
        if st.exact then
          match st.cur.lookup (natOf newh) with
          | some t =>
            let (b, ids) := loadStateIds hsB
            let spec := buildSpecOf ids t
            (some ((padHandles b nhB).reparse spec), specReused spec)
          | none => (none, 0)
        else (none, 0)
      | _ => (none, 0)
    let corr := match model with
      | none => "na"
      | some m => match diffStates (padHandles m st.nh) after with
        | none => "ok"
        | some d => s!"DIFF:{d}"
    let target : Option Nat := match opName with
      | "edit" => some h
      | "delete" => some h
      | _ => none
    let isoJ := (judgeIsolated before after target).map fun m => s!"isolation:{m}"
    let j := match rcJ <|> isoJ with | some m => s!"FAIL:{m}" | none => "ok"
    s!"{cid} op={opName} corr={corr} judge={j} {stats} visited={visited}"

def step (s : St) (line : String) : IO St := do
  if s.inDump then
    if line == "end" then
      match parseDump s.lines.toList with
      | some d => return { s with inDump := false, lines := #[], cur := s.cur ++ [(s.curH, d.root)] }
      | none => return { s with inDump := false, lines := #[] }
    else return { s with lines := s.lines.push line }
  match line.splitOn " " with
  | ["case", id, mode] => return { id := id, exact := mode != "mode=persist" }
  | ["state", n] => return { s with cur := [], nh := natOf n }
  | ["handle", h] => return { s with curH := natOf h, inDump := true, lines := #[] }
  | ["endstate"] => return s
  | "op" :: ws => return { s with op := ws }
  | ["run"] =>
    IO.println (runStep s)
    return { s with prev := some (s.nh, s.cur), cur := [], step := s.step + 1, op := [] }
  | ["histend", id, ld] =>
    -- "every shared node is freed exactly once after the last handle goes away", on the real allocator:
    -- once parser and handles of a history are gone the number of live allocations is what it was before
    let d := (ld.splitOn "=").getLast!
    let j := if d == "0" then "ok" else s!"FAIL:not-freed-after-last-handle:live_delta:{d}"
    IO.println s!"{id}.end op=histend corr=na judge={j}"
    return s
  | _ => return s

def main : IO Unit := do
  let _ ← foldLines (← IO.getStdin) ({} : St) step
