import TsVerif.Common.IO
import TsVerif.C03.Judge
import TsVerif.C03.Search
import TsVerif.C03.RawTable
/-!
Driver for C03.  Reads grammar blocks (grammar.json, table dump, terminals) and cases (token string,
real has_error, real internal tree, real visible tree); prints one line per grammar
`G <gid> closed=.. states=.. oracle=.. L=.. lang=.. fix=..` and one line per case
`<cid> corr=<ok|skip|msg> judge=<ok|FAIL msg> drv=.. member=.. deriv=.. prods=.. len=..`.
-/
open TsVerif TsVerif.C03

structure TermInfo where
  tok : Tok
  sym : Nat
  extra : Bool
  text : String
  deriving Inhabited

structure GState where
  gid : String := ""
  kind : String := ""
  gjson : String := ""
  order : List String := []
  optable : Option OpTable := none
  tableLines : Array String := #[]
  terms : Array TermInfo := #[]
  exh : Nat := 0
  -- computed at `ready`
  tbl : Table := {}
  closed : Bool := false
  g : Grammar := {}
  /-- the token-level reading of `g` (`tokenView`) -/
  gt : Grammar := {}
  oracle : Option (Std.HashSet (List Tok)) := none
  dynO : Option (List DItem) := none
  opOK : Bool := true
  /-- members the parser may reject because a conflict was resolved by precedence: 0 = none may,
  1 = those whose run visits a state of `badStates`, 2 = any -/
  exempt : Nat := 0
  badStates : List Nat := []
  -- current case
  cid : String := ""
  err : Bool := false
  isT : Bool := true
  toks : List Nat := []
  itree : Array String := #[]
  vtree : Array String := #[]
  mode : Nat := 0    -- 0 none, 1 table, 2 itree, 3 vtree

def parseOpTable (s : String) : OpTable :=
  (s.splitOn ",").foldl (fun t part =>
    match part.splitOn ":" with
    | ["b", tx, lv, as, nm] => { t with bin := t.bin ++ [{ text := unhexString tx, level := intOf' lv, right := as == "R", rule := nm }] }
    | ["u", tx, lv, nm] => { t with un := t.un ++ [{ text := unhexString tx, level := intOf' lv, rule := nm }] }
    | ["u", tx, lv, nm, an] => { t with un := t.un ++ [{ text := unhexString tx, level := intOf' lv, rule := nm, annotated := an != "N" }] }
    | ["p", tx, lv, nm, an] => { t with post := t.post ++ [{ text := unhexString tx, level := intOf' lv, rule := nm, annotated := an != "N" }] }
    | _ => t) {}

def reorder (g : Grammar) (order : List String) : Grammar :=
  if order.isEmpty then g else
  { g with rules := order.filterMap fun n => (g.rules.lookup n).map fun r => (n, r) }

def natList (s : String) : List Nat := if s == "-" || s == "" then [] else (s.splitOn ",").map natOf'

def opTokOf (t : OpTable) (name : String) (named : Bool) : Option OpTok :=
  if named then (if name == "num" then some .atom else none)
  else if name == "(" then some .lpar
  else if name == ")" then some .rpar
  else match t.bin.findIdx? (fun b => b.text == name) with
    | some _ =>
      -- several rules may share the text: the token stands for the rule of the greatest level
      (t.binWinner name).map OpTok.bin
    | none => match t.un.findIdx? (fun u => u.text == name) with
      | some k => some (.un k)
      | none => match t.post.findIdx? (fun u => u.text == name) with
        | some k => some (.post k)
        | none => none

/-- cells in which a repetition-flagged SHIFT (skipped by the runtime) sits next to a REDUCE that is
not the repeat rule's own binary recursion `aux → aux aux` (finding C03-repetition-conflict) -/
def suspiciousRepetitionCells (tbl : Table) : Nat :=
  (tbl.acts.toList.map fun row => (row.filter fun e =>
      e.2.any (fun a => match a with | .shift _ _ true => true | _ => false) &&
      e.2.any (fun a => match a with
        | .reduce A n _ _ => !(n == 2 && isAux tbl A)
        | _ => false)).length).foldl (· + ·) 0

partial def aliasesOfSym (x : String) : Rule → List String
  | .alias v _ a => (match stripAlias a with | .sym y => if y == x then [v] else [] | _ => []) ++ aliasesOfSym x a
  | .seq a b => aliasesOfSym x a ++ aliasesOfSym x b
  | .choice a b => aliasesOfSym x a ++ aliasesOfSym x b
  | .rep a => aliasesOfSym x a
  | .rep1 a => aliasesOfSym x a
  | .field _ a => aliasesOfSym x a
  | .prec _ _ a => aliasesOfSym x a
  | _ => []

partial def hasPrec : Rule → Bool
  | .prec _ _ _ => true
  | .seq a b => hasPrec a || hasPrec b
  | .choice a b => hasPrec a || hasPrec b
  | .rep a => hasPrec a
  | .rep1 a => hasPrec a
  | .field _ a => hasPrec a
  | .alias _ _ a => hasPrec a
  | .token a => hasPrec a
  | .immToken a => hasPrec a
  | _ => false

partial def hasAlias : Rule → Bool
  | .alias _ _ _ => true
  | .seq a b => hasAlias a || hasAlias b
  | .choice a b => hasAlias a || hasAlias b
  | .rep a => hasAlias a
  | .rep1 a => hasAlias a
  | .field _ a => hasAlias a
  | .prec _ _ a => hasAlias a
  | .token a => hasAlias a
  | .immToken a => hasAlias a
  | _ => false

/-- an alias on something other than a reference to a non-terminal rule (a default alias on a token
renames the token: outside the token-level reading) -/
partial def hasTermAlias (g : Grammar) : Rule → Bool
  | .alias _ _ a =>
    (match coreRule a with
     | .sym x => match g.body x with
       | some b => isTerminalBody b
       | none => true
     | _ => true) || hasTermAlias g a
  | .seq a b => hasTermAlias g a || hasTermAlias g b
  | .choice a b => hasTermAlias g a || hasTermAlias g b
  | .rep a => hasTermAlias g a
  | .rep1 a => hasTermAlias g a
  | .field _ a => hasTermAlias g a
  | .prec _ _ a => hasTermAlias g a
  | _ => false

/-- the grammars whose table symbols carry the names the token-level semantics `DerivesTok` talks
about: simple terminals, no aliases (a default alias renames a table symbol), no non-terminal extras; hidden terminal
rules and other whole-rule terminals that stay non-terminals are read through `tokenView`; for these a failing `relOK` is an alarm -/
def relScope (g : Grammar) (tbl : Table) : Bool :=
  simpleTerminals g && !(g.rules.any fun e => hasTermAlias g e.2) &&
  -- `g` is the `tokenView`: its token rules must be exactly the rules that are terminals of the table
  -- (a mismatch means the absorption rule was predicted wrongly, e.g. a pattern shared by two rules)
  ((List.range tbl.symbolCount).all fun y =>
      match g.body (tbl.symName y) with
      | some b => isTerminalBody b == decide (y < tbl.tokenCount) || !(tbl.syms.getD y default).named && y < tbl.tokenCount
      | none => true) &&
  g.extras.all fun e => match e with
    | .sym x => match g.body x with
      | some b => isTerminalBody b
      | none => false
    | _ => true

def onReady (s : GState) : GState × String :=
  let tbl := Table.ofLines s.tableLines.toList
  let closed := tableClosed tbl
  let g0 := match parseGrammar s.gjson with
    | some g => reorder g s.order
    | none => {}
  -- everything token-level (oracle, relOK, coverOK, completeOK) reads the grammar through `tokenView`
  let g := tokenView g0
  let simple := simpleTerminals g
  let (oracle, langSize, fix) :=
    if s.exh > 0 && simple && s.terms.size > 0 then
      let r := oracleList g s.exh      -- `oracle_sound` is about exactly this set
      (some (Std.HashSet.ofList r.1), r.1.length, r.2)
    else (none, 0, false)
  let dynO := if oracle.isSome && hasDyn g then
      let r := dynOracle g s.exh
      if r.2 then some r.1 else none
    else none
  let safe := tableSafe tbl
  -- the raw rows against `ts_language_lookup`, every (state, symbol)
  let rd := s.tableLines.foldl RawDump.addLine {}
  let rawtie := match rawTie rd tbl.symbolCount with
    | none => if rd.rows.isEmpty then "na" else "ok"
    | some (q, y, a, b) => s!"FAIL:state{q}:symbol{y}({(tbl.symName y).replace " " "_"}):raw={a}:lookup={b}"
  -- non-terminals that carry a default alias' name are validated under the rule's name (`renameNT`:
  -- names of non-terminals are immaterial, `parser_sound_renamed` / `parser_complete_renamed`)
  let ren := findRen g tbl
  let tbl0 := tbl
  let tbl := renameNT tbl0 ren
  let prods := if safe && tbl.stateCount ≤ 250 then prodList tbl else []
  let aux := if safe && tbl.stateCount ≤ 250 then findAux g tbl prods else []
  let (rel, nprods, badProd) :=
    if safe && simple && tbl.stateCount ≤ 250 then
      let ok := relOK g tbl aux
      let bad := match prods.find? (fun p => !prodOK g tbl aux p) with
        | some p => s!"{tbl.symName p.1}->{p.2.1.map tbl.symName}"
        | none => if ok then "-" else "start"
      (if ok then "true" else "false", prods.length, bad)
    else ("na", 0, "-")
  -- completeness: `coverOK` (grammar.json ⊆ P, premise of `grammar_cover`) for the canonical flattening P,
  -- and `completeOK` (the table is complete for P, premise of `table_complete`); both ⇒ `parser_complete`.
  -- Without `coverOK` the table is still validated against its own productions.
  let (cover, complete, nitems, badStates) :=
    if safe && tbl.stateCount ≤ 100 && (s.kind == "cfg" || s.kind == "zoo") then
      match startSymbol tbl with
      | some st =>
        let small := expandSmall g tbl aux
        let Pc := if small then canonP g tbl aux prods else []
        let cov := small && coverOK g tbl aux Pc st
        let covWhy := if cov then "true" else if !small then "false:big" else
          match (List.range tbl.symbolCount).find? (fun y => y ≥ tbl.tokenCount && !ntCoverOK g tbl aux Pc y) with
          | some y => s!"false:{tbl.symName y}"
          | none => if !tokInj tbl then "false:tokens" else "false:start"
        let P := if cov then Pc else prods
        let allow := auxAllow aux
        let ann := computeAnn tbl P allow st
        let n := (ann.items.toList.map List.length).foldl (· + ·) 0
        if n ≤ 6000 then
          let ok := completeOK tbl P allow ann st
          let why := if ok then "" else
            match (List.range tbl.stateCount).findSome? (fun q => ((ann.itemsOf q).find? fun it => !itemOK tbl P allow ann q it).map fun it => (q, it)) with
            | some (q, it) => s!":state{q}:{tbl.symName it.lhs}->{it.rhs.map tbl.symName}@{it.dot}/{tbl.symName it.la}"
            | none => if !firstOK tbl P ann then ":first" else if !startItemsOK tbl P ann st then ":start" else ":other"
          let bad := if ok || !cov then [] else
            (List.range tbl.stateCount).filter fun q => (ann.itemsOf q).any fun it => !itemOK tbl P allow ann q it
          (covWhy.replace " " "_", (if ok then "true" else "false" ++ why.replace " " "_"), n, bad)
        else (covWhy.replace " " "_", "na", n, [])
      | none => ("na", "nostart", 0, [])
    else ("na", "na", 0, [])
  let hasPrecs := g.rules.any fun e => hasPrec e.2
  -- A conflict resolved by precedence/associativity (by design, at generation time) may cost sentences
  -- when it was a real LR(1) inadequacy rather than an ambiguity.  Only random CFGs with precedence
  -- annotations can be affected; when both validations hold, `parser_complete` rules it out; when
  -- the grammar is covered, the run of a lost sentence must pass a state with an unvalidated item.
  let exempt : Nat :=
    if s.kind != "cfg" || !hasPrecs || (cover == "true" && complete == "true") then 0
    else if cover == "true" && !badStates.isEmpty then 1 else 2
  -- named precedences (`L<n>`): every `precedences` list must order the names by their levels, descending
  let namedOK := g0.precedences.all fun l =>
    let lv := l.map levelOfName
    (l.all fun n => (if levelOfName n < 0 then "Lm" ++ toString (-(levelOfName n)).toNat else "L" ++ toString (levelOfName n).toNat) == n) &&
    (lv.zip (lv.drop 1)).all fun ab => decide (ab.1 > ab.2)
  let opOK := match s.optable with
    | some t => decide (g0.rules = opGrammarRules t) && namedOK
    | none => true
  let termsOK := s.terms.all fun t =>
    let i := tbl.syms.getD t.sym default
    i.name == t.tok.name && t.sym < tbl.tokenCount
  ({ s with tbl := tbl0, closed := closed, g := g0, gt := g, oracle := oracle, opOK := opOK, dynO := dynO, exempt := exempt, badStates := badStates },
   s!"G {s.gid} kind={s.kind} closed={closed} rootsafe={rootSafe tbl} tablesafe={safe} aliasrows={match aliasRowOverrun tbl with | none => "ok" | some (q, y, n) => s!"FAIL:state{q}:symbol{y}:children={n}>stride={tbl.maxAliasSeqLen}"} rawtie={rawtie} rawrows={rd.rows.length} cover={cover} complete={complete} prec={hasPrecs} multi={((List.range tbl.stateCount).map fun q => ((tbl.acts.getD q []).filter fun e => e.2.length > 1).length).foldl (· + ·) 0} exempt={exempt} items={nitems} rel={rel} relscope={relScope g tbl} prods={nprods} badprod={badProd.replace " " "_"} states={tbl.stateCount} symbols={tbl.symbolCount} rules={g.rules.length} " ++
   s!"repconflict={suspiciousRepetitionCells tbl} simple={simple} oracle={oracle.isSome} dyn={dynO.isSome} L={s.exh} lang={langSize} fix={fix} opgrammar={opOK} resolvable={match s.optable with | some t => toString t.resolvable | none => "na"} terms={termsOK} nterm={s.terms.size}")

def drvName : Outcome → String
  | .accepted _ => "acc"
  | .rejected _ => "rej"
  | .glr => "glr"
  | .fault f => s!"fault:{repr f}"
  | .fuelOut => "fuel"

/-- the states on top of the stack during the model driver's run -/
def visitedStates (tbl : Table) : Nat → Conf → List Nat → List Nat
  | 0, _, acc => acc
  | f + 1, c, acc =>
    match TsVerif.C03.step tbl c with
    | .inl c' => visitedStates tbl f c' (topState c.stack :: acc)
    | .inr _ => topState c.stack :: acc

def runCase (s : GState) : String :=
  let tbl := s.tbl
  let real := if s.err then none else parseDump s.itree.toList
  let vt := if s.err then none else buildV s.vtree.toList
  let realLeaves := match real with
    | some d => leavesOfDump tbl d.root
    | none => []
  let symToks : List Nat :=
    if s.isT then s.toks.map fun i => (s.terms.getD i default).sym
    else realLeaves.dropLast
  let haveToks := s.isT || !s.err
  let drv := if haveToks then run tbl symToks else .glr
  -- correspondence: model driver vs real parser
  let corr : String :=
    if !haveToks then "skip"
    else match drv with
      | .glr =>
        -- a cell with several actions: all runs of the table + the select_tree comparison
        if symToks.length > 300 then "skip" else
        let all := parseAll tbl symToks
        match selectBest all, real with
        | none, none => "ok"
        | none, some _ => "glr-model-rejects-real-accepts"
        | some _, none => if s.err then "glr-model-accepts-real-rejects" else "no-real-tree"
        | some b, some d =>
          let fb := flat tbl (ofPTree b)
          let ties := all.filter fun t => t.dynPrec == b.dynPrec && !(flat tbl (ofPTree t) == fb)
          if !ties.isEmpty then "skip"      -- decided by ts_subtree_compare, not modelled
          else match diffS fb (flat tbl (ofDump d.root)) [] with
            | none => "ok"
            | some m => s!"glr-tree:{m}"
      | .fuelOut => "skip"
      | .fault f => if s.closed then s!"model-fault-on-closed-table:{repr f}" else "skip"
      | .rejected _ => if s.err then "ok" else "model-rejects-real-accepts"
      | .accepted t =>
        if s.err then "model-accepts-real-rejects"
        else match real with
          | none => "no-real-tree"
          | some d =>
            if realLeaves != symToks ++ [0] then s!"real-leaves-differ-from-token-string"
            else match diffS (flat tbl (ofPTree t)) (flat tbl (ofDump d.root)) [] with
              | none => "ok"
              | some m => s!"tree:{m}"
  -- judge on the implementation's outputs
  let w : List Tok := s.toks.map fun i => (s.terms.getD i default).tok
  let wNoExtra := stripExtras s.gt w
  let member : Option Bool :=
    match s.oracle with
    | some set => if s.isT && s.toks.length ≤ s.exh then some (set.contains wNoExtra) else none
    | none => none
  let deriv : Option Bool := match vt with
    | some v => some (checkDerivationM s.g v)
    | none => none
  let prattMsg : Option String :=
    match s.optable, s.isT with
    | some t, true =>
      let otoks := s.toks.map fun i => let ti := s.terms.getD i default; opTokOf t ti.tok.name ti.tok.named
      if otoks.any Option.isNone then none else
      let ot := otoks.filterMap id
      match pratt t ot, vt with
      | some e, some v => match diffV (progV t e) v [] with
        | none => none
        | some m => some s!"pratt-tree-differs:{m}"
      | some _, none => some "pratt-accepts-real-rejects"
      | none, some _ => some "pratt-rejects-real-accepts"
      | none, none => none
    | _, _ => none
  -- is a rejection of this string attributable to a precedence-resolved conflict?
  let precLoss : Bool :=
    s.err && drvName drv == "rej" &&
    (s.exempt == 2 || (s.exempt == 1 && (visitedStates tbl (fuelFor symToks) { stack := [], toks := symToks } []).any s.badStates.contains))
  let judge : String :=
    match member with
    | some m =>
      if m == !s.err then ""
      else if m && precLoss then ""
      else if m && s.err && drvName drv == "rej" && acceptsAny tbl (12 * symToks.length + 40) { stack := [], toks := symToks } then
        -- the table WOULD accept if the repetition-flagged shifts the runtime skips were taken
        s!"membership-lost-to-a-skipped-repetition-shift(member={m},has_error={s.err});"
      else s!"membership(member={m},has_error={s.err});"
    | none => ""
  let rootKind := match vt with | some v => v.kind | none => ""
  let judge := judge ++ (match deriv with
    | some false =>
      if rootKind != s.g.start then
        if (s.g.rules.any fun e => (aliasesOfSym s.g.start e.2).contains rootKind)
        then s!"root-kind-is-an-alias-of-the-start-rule({rootKind});"
        else s!"root-kind-is-not-the-start-rule({rootKind});"
      else "tree-is-not-a-derivation;"
    | _ => "")
  let judge := judge ++ (match prattMsg with
    | some m => m ++ ";"
    | none => "")
  -- dynamic precedence: the root of the real tree carries the greatest total among all derivations
  let dynMsg : Option String :=
    match s.dynO, real with
    | some o, some d =>
      if s.isT && s.toks.length ≤ s.exh then
        let realDyn := d.root.data.dynamicPrecedence
        match maxTotal o wNoExtra, keptTotal o wNoExtra realDyn with
        | some best, some kept =>
          if kept == best then none
          else if maxDyn o wNoExtra == some realDyn then
            -- greatest below the root, but not greatest once the start rule's own value counts
            some s!"dynamic-precedence-of-the-start-rule-ignored(kept={kept},best={best})"
          else some s!"dynamic-precedence-not-greatest(kept={kept},best={best})"
        | some best, none =>
          -- no derivation has this total: the root does not carry the start production's own value
          if maxDyn o wNoExtra == some realDyn && best != realDyn
          then some s!"dynamic-precedence-of-the-start-rule-ignored(root={realDyn},best={best})"
          else some s!"root-dynamic-precedence-is-no-derivation's-total(root={realDyn},best={best})"
        | none, _ => none
      else none
    | _, _ => none
  let judge := judge ++ (match dynMsg with
    | some m => m ++ ";"
    | none => "")
  -- the real tree must cover exactly the tokens of the input (driver_yield on the implementation side)
  let judge := if !s.err && s.isT && real.isSome && realLeaves != symToks ++ [0]
    then judge ++ "tree-yield-differs-from-the-token-string;" else judge
  let judge := if !s.opOK then judge ++ "opgrammar-mismatch;" else judge
  let prods := match real with
    | some d => (prodsOf (ofDump d.root)).eraseDups.length
    | none => 0
  let memS := match member with | some true => "1" | some false => "0" | none => "na"
  let derS := match deriv with | some true => "ok" | some false => "fail" | none => "na"
  s!"{s.cid} corr={corr} judge={if judge.isEmpty then "ok" else "FAIL " ++ judge} drv={drvName drv} err={if s.err then 1 else 0} member={memS} deriv={derS} prods={prods} len={symToks.length} precloss={if precLoss then 1 else 0}"

def step (s : GState) (line : String) : IO GState := do
  if s.mode == 1 then
    if line == "end" then return { s with mode := 0 } else return { s with tableLines := s.tableLines.push line }
  if s.mode == 2 then
    if line == "end" then return { s with mode := 0 } else return { s with itree := s.itree.push line }
  if s.mode == 3 then
    if line == "end" then return { s with mode := 0 } else return { s with vtree := s.vtree.push line }
  if line.startsWith "gjson " then return { s with gjson := (line.drop 6).toString }
  match line.splitOn " " with
  | ["grammar", gid, kind] => return { gid := gid, kind := kind }
  | "ruleorder" :: names => return { s with order := names.map unhexString }
  | ["optable", enc] => return { s with optable := some (parseOpTable enc) }
  | ["rejected", gid, enc] =>
    -- an operator table whose grammar the generator refused
    IO.println s!"R {gid} resolvable={(parseOpTable enc).resolvable}"
    return s
  | ["table"] => return { s with mode := 1 }
  | ["term", _idx, named, sym, nm, tx, ex] =>
    return { s with terms := s.terms.push { tok := ⟨unhexString nm, named == "1"⟩, sym := natOf' sym, extra := ex == "1", text := unhexString tx } }
  | ["exh", l] => return { s with exh := natOf' l }
  | ["ready"] =>
    let (s', msg) := onReady s
    IO.println msg
    return s'
  | ["case", cid, err, ty, lst] =>
    return { s with cid := cid, err := err == "1", isT := ty == "T", toks := if ty == "T" then natList lst else [],
                    itree := #[], vtree := #[] }
  | ["itree"] => return { s with mode := 2 }
  | ["vtree"] => return { s with mode := 3 }
  | ["run"] => IO.println (runCase s); return s
  | "stats" :: rest => IO.println ("S " ++ " ".intercalate rest); return s
  | _ => return s

def main : IO Unit := do
  let _ ← foldLines (← IO.getStdin) ({} : GState) step
