-- Driver stub for C03 (replaced when the property's model driver is written).
def main : IO Unit := IO.println "C03: no driver yet"
