import TsVerif.Common.IO
import TsVerif.C15.Judge
import TsVerif.C15.Converse
import TsVerif.C03.Search
/-!
Driver for C15.  Per grammar pair (A = unoptimised table, B = MergeStates table):
`P <gid> sim=<ok|FAIL diag> statesA=.. statesB=.. closedA=.. closedB=.. det=<ok|FAIL>`; per string:
`<cid> judge=<ok|FAIL ..> corr=<ok|skip|msg> drvA=.. drvB=..`.
-/
open TsVerif TsVerif.C03 TsVerif.C15

structure PState where
  gid : String := ""
  kind : String := ""
  linesA : Array String := #[]
  linesB : Array String := #[]
  det : List String := []
  gjson : String := ""
  order : List String := []
  A : Table := {}
  B : Table := {}
  simOK : Bool := false
  mode : Nat := 0

def detJudge (ws : List String) : Bool :=
  -- det opt1 <parser hashes> <types hashes> opt0 <parser hashes> <types hashes>
  match ws with
  | ["opt1", p1, t1, "opt0", p0, t0] =>
    [p1, t1, p0, t0].all fun l => allEqual (l.splitOn ",") && (l.splitOn ",").length ≥ 2
  | _ => false

def reorder (g : Grammar) (order : List String) : Grammar :=
  if order.isEmpty then g else
  { g with rules := order.filterMap fun n => (g.rules.lookup n).map fun r => (n, r) }

/-- the premises of `converse_through_grammar` / `merged_tables_equivalent` on this pair (the search
procedures are untrusted, the five checks are the theorem's decidable premises) -/
def converseCheck (g0 : Grammar) (A0 B0 : Table) (simOK : Bool) : String :=
  -- the token-level reading of the grammar, and both tables with non-terminals under their rules' names
  let g := tokenView g0
  let A := renameNT A0 (findRen g A0)
  let B := renameNT B0 (findRen g B0)
  if g.rules.isEmpty then "na:no-grammar" else
  if !(findSim A B).isSome then "na:no-forward-simulation" else
  if !simOK then "na:no-forward-simulation" else
  if A.stateCount > 100 then "na:big" else
  if !sameTerminals A B then "false:terminals" else
  if !tableSafe B then "false:tableSafe(B)" else
  let prodsB := prodList B
  let auxB := findAux g B prodsB
  if !relOK g B auxB then "false:relOK(B)" else
  if !tableSafe A then "false:tableSafe(A)" else
  match startSymbol A with
  | none => "false:start"
  | some st =>
    let prodsA := prodList A
    let auxA := findAux g A prodsA
    if !expandSmall g A auxA then "false:big-expansion" else
    let P := canonP g A auxA prodsA
    if !coverOK g A auxA P st then "false:coverOK(A)" else
    let ann := computeAnn A P (auxAllow auxA) st
    if (ann.items.toList.map List.length).foldl (· + ·) 0 > 8000 then "na:items" else
    if completeOK A P (auxAllow auxA) ann st then "true" else "false:completeOK(A)"

partial def hasPrecR : Rule → Bool
  | .prec _ _ _ => true
  | .seq a b => hasPrecR a || hasPrecR b
  | .choice a b => hasPrecR a || hasPrecR b
  | .rep a => hasPrecR a
  | .rep1 a => hasPrecR a
  | .field _ a => hasPrecR a
  | .alias _ _ a => hasPrecR a
  | .token a => hasPrecR a
  | .immToken a => hasPrecR a
  | _ => false

def onReady (s : PState) : PState × String :=
  let A := Table.ofLines s.linesA.toList
  let B := Table.ofLines s.linesB.toList
  let sim := findSim A B
  let diag := match sim with
    | some _ => "ok"
    | none =>
      match findSimLoop A B (2 * A.stateCount * (A.symbolCount + 4) + 1000) [(1, 1)] [] with
      | some f => "FAIL " ++ simDiag A B f
      | none => "FAIL lock-step exploration found two different images for one state"
  -- the converse direction, where a state-wise simulation merged → split exists (then `sim_preserves`
  -- applied to (B, A) proves "optimised accepts with t ⇒ unoptimised accepts with t" for this pair too)
  let rsim := (findSim B A).isSome
  let det := detJudge s.det
  let g := match parseGrammar s.gjson with
    | some g => reorder g s.order
    | none => {}
  let conv := converseCheck g A B sim.isSome
  let multi := ((List.range A.stateCount).map fun q => ((A.acts.getD q []).filter fun e => e.2.length > 1).length).foldl (· + ·) 0
  ({ s with A := A, B := B, simOK := sim.isSome },
   s!"P {s.gid} kind={s.kind} statesA={A.stateCount} statesB={B.stateCount} closedA={tableClosed A} closedB={tableClosed B} det={if det then "ok" else "FAIL"} rsim={rsim} conv={conv} prec={g.rules.any fun e => hasPrecR e.2} multi={multi} mapped={(sim.map List.length).getD 0} sim={diag}")

def natList (s : String) : List Nat := if s == "-" || s == "" then [] else (s.splitOn ",").map natOf'

def runCase (s : PState) (cid : String) (ea eb same : Bool) (ty : String) (lst : String) : String :=
  let j := agree ea eb same
  let judge := if j then "ok" else
    if ea != eb then s!"FAIL has_error-differs(unoptimised={ea},optimised={eb})" else "FAIL trees-differ"
  if ty != "T" then s!"{cid} judge={judge} corr=skip drvA=na drvB=na" else
  let toks := natList lst
  let ra := run s.A toks
  let rb := run s.B toks
  let thm := match outcomeTree ra with
    | some ta => (match outcomeTree rb with
      | some tb => if ta == tb then "ok" else "model-trees-differ"
      | none => if s.simOK then "sim_preserves-instance-violated" else "model-B-does-not-accept")
    | none => "ok"
  let c1 := match ra with
    | .accepted _ => if ea then "A:model-accepts-real-rejects" else "ok"
    | .rejected _ => if ea then "ok" else "A:model-rejects-real-accepts"
    | _ => "skip"
  let c2 := match rb with
    | .accepted _ => if eb then "B:model-accepts-real-rejects" else "ok"
    | .rejected _ => if eb then "ok" else "B:model-rejects-real-accepts"
    | _ => "skip"
  let corr := if thm != "ok" then thm else if c1 != "ok" && c1 != "skip" then c1 else if c2 != "ok" && c2 != "skip" then c2
    else if c1 == "skip" && c2 == "skip" then "skip" else "ok"
  s!"{cid} judge={judge} corr={corr} drvA={drvName ra} drvB={drvName rb}"
where
  drvName : Outcome → String
    | .accepted _ => "acc"
    | .rejected _ => "rej"
    | .glr => "glr"
    | .fault f => s!"fault:{repr f}"
    | .fuelOut => "fuel"

def step (s : PState) (line : String) : IO PState := do
  if s.mode == 1 then
    if line == "end" then return { s with mode := 0 } else return { s with linesA := s.linesA.push line }
  if s.mode == 2 then
    if line == "end" then return { s with mode := 0 } else return { s with linesB := s.linesB.push line }
  if line.startsWith "gjson " then return { s with gjson := (line.drop 6).toString }
  match line.splitOn " " with
  | ["pair", gid, kind] => return { gid := gid, kind := kind }
  | "ruleorder" :: names => return { s with order := names.map unhexString }
  | ["tableA"] => return { s with mode := 1 }
  | ["tableB"] => return { s with mode := 2 }
  | "det" :: ws => return { s with det := ws }
  | ["ready"] =>
    let (s', msg) := onReady s
    IO.println msg
    return s'
  | ["case", cid, ea, eb, same, ty, lst, _spec] =>
    IO.println (runCase s cid (ea == "1") (eb == "1") (same == "1") ty lst)
    return s
  | "stats" :: rest => IO.println ("S " ++ " ".intercalate rest); return s
  | _ => return s

def main : IO Unit := do
  let _ ← foldLines (← IO.getStdin) ({} : PState) step
