-- Driver stub for C15 (replaced when the property's model driver is written).
def main : IO Unit := IO.println "C15: no driver yet"
