import TsVerif.Common.IO
import TsVerif.C10.Judge
/-!
Driver for C10: reads cases (before dump, edit, after dump, texts), prints per case
`<id> corr=<ok|DIFF path> judge=<ok|FAIL msg> nodes=.. kept=.. shifted=.. touched=..`.
-/
open TsVerif TsVerif.C10 TsGen

structure St where
  id : String := ""
  text : Array Nat := #[]
  text2 : Array Nat := #[]
  edit : Option TSInputEdit := none
  before : Array String := #[]
  after : Array String := #[]
  mode : Nat := 0   -- 0 none, 1 before, 2 after

def parseEdit (ws : List String) : Option TSInputEdit :=
  match ws.map natOf with
  | [sb, oeb, neb, sr, sc, oer, oec, ner, nec] =>
    some { start_byte := sb, old_end_byte := oeb, new_end_byte := neb
           start_point := { row := sr, column := sc }
           old_end_point := { row := oer, column := oec }
           new_end_point := { row := ner, column := nec } }
  | _ => none

def runCase (s : St) : String :=
  match s.edit, parseDump s.before.toList, parseDump s.after.toList with
  | some e, some b, some a =>
    let m := treeEdit b e
    let corr := match diffTree m.root a.root [] with
      | none => if decide (m.ranges = a.ranges) then "ok" else "DIFF ranges"
      | some p => s!"DIFF path={p.reverse}"
    let (st, _) := judgeTree (Edit.ofInput e) s.text s.text2 b.root a.root length_zero length_zero {}
    let j := match st.fail with
      | none => "ok"
      | some msg => s!"FAIL {msg}"
    let wf := if wfbCheck b.root && wfbCheck a.root then "1" else "0"
    let la := if laokCheck b.root then "1" else "0"
    let cb := if consCheck s.text.toList b.root 0 then "1" else "0"
    let ca := if consCheck s.text2.toList a.root 0 then "1" else "0"
    let cm := if consCheck s.text2.toList m.root 0 then "1" else "0"
    let eo := if editOKCheck s.text.toList s.text2.toList (Edit.ofInput e) then "1" else "0"
    let eb := if e.start_byte ≤ e.old_end_byte && e.old_end_byte ≤ tbJ b.root then "1" else "0"
    s!"{s.id} corr={corr} judge={j} wfb={wf} laok={la} editok={eb} consb={cb} consa={ca} consm={cm} editok2={eo} nodes={st.nodes} kept={st.kept} shifted={st.shifted} touched={st.touched}"
  | _, _, _ => s!"{s.id} corr=BADINPUT judge=BADINPUT"

def step (s : St) (line : String) : IO St := do
  if s.mode == 1 then
    if line == "end" then return { s with mode := 0 } else return { s with before := s.before.push line }
  if s.mode == 2 then
    if line == "end" then return { s with mode := 0 } else return { s with after := s.after.push line }
  match line.splitOn " " with
  | ["case", id] => return { id := id }
  | ["text", h] => return { s with text := (unhexBytes h).toArray }
  | ["text"] => return { s with text := #[] }
  | ["text2", h] => return { s with text2 := (unhexBytes h).toArray }
  | ["text2"] => return { s with text2 := #[] }
  | "edit" :: ws => return { s with edit := parseEdit ws }
  | ["before"] => return { s with mode := 1 }
  | ["after"] => return { s with mode := 2 }
  | ["run"] => IO.println (runCase s); return s
  | _ => return s

def main : IO Unit := do
  let _ ← foldLines (← IO.getStdin) ({} : St) step
