import TsVerif.Common.IO
import TsVerif.C10.Judge
/-!
Driver for C10: reads cases (before dump, edit, after dump, texts), prints per case
`<id> corr=<ok|DIFF path> judge=<ok|FAIL msg> nodes=.. kept=.. shifted=.. touched=..`.
-/
open TsVerif TsVerif.C10 TsGen

structure St where
  id : String := ""
  text : Array Nat := #[]
  text2 : Array Nat := #[]
  edit : Option TSInputEdit := none
  before : Array String := #[]
  after : Array String := #[]
  mode : Nat := 0   -- 0 none, 1 before, 2 after
  helpers : Array (List String) := #[]

def parseEdit (ws : List String) : Option TSInputEdit :=
  match ws.map natOf with
  | [sb, oeb, neb, sr, sc, oer, oec, ner, nec] =>
    some { start_byte := sb, old_end_byte := oeb, new_end_byte := neb
           start_point := { row := sr, column := sc }
           old_end_point := { row := oer, column := oec }
           new_end_point := { row := ner, column := nec } }
  | _ => none

/-- Stand-alone helpers: the implementation's answer must equal the generated `ts_point_edit` /
`ts_range_edit` (correspondence), and positions at or after the old end must land on φ, positions up
to the start stay (judge, with the row/column checked against the new text). -/
def helperResult (s : St) (e : TSInputEdit) : String × String := Id.run do
  let mut corr := "ok"
  let mut judge := "ok"
  for h in s.helpers do
    match h with
    | [k, b, r, c, nb, nr, nc] =>
      if k == "hn" || k == "hp" then
        let b := natOf b
        let p : TSPoint := { row := natOf r, column := natOf c }
        let res := ts_point_edit p b e
        if res.2 != natOf nb || res.1.row != natOf nr || res.1.column != natOf nc then
          corr := s!"DIFF helper {k} at byte {b}: impl ({nb},{nr}:{nc}) generated ({res.2},{res.1.row}:{res.1.column})"
        -- judge against the text
        let nbv := natOf nb
        if b ≥ e.old_end_byte then
          let expect := e.new_end_byte + (b - e.old_end_byte)
          let pos := posOf s.text2 expect
          if nbv != expect || (decide (p = posOf s.text b) && (pos.row != natOf nr || pos.column != natOf nc)) then
            judge := s!"FAIL helper {k}: position {b} after the change should move to {expect} at {pos.row}:{pos.column}, got {nb} at {nr}:{nc}"
        else if b ≤ e.start_byte then
          if nbv != b || p.row != natOf nr || p.column != natOf nc then
            judge := s!"FAIL helper {k}: position {b} before the change moved to {nb} at {nr}:{nc}"
    | ["hr", sb, eb, sr, sc, er, ec, nsb, neb, nsr, nsc, ner, nec] =>
      let r : TSRange := { start_byte := natOf sb, end_byte := natOf eb
                           start_point := { row := natOf sr, column := natOf sc }
                           end_point := { row := natOf er, column := natOf ec } }
      let g := ts_range_edit r e
      if g.start_byte != natOf nsb || g.end_byte != natOf neb || g.start_point.row != natOf nsr ||
         g.start_point.column != natOf nsc || g.end_point.row != natOf ner || g.end_point.column != natOf nec then
        corr := s!"DIFF helper hr on [{sb},{eb}): impl [{nsb},{neb}) generated [{g.start_byte},{g.end_byte})"
      -- judged against `range_edit_sat` (Props.lean): every 32-bit range, incl. open ends and overflow
      if natOf sb < 4294967296 && natOf eb < 4294967296 && e.new_end_byte < 4294967296 then
        let es := movedStartSat (natOf sb) e
        let ee := movedEndSat (natOf eb) e
        if natOf nsb != es || natOf neb != ee then
          judge := s!"FAIL helper hr: range [{sb},{eb}) should move to [{es},{ee}) (range_edit_sat), got [{nsb},{neb})"
    | _ => pure ()
  return (corr, judge)

def runCase (s : St) : String :=
  match s.edit, parseDump s.before.toList, parseDump s.after.toList with
  | some e, some b, some a =>
    let m := treeEdit b e
    let (hc, hj) := helperResult s e
    let corr := match diffTree m.root a.root [] with
      | none => if decide (m.ranges = a.ranges) then hc else "DIFF ranges"
      | some p => s!"DIFF path={p.reverse}"
    let (st, _) := judgeTree (Edit.ofInput e) s.text s.text2 b.root a.root length_zero length_zero {}
    let j := match st.fail with
      | none =>
        match rangesJudge b.ranges a.ranges e with
        | none => hj
        | some i => s!"FAIL stored included range {i} of {b.ranges.length} did not move by the edit's mapping (rangesJudge; range_edit_eq_phi)"
      | some msg => s!"FAIL {msg}"
    let wf := if wfbCheck b.root && wfbCheck a.root then "1" else "0"
    let la := if laokCheck b.root then "1" else "0"
    let cb := if consCheck s.text.toList b.root 0 then "1" else "0"
    let ca := if consCheck s.text2.toList a.root 0 then "1" else "0"
    let cm := if consCheck s.text2.toList m.root 0 then "1" else "0"
    let eo := if editOKCheck s.text.toList s.text2.toList (Edit.ofInput e) then "1" else "0"
    let eb := if e.start_byte ≤ e.old_end_byte && e.old_end_byte ≤ tbJ b.root then "1" else "0"
    s!"{s.id} corr={corr} judge={j} wfb={wf} laok={la} editok={eb} consb={cb} consa={ca} consm={cm} editok2={eo} helpers={s.helpers.size} nodes={st.nodes} kept={st.kept} shifted={st.shifted} touched={st.touched}"
  | _, _, _ => s!"{s.id} corr=BADINPUT judge=BADINPUT"

def step (s : St) (line : String) : IO St := do
  if s.mode == 1 then
    if line == "end" then return { s with mode := 0 } else return { s with before := s.before.push line }
  if s.mode == 2 then
    if line == "end" then return { s with mode := 0 } else return { s with after := s.after.push line }
  match line.splitOn " " with
  | ["case", id] => return { id := id }
  | "hn" :: rest => return { s with helpers := s.helpers.push ("hn" :: rest) }
  | "hp" :: rest => return { s with helpers := s.helpers.push ("hp" :: rest) }
  | "hr" :: rest => return { s with helpers := s.helpers.push ("hr" :: rest) }
  | ["text", h] => return { s with text := (unhexBytes h).toArray }
  | ["text"] => return { s with text := #[] }
  | ["text2", h] => return { s with text2 := (unhexBytes h).toArray }
  | ["text2"] => return { s with text2 := #[] }
  | "edit" :: ws => return { s with edit := parseEdit ws }
  | ["before"] => return { s with mode := 1 }
  | ["after"] => return { s with mode := 2 }
  | ["run"] => IO.println (runCase s); return s
  | _ => return s

def main : IO Unit := do
  let _ ← foldLines (← IO.getStdin) ({} : St) step
