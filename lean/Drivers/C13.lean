-- Driver stub for C13 (replaced when the property's model driver is written).
def main : IO Unit := IO.println "C13: no driver yet"
