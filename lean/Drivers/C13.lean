import TsVerif.Common.IO
import TsVerif.C13.Judge
import TsVerif.C13.Stream
/-!
Driver for C13 (and, for the `L`/`D` lines, C09).  Protocol: see harness/csrc/cunit_c13.c
(function level, answers must equal the C program's) and harness/src/bin/c13.rs (system level):
  `case <cid> <lang>`, `doc <hex>`, `ranges <n> (6 nums)*n`, `verdict ok|err <i>`,
  `reported <n> …`, `concat <hex>`, `eff <hex>`, `treeR`/`treeC`/`treeE` dump `end`, `run`
    → `<cid> setter=… reported=… concat=… shape=… pos=… leaf=… cause=… …`
-/
open TsVerif TsVerif.Lex TsVerif.C13 TsVerif.Utf TsGen

def rangeOf : List Nat → Option (TSRange × List Nat)
  | sb :: sr :: sc :: eb :: er :: ec :: rest =>
    some ({ start_byte := sb, end_byte := eb, start_point := ⟨sr, sc⟩, end_point := ⟨er, ec⟩ }, rest)
  | _ => none

def rangesOf : Nat → List Nat → Option (List TSRange × List Nat)
  | 0, ws => some ([], ws)
  | k + 1, ws => do
    let (r, ws) ← rangeOf ws
    let (rs, ws) ← rangesOf k ws
    return (r :: rs, ws)

/-- The chunk provider of `cunit_c13.c`. -/
def mkRead (doc : Array Nat) (chunking : String) : Read := fun byte =>
  if byte ≥ doc.size then []
  else
    let e0 := doc.size
    let e1 := if chunking.startsWith "c" then
        let k := (chunking.drop 1).toString.toNat?.getD 0
        if k != 0 && byte + k < e0 then byte + k else e0
      else e0
    let e2 := if chunking.startsWith "s" then
        ((chunking.drop 1).toString.splitOn ",").foldl (fun e s =>
          match s.toNat? with
          | some p => if p > byte && p < e then p else e
          | none => e) e1
      else e1
    (doc.extract byte e2).toList

def fmtState (l : Lexer) : String :=
  s!"{l.pos.bytes},{l.pos.extent.row},{l.pos.extent.column},{l.idx},{l.lookahead},{l.laSize},{if l.eof then 1 else 0}," ++
  s!"{l.tokStart.bytes},{l.tokStart.extent.row},{l.tokStart.extent.column},{l.tokEnd.bytes},{l.tokEnd.extent.row},{l.tokEnd.extent.column}," ++
  s!"{l.chunkStart},{l.chunk.length},{if l.colValid then 1 else 0},{l.colValue}"

def runScript (read : Read) (l : Lexer) (ops : List String) : List String :=
  let rec go (ops : List String) (l : Lexer) (laEnd : Nat) (acc : List String) : List String :=
    match ops with
    | [] => acc.reverse
    | op :: rest =>
      if op == "S" then let l := l.start read; go rest l laEnd (fmtState l :: acc)
      else if op == "A" then let l := l.advance read false; go rest l laEnd (fmtState l :: acc)
      else if op == "K" then let l := l.advance read true; go rest l laEnd (fmtState l :: acc)
      else if op == "M" then let l := l.markEnd; go rest l laEnd (fmtState l :: acc)
      else if op == "F" then
        let (l, e) := l.finish laEnd
        go rest l e ((fmtState l ++ s!",{e}") :: acc)
      else if op == "I" then let l := l.setInput; go rest l laEnd (fmtState l :: acc)
      else if op == "C" then
        let (l, c) := l.getColumn read
        go rest l laEnd ((fmtState l ++ s!",{c}") :: acc)
      else if op.startsWith "R:" then
        match (op.splitOn ":").map natOf with
        | [_, b, r, c] => let l := l.reset ⟨b, ⟨r, c⟩⟩; go rest l laEnd (fmtState l :: acc)
        | _ => go rest l laEnd acc
      else go rest l laEnd acc
  go ops l 0 []

def runL (line : String) : String :=
  match line.splitOn " | " with
  | [head, script] =>
    match head.splitOn " " with
    | "L" :: id :: hx :: ch :: n :: nums =>
      let doc := (if hx == "-" then [] else unhexBytes hx).toArray
      match rangesOf (natOf n) (nums.map natOf) with
      | some (rs, _) =>
        let runV := fun (fixed : Bool) =>
          let l : Lexer := { skipEmpty := fixed }
          let (l, ok) := l.setIncludedRanges rs
          let l := l.setInput
          let tr := runScript (mkRead doc ch) l ((script.splitOn " ").filter (· ≠ ""))
          s!" set={if ok then 1 else 0} trace={";".intercalate tr}"
        -- the code as it is, and (second line, only when different) with fixes/C13-empty-range-boundary.diff
        let a := runV false
        let f := runV true
        if a == f then id ++ a else id ++ a ++ "\n" ++ id ++ "#F" ++ f
      | none => s!"{id} set=BADINPUT"
    | _ => "? set=BADINPUT"
  | [head] =>
    -- empty script
    match head.splitOn " " with
    | "L" :: id :: _ => s!"{id} set=? trace="
    | _ => "? set=BADINPUT"
  | _ => "? set=BADINPUT"

structure St where
  id : String := ""
  lang : String := ""
  doc : Array Nat := #[]
  ranges : List TSRange := []
  verdict : String := ""
  reported : List TSRange := []
  concat : List Nat := []
  eff : List Nat := []
  hasE : Bool := false
  treeR : Array String := #[]
  treeC : Array String := #[]
  treeE : Array String := #[]
  mode : Nat := 0

/-- `rangedChars` (what `stream_concat` talks about) against the full port over the same ranges with the
document in one chunk, modulo the BOM that `start` skips at offset 0. -/
def rangedAgrees (doc : Array Nat) (rs : List TSRange) : Bool :=
  let docL := doc.toList
  let read : Read := fun p => docL.drop p
  let fuel := doc.size + 2
  let l : Lexer := {}
  let l := (l.setIncludedRanges rs).1.setInput
  let port := TsVerif.C09.lexChars read fuel (l.start read)
  let core0 : List (Nat × Int × Nat) := rangedChars docL fuel rs ((rs.head?.map (·.start_byte)).getD 0)
  let core : List (Nat × Int × Nat) := match core0 with
    | (0, cp, _) :: rest => if cp == 0xFEFF then rest else core0
    | _ => core0
  core == port

def fmtR (rs : List TSRange) : String :=
  ",".intercalate (rs.map fun r => s!"{r.start_byte}-{r.end_byte}")

def runCase (s : St) : String :=
  let n := s.ranges.length
  -- setter verdict against the specification
  let specOk := n == 0 || validFrom 0 s.ranges
  let specVerdict := if specOk then "ok" else
    match firstBad s.ranges with
    | some i => s!"err {i}"
    | none => "err 0"
  let setter := if s.verdict == specVerdict then "ok" else s!"FAIL impl:{s.verdict} spec:{specVerdict}"
  if !specOk then
    s!"{s.id} setter={setter} reported=- concat=- shape=- pos=- cause=- accepted=0 nranges={n}"
  else
    let given := if n == 0 then [DEFAULT_RANGE] else s.ranges
    let reported := if decide (s.reported = given) then "ok" else s!"FAIL tree:{fmtR s.reported} given:{fmtR given}"
    let es := effRanges given s.doc.size
    let docL := s.doc.toList
    let myConcat := es.foldl (fun acc e => acc ++ (s.doc.extract e.a e.b).toList) []
    let concatOk := if decide (myConcat = s.concat) then "ok" else "FAIL harness concatenation differs from the model's"
    let onB := onCharBoundaries es docL
    -- hypotheses / conclusion of `stream_concat` on this case, and the model-internal tie of `rangedChars` to the port
    let fuelS := s.doc.size + 2
    let fit := fitRunB docL fuelS given ((given.head?.map (·.start_byte)).getD 0)
    let rc := rangedAgrees s.doc given
    -- do the two lexers see the same characters (model, tied to the port per case by `rc`)?
    let streamEq := decide ((rangedChars docL fuelS given ((given.head?.map (·.start_byte)).getD 0)).map (fun x => (x.2.1, x.2.2)) = refCharsS fuelS s.concat)
    let sc := !fit || decide ((rangedChars docL fuelS given ((given.head?.map (·.start_byte)).getD 0)).map (fun x => (x.2.1, x.2.2)) = refCharsS fuelS s.concat)
    let myEff := effectiveText given s.doc
    let effOk := !s.hasE || decide (myEff = s.eff)
    match parseDump s.treeR.toList, parseDump s.treeC.toList with
    | some r, some c =>
      let emp := emptyPositions given s.doc.size
      let st := cmpTree es emp s.doc true r.root c.root length_zero length_zero {}
      let stE := if s.hasE then
          match parseDump s.treeE.toList with
          | some e => (cmpTree es emp s.doc false r.root e.root length_zero length_zero {}).fail
          | none => some "no treeE"
        else st.fail
      let err := hasError r.root || hasError c.root
      -- the error-recovery finding needs BOTH parses to be erroneous (an error in only one of them is never excused)
      let errBoth := hasError r.root && hasError c.root
      let (shape, pos) := match st.fail with
        | none => if st.quirks > 0 then ("ok", s!"FAIL {st.quirkMsg}") else ("ok", "ok")
        | some m => if m.startsWith "shape" then (s!"FAIL {m}", "-") else ("ok", s!"FAIL {m}")
      -- classification of a failure (most specific first):
      -- * character splitting: some effective range boundary is not a character boundary AND (the ranged tree has
      --   the shape of the parse of the text the lexer really consumed (E), which the model reproduces, OR the model —
      --   tied to the port on this very case — shows that the two lexers see different character streams: a range
      --   may also END a character early, or the concatenation may JOIN bytes of two ranges into one character);
      -- * empty range: the only deviations are boundaries sitting on an empty given range between the two images of a seam;
      -- * error recovery: one of the two trees contains ERROR/MISSING nodes (recovery costs count excluded bytes);
      -- a scanner that reads the column legitimately answers differently on the concatenation (columns differ):
      -- such pairs are outside the equality claim (DESIGN §7 C13 M); they are counted, not judged
      -- … unless every excluded gap between two effective ranges is free of newlines: then the included characters
      -- before any position are the same on its line in the document and in the concatenation, `get_column`
      -- (which counts included characters from the line start) must agree, and the pair IS judged
      let gapNewline := (es.zip (es.drop 1)).any fun (e1, e2) => (s.doc.extract e1.b e2.a).toList.contains 10
      let col := (anyColumn r.root || anyColumn c.root) && gapNewline
      let (shape, pos) := if col && st.fail.isSome then ("ok", "ok") else (shape, pos)
      let cause := if col && st.fail.isSome then "-"
        else if st.fail.isNone && st.quirks == 0 then "-"
        else if (!onB && s.hasE && effOk && stE.isNone) || (!fit && rc && !streamEq) then "char-splitting-range-boundary"
        -- erroneous on both sides: ERROR/MISSING nodes may sit at the other image of a seam than ψ says (which image a
        -- repaired node takes depends on the repair) — excused ONLY while every such boundary lies in the closure of a
        -- range that includes text.  (wave 9, C13-r8) A boundary on an empty range AWAY from included text — a MISSING
        -- token placed on a leading empty range — is not a matter of which repair was chosen: where a node sits must be
        -- included text even when the recovery choices differ.
        else if st.fail.isNone && errBoth && st.quirkPos.all (fun p => inClosure es p) then "error-recovery"
        else if st.fail.isNone then
          -- a boundary on a range with start = end (repaired by fixes/C13-empty-range-boundary.diff), or only on
          -- ranges that start at/after the end of the document (not repaired)
          (if (if errBoth then st.quirkPos.filter (fun p => !inClosure es p) else st.quirkPos).any (fun p => (trueEmptyPositions given).contains p &&
                !(given.any fun r => r.start_byte == p && r.end_byte > r.start_byte && r.start_byte ≥ s.doc.size))
           then "empty-range-boundary"
           else "range-beyond-eof-boundary")
        else if errBoth then "error-recovery"
        else "other"
      s!"{s.id} setter={setter} reported={reported} concat={concatOk} shape={shape} pos={pos} cause={cause} accepted=1 err={if err then 1 else 0} nranges={n} neff={es.length} onb={if onB then 1 else 0} effok={if effOk then 1 else 0} nodes={st.nodes} leaves={st.leaves} gapleaves={st.gapLeaves} quirks={st.quirks} col={if col then 1 else 0} colsens={if anyColumn r.root || anyColumn c.root then 1 else 0} fit={if fit then 1 else 0} rc={if rc then "ok" else "bad"} sc={if sc then "ok" else "bad"}"
    | _, _ => s!"{s.id} setter={setter} reported={reported} concat={concatOk} shape=BADINPUT pos=BADINPUT cause=other accepted=1"

def step (s : St) (line : String) : IO St := do
  if s.mode != 0 then
    if line == "end" then return { s with mode := 0 }
    else if s.mode == 1 then return { s with treeR := s.treeR.push line }
    else if s.mode == 2 then return { s with treeC := s.treeC.push line }
    else return { s with treeE := s.treeE.push line }
  if line.startsWith "L " then IO.println (runL line); return s
  match line.splitOn " " with
  | ["D", id, hx] =>
    let bytes := if hx == "-" then [] else unhexBytes hx
    let (cp, n) := if bytes.isEmpty then (DECODE_ERROR, 0) else decodeUtf8 bytes
    IO.println s!"{id} dec={cp},{n}"; return s
  | ["case", id, lang] => return { id := id, lang := lang }
  | ["doc", h] => return { s with doc := (if h == "-" then [] else unhexBytes h).toArray }
  | "ranges" :: n :: ws =>
    match rangesOf (natOf n) (ws.map natOf) with
    | some (rs, _) => return { s with ranges := rs }
    | none => return s
  | "verdict" :: ws => return { s with verdict := " ".intercalate ws }
  | "reported" :: n :: ws =>
    match rangesOf (natOf n) (ws.map natOf) with
    | some (rs, _) => return { s with reported := rs }
    | none => return s
  | ["concat", h] => return { s with concat := if h == "-" then [] else unhexBytes h }
  | ["eff", h] => return { s with eff := (if h == "-" then [] else unhexBytes h), hasE := true }
  | ["treeR"] => return { s with mode := 1 }
  | ["treeC"] => return { s with mode := 2 }
  | ["treeE"] => return { s with mode := 3 }
  | ["run"] => IO.println (runCase s); return s
  | _ => return s

def main : IO Unit := do
  let _ ← foldLines (← IO.getStdin) ({} : St) step
