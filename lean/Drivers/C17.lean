-- Driver stub for C17 (replaced when the property's model driver is written).
def main : IO Unit := IO.println "C17: no driver yet"
