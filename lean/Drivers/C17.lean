import TsVerif.Common.IO
import TsVerif.Common.Tree
import TsVerif.C17.Judge
import TsVerif.C17.Merge
import TsVerif.C17.MergeMulti
import TsVerif.C17.Intersect
import TsVerif.C17.Locals
import TsVerif.C17.Full
import TsVerif.C17.StackSpec
import TsVerif.C17.MultiOrder
import TsVerif.C17.WellNested
import TsVerif.C17.Dyn
import TsVerif.C17.Lines
/-!
Driver for C17.  Reads the case stream written by `harness/src/bin/c17` and prints one line per case:

* `run lossy`  → `<id> kind=L corr=<orig|fixed|both|NEITHER> spec=<ok|DIFF> judge=<ok|FAIL> cause=<…>`
  (`corr`: which port of `LossyUtf8` reproduces the implementation; `spec`: `lossySpec` vs
  `String::from_utf8_lossy`; `judge`: implementation = `lossySpec`);
* `run render` → `<id> kind=R corr=… wf=<0|1> judge=<ok|FAIL|panic> cause=<…>`;
* `run merge`  → `<id> kind=M corr=<ok|DIFF> wf=<ok|FAIL> capsin= capsok= ncaps= depth= err=`
  (`mergeLayer` on the layer's capture list vs the real single-layer event stream);
* `run mmerge` → `<id> kind=N corr=<ok|DIFF> fin=<0|1> wf= nlayers= maxlayerdepth= ncaps= depth= err=`
  (`mergeLayers` on all layers' raw captures vs the real multi-layer event stream, no locals);
* `run hl`     → `<id> kind=H corr=… wf=<ok|FAIL> inj=<ok|FAIL> html=<ok|FAIL|panic> loc=<ok|FAIL> cause=<…>
                  nsp=<spans> ninj=<injections> depth=<max nesting> err=<…>`.
-/
open TsVerif TsVerif.C17

structure St where
  id : String := ""
  bytes : Bytes := []
  impl : Bytes := []
  std : Bytes := []
  src : Bytes := []
  evs : List Ev := []
  crh : Option Nat := none
  html : Option Bytes := some []
  lines : List Nat := []
  err : String := "-"
  capirc : String := "-"
  attrMode : Nat := 0
  fixFinal : Bool := true
  fixTrunc : Bool := true
  initInsert : Bool := false
  fixCRCR : Bool := false
  langof : List Nat := []
  injs : List Inj := []
  locals : List (Nat × Nat × Nat × Nat) := []
  caps : List Cap := []
  defs : Array LayerDef := #[]
  top : List Nat := []
  lcaps : List LCap := []
  fdefs : Array Full.FDef := #[]
  fnews : Array Full.NewEntry := #[]
  irTotal : Nat := 0
  irBad : Nat := 0
  irReal : Nat := 0

def unhx (s : String) : Bytes := if s == "-" then [] else unhexBytes s

def parseEv (t : String) : Option Ev :=
  if t == "E" then some .stop
  else if t.startsWith "H" then some (.start (natOf (t.drop 1).toString))
  else if t.startsWith "S" then
    match ((t.drop 1).toString).splitOn "-" with
    | [a, b] => some (.source (natOf a) (natOf b))
    | _ => none
  else none

def parseEvs (s : String) : List Ev :=
  if s == "-" then [] else (s.splitOn ",").filterMap parseEv

def parseNats (s : String) : List Nat :=
  if s == "-" then [] else (s.splitOn ",").map natOf

def parseRanges (s : String) : List (Nat × Nat) :=
  (s.splitOn ",").filterMap fun t => match t.splitOn "-" with
    | [a, b] => some (natOf a, natOf b)
    | _ => none

def parseQuads (s : String) : List (Nat × Nat × Nat × Nat) :=
  (s.splitOn ",").filterMap fun t => match t.splitOn "-" with
    | [a, b, c, d] => some (natOf a, natOf b, natOf c, natOf d)
    | _ => none

/-- The attribute callbacks of the harness (`attr_bytes`): 0 `class=c<h>`, 1 with quotes and `&`,
2 empty, 3 contains `>` (outside the contract `hattr`). -/
def attrOfMode (mode h : Nat) : Bytes :=
  let str : String :=
    if mode == 1 then "class=\"h" ++ toString h ++ "\" data-q='a&b'"
    else if mode == 2 then ""
    else if mode == 3 then "x>y" ++ toString h
    else "class=c" ++ toString h
  str.toUTF8.toList.map (·.toNat)

/-- The port of `LossyUtf8` that the probed implementation follows (`probe lossy` line of the
explorer: one bit per repaired defect). -/
def decOf (s : St) : Bytes → Bytes := lossyV s.fixFinal s.fixTrunc

def runLossy (s : St) : String :=
  let m := decide (decOf s s.bytes = s.impl)
  let spec := lossySpec s.bytes
  let specOk := decide (spec = s.std)
  let jOk := decide (s.impl = spec)
  let cause := if jOk then "-" else if m && tailLoss s.bytes then
      (if endsTruncated s.bytes then "lossy-chunk-end-truncated" else "lossy-chunk-end-invalid") else "other"
  s!"{s.id} kind=L corr={if m then "ok" else "DIFF"} spec={if specOk then "ok" else "DIFF"} judge={if jOk then "ok" else "FAIL"} cause={cause} loss={tailLoss s.bytes}"

def chunksOf (evs : List Ev) (src : Bytes) : List Bytes :=
  evs.filterMap fun | .source a b => some (sliceT src a b) | _ => none

/-- Compare the model renderer (with the probed decoder) with the implementation's html and line offsets. -/
def corrRender (s : St) : String × Bool :=
  let cfg : RCfg := { attr := attrOfMode s.attrMode, crh := s.crh, crcr := s.fixCRCR }
  match s.html with
  | none =>
    (if (render lossy cfg s.evs s.src).isNone then "ok" else "DIFF-model-does-not-panic", true)
  | some html =>
    let same (r : Option RState) : Bool := match r with
      | some st => decide (st.html = html) && decide (st.lineOffsets = s.lines)
      | none => false
    (if same (render (decOf s) cfg s.evs s.src) then "ok" else "DIFF", false)

def htmlJudge (s : St) : String × String :=
  match s.html with
  | none => ("panic", "-")
  | some html =>
    if judgeHtml lossySpec s.evs s.src html then ("ok", "-")
    else
      let chunks := chunksOf s.evs s.src
      let cause :=
        if judgeHtml (decOf s) s.evs s.src html && chunks.any tailLoss then
          (if chunks.any endsTruncated then "lossy-chunk-end-truncated" else "lossy-chunk-end-invalid")
        else "other"
      ("FAIL", cause)

/-- The per-line judge on the real html + `line_offsets`; also: does the decoded text contain CRLF,
is a carriage-return highlight configured, number of lines. -/
def linesJudge (s : St) (balanced : Bool) : String :=
  match s.html with
  | none => "lines=panic crlf=0 crhset=0 nlines=0"
  | some html =>
    let cfg : RCfg := { attr := attrOfMode s.attrMode, crh := s.crh, crcr := s.fixCRCR }
    let j := if s.attrMode == 3 then "skip" else judgeLines lossySpec cfg balanced s.evs s.src html s.lines
    let d := decoded lossySpec s.evs s.src
    let rec hasCRLF : Bytes → Bool
      | 13 :: 10 :: _ => true
      | _ :: r => hasCRLF r
      | [] => false
    s!"lines={j} crlf={if hasCRLF d then 1 else 0} cr={if d.any (· == 13) then 1 else 0} crhset={if s.crh.isSome then 1 else 0} nlines={s.lines.length}"

def runRender (s : St) : String :=
  let (corr, _) := corrRender s
  -- an attribute callback that writes `>` is outside the renderer's contract: correspondence only
  let (j, cause) := if s.attrMode == 3 then ("skip", "-") else htmlJudge s
  let wf := wellFormed s.src.length s.evs
  s!"{s.id} kind=R attr={s.attrMode} corr={corr} wf={if wf then 1 else 0} judge={j} cause={cause} capirc={s.capirc} {linesJudge s wf}"

def maxDepth (evs : List Ev) : Nat :=
  (evs.foldl (fun (p : Nat × Nat) ev => match ev with
    | .start _ => (p.1 + 1, max p.2 (p.1 + 1))
    | .stop => (p.1 - 1, p.2)
    | _ => p) (0, 0)).2

def runHl (s : St) : String :=
  let (corr, _) := corrRender s
  let (j, cause) := htmlJudge s
  let wf := judgeEvents s.src.length s.evs
  let langOf := fun h => s.langof.getD h 0
  let inj := judgeInjected langOf s.injs s.evs
  let loc := judgeLocals s.locals s.evs
  let ok (b : Bool) := if b then "ok" else "FAIL"
  -- is the chunk-wise normalisation also the normalisation of the whole source? (cf. `normalize_whole`)
  let whole := decide (textOf lossySpec s.evs s.src = (lossySpec s.src).filter (· ≠ 13))
  let bnd := (chunksOf s.evs s.src).all fun c => !endsTruncated c
  s!"{s.id} kind=H whole={if whole then 1 else 0} charbnd={if bnd then 1 else 0} corr={corr} wf={ok wf} inj={ok inj} html={j} loc={ok loc} cause={cause} nsp={(spans s.evs).length} ninj={s.injs.length} nloc={s.locals.length} depth={maxDepth s.evs} err={s.err} {linesJudge s wf}"

def parseCaps (s : String) : List Cap :=
  if s == "-" then [] else (s.splitOn ",").filterMap fun t => match t.splitOn "-" with
    | [a, b, h] => some { s := natOf a, e := natOf b, h := if h == "n" then none else some (natOf h) }
    | _ => none

def parseRCaps (s : String) : List RCap :=
  if s == "-" then [] else (s.splitOn ",").filterMap fun t => match t.splitOn "-" with
    | [a, b, nd, k] =>
      let kind : RKind :=
        if k == "n" then .hl none
        else if k.startsWith "I" then
          let r := (k.drop 1).toString
          .inj (if r == "" then [] else (r.splitOn "+").map natOf)
        else .hl (some (natOf k))
      some { s := natOf a, e := natOf b, node := natOf nd, kind := kind }
    | _ => none

def parseRg (t : String) : Option Rg :=
  match t.splitOn "-" with
  | [a, b] => some (natOf a, natOf b)
  | _ => none

def parseRgs (s : String) : List Rg := if s == "-" then [] else (s.splitOn ",").filterMap parseRg

def parseINodes (s : String) : List INode :=
  (s.splitOn ";").filterMap fun t =>
    match (t.splitOn ":").filterMap parseRg with
    | nd :: ch => some { s := nd.1, e := nd.2, children := ch }
    | [] => none

/-- one `ir` line: does the port of `intersect_ranges` give the ranges the harness used? -/
def irEqual (incl parents nodes result : String) : Bool :=
  decide (intersectRanges (parseRgs parents) (parseINodes nodes) (incl == "1") = parseRgs result)

def parseLKind (k : String) : LKind :=
  let body := (k.drop 1).toString
  let fs := body.splitOn ":"
  if k.startsWith "S" then .scope (body == "1")
  else if k.startsWith "D" then
    match fs with
    | [a, b, c] => .defn (natOf a) (natOf b) (c == "1")
    | _ => .other
  else if k.startsWith "R" then
    match fs with
    | [a, c] => .ref (natOf a) (c == "1")
    | _ => .other
  else if k.startsWith "H" then
    match fs with
    | [h, nl] => .hl (if h == "n" then none else some (natOf h)) (nl == "1")
    | _ => .other
  else .other

def parseLCaps (s : String) : List LCap :=
  if s == "-" then [] else (s.splitOn ",").filterMap fun t => match t.splitOn "-" with
    | [a, b, nd, k] => some { s := natOf a, e := natOf b, node := natOf nd, kind := parseLKind k }
    | _ => none

/-- `run lmerge`: the locals model (one layer) against the real event stream. -/
def runLMerge (s : St) : String :=
  let n := s.src.length
  let m := mergeLocals n s.lcaps
  let corr := if decide (m = s.evs) then "ok" else "DIFF"
  let wf := judgeEvents n s.evs
  let nref := (s.lcaps.filter fun c => match c.kind with | .ref _ _ => true | _ => false).length
  let ndef := (s.lcaps.filter fun c => match c.kind with | .defn _ _ _ => true | _ => false).length
  s!"{s.id} kind=K corr={corr} wf={if wf then "ok" else "FAIL"} ncaps={s.lcaps.length} ndef={ndef} nref={nref} depth={maxDepth s.evs} err={s.err}"

def parseTilde (t : String) : Option Rg :=
  match t.splitOn "~" with
  | [a, b] => some (natOf a, natOf b)
  | _ => none

def parseIProp (t : String) : Full.IProp :=
  if t.startsWith "L" then .lang (natOf (t.drop 1).toString)
  else if t == "S" then .self
  else if t == "P" then .parent
  else if t == "C" then .inclChildren
  else .other

def parseFKind (k : String) : Full.FKind :=
  if k.startsWith "I" then
    match ((k.drop 1).toString).splitOn ";" with
    | [lc, ct, pr] =>
      let content : Option INode :=
        if ct == "n" then none else
          match (ct.splitOn ":").filterMap parseTilde with
          | nd :: ch => some { s := nd.1, e := nd.2, children := ch }
          | [] => none
      .inj { langCap := if lc == "n" then none else some (natOf lc), content := content,
             props := if pr == "_" then [] else (pr.splitOn ".").map parseIProp }
    | _ => .other
  else
    match parseLKind k with
    | .scope i => .scope i
    | .defn a b c => .defn a b c
    | .ref a b => .ref a b
    | .hl h nl => .hl h nl
    | .other => .other

def parseFCaps (s : String) : List Full.FCap :=
  if s == "-" then [] else (s.splitOn ",").filterMap fun t => match t.splitOn "-" with
    | [a, b, nd, k] => some { s := natOf a, e := natOf b, node := natOf nd, kind := parseFKind k }
    | _ => none

/-- `run fmerge`: the end-to-end model (layers + locals + model-driven injection) vs the real stream. -/
def runFMerge (s : St) (root : Nat) (top : List Nat) : String :=
  let n := s.src.length
  let cx : Full.Ctx := { defs := s.fdefs.toList, news := s.fnews.toList, nKnown := 3, rootLang := root, initInsert := s.initInsert }
  -- is the initial layer vector of the UNCHANGED set-up (one `sort_layers`) ordered by `sort_key`?
  let init0 := Full.sortLayers (Full.initLayers { cx with initInsert := false } top)
  let keys := init0.map Full.sortKey
  let rec ordered : List (Option Key) → Bool
    | some a :: some b :: r => !keyLt b a && ordered (some b :: r)
    | [some _] => true
    | [] => true
    | _ => false
  let initSorted := ordered keys
  let stk := judgeStacks cx.defs s.evs
  let cause := if stk.startsWith "FAIL" && !initSorted then "initial-layers-unsorted" else "-"
  let (m, fin) := Full.mergeFull cx top n
  let corr := if decide (m = s.evs) then "ok" else "DIFF"
  let wf := judgeEvents n s.evs
  let ninj := (cx.defs.map fun d => (d.caps.filter fun c => match c.kind with | .inj _ => true | _ => false).length).sum
  let nloc := (cx.defs.map fun d => (d.caps.filter fun c => match c.kind with | .ref _ _ => true | .defn _ _ _ => true | _ => false).length).sum
  s!"{s.id} kind=F corr={corr} defsin={if Full.defsIn n cx then 1 else 0} refsup={if Full.refsUp cx then 1 else 0} fin={if fin then 1 else 0} wf={if wf then "ok" else "FAIL"} stack={stk} cause={cause} initsorted={if initSorted then 1 else 0} nlayers={cx.defs.length} ninj={ninj} nloc={nloc} depth={maxDepth s.evs} err={s.err}"

/-- Bool version of `DefsNice` (hypothesis of `merge_events_in_place`), evaluated on the real layer data. -/
def defsNiceB (defs : List LayerDef) : Bool :=
  (defs.all fun d => capsOkR d.caps) &&
  defs.all fun d => d.caps.all fun c =>
    match c.kind with
    | .inj ids => ids.all fun j => match defs[j]? with
      | some d' => d'.caps.all fun c' => c.s ≤ c'.s
      | none => true
    | _ => true

/-- The whole run of the repaired model with the global stack of open span ends kept by stack
discipline (`ghostStep`): true iff no End ever finds a wrong top and the stack is empty at the end. -/
def runGhost (defs : List LayerDef) (n : Nat) : Nat → MSt → List Nat → Bool
  | 0, _, _ => false
  | f + 1, st, G =>
    match stepM defs n st with
    | .done _ => G.isEmpty
    | .more evs st' =>
      match ghostStep st evs G with
      | none => false
      | some G' => runGhost defs n f st' G'

/-- `run mmerge`: the multi-layer merge model against the real event stream. -/
def runMMerge (s : St) : String :=
  let n := s.src.length
  let defs := s.defs.toList
  -- the set-up of `Highlighter::highlight` that the probe of the real code found
  let (m, fin) := if s.initInsert then mergeLayersR defs s.top n else mergeLayers defs s.top n
  let corr := if decide (m = s.evs) then "ok" else "DIFF"
  let wf := judgeEvents n s.evs
  let maxd := defs.foldl (fun a d => max a d.depth) 0
  s!"{s.id} kind=N corr={corr} defsin={if defsIn n defs then 1 else 0} refsup={if refsUp defs then 1 else 0} fin={if fin then 1 else 0} wf={if wf then "ok" else "FAIL"} nlayers={defs.length} maxlayerdepth={maxd} defsnice={if defsNiceB defs then 1 else 0} static={if noInj defs then 1 else 0} crossnice={if crossNice defs then 1 else 0} crosslam={if crossLam defs then 1 else 0} staticnice={if staticNice defs then 1 else 0} defsniced={if defsNiceD defs then 1 else 0} closure={if closureNodup defs s.top then 1 else 0} injtie={if injTieOkP defs then 1 else 0} dynnice={if dynNice defs s.top then 1 else 0} ghost={if runGhost defs n (sumW (layerW defs) (initLayersR defs s.top) + 1) { layers := initLayersR defs s.top } [] then 1 else 0} ncaps={totalCaps defs} depth={maxDepth s.evs} ir={s.irTotal} irreal={s.irReal} irbad={s.irBad} err={s.err}"

/-- `run merge`: the single-layer merge model against the real event stream. -/
def runMerge (s : St) : String :=
  let n := s.src.length
  let m := mergeLayer n s.caps
  let corr := if decide (m = s.evs) then "ok" else "DIFF"
  let wf := judgeEvents n s.evs
  s!"{s.id} kind=M corr={corr} wf={if wf then "ok" else "FAIL"} capsin={capsIn n s.caps} capsok={capsOk n s.caps} ncaps={s.caps.length} depth={maxDepth s.evs} err={s.err}"

def step (s : St) (line : String) : IO St := do
  match line.splitOn " " with
  | ["case", id] => return { id := id, fixFinal := s.fixFinal, fixTrunc := s.fixTrunc, initInsert := s.initInsert, fixCRCR := s.fixCRCR }
  | ["probe", "crcr", b] =>
    IO.println s!"probe kind=X crcr={b}"
    return { s with fixCRCR := b == "1" }
  | ["probe", "initorder", b] =>
    IO.println s!"probe kind=W initinsert={b}"
    return { s with initInsert := b == "1" }
  | ["probe", "lossy", ff, ft, raw] =>
    -- one probe per repaired defect: 1 = the fix is in effect, 0 = the old behaviour, anything else = neither
    IO.println s!"probe kind=V fixfinal={ff} fixtrunc={ft} raw={raw}"
    return { s with fixFinal := ff != "0", fixTrunc := ft != "0" }
  | ["bytes", h] => return { s with bytes := unhx h }
  | ["impl", h] => return { s with impl := unhx h }
  | ["std", h] => return { s with std := unhx h }
  | ["src", h] => return { s with src := unhx h }
  | ["evs", e] => return { s with evs := parseEvs e }
  | ["crh", c] => return { s with crh := if c == "-" then none else some (natOf c) }
  | ["html", h] => return { s with html := if h == "PANIC" then none else some (unhx h) }
  | ["lines", l] => return { s with lines := parseNats l }
  | ["error", e] => return { s with err := e }
  | ["langof", l] => return { s with langof := parseNats l }
  | ["inj", l, r] => return { s with injs := s.injs ++ [{ lang := natOf l, ranges := parseRanges r }] }
  | ["locals", p] => return { s with locals := parseQuads p }
  | ["attr", m] => return { s with attrMode := natOf m }
  | ["outcome", o, expect] =>
    -- a step of a history run with a cancellation flag
    let n := s.src.length
    let okStream := if o == "completed" then judgeEvents n s.evs else judgePrefix n s.evs
    let ignored := expect.startsWith "k" && o == "completed" && s.evs.length > natOf (expect.drop 1).toString + 300
    let okOutcome := (o == "cancelled" || o == "completed") && !(expect == "cancel" && o != "cancelled") && !ignored
    let clause := if !okOutcome then "cancel-outcome" else if !okStream then (if o == "completed" then "events-wellformed" else "cancelled-prefix") else "-"
    IO.println s!"{s.id} kind=P outcome={o} expect={expect} judge={if okStream && okOutcome then "ok" else "FAIL"} clause={clause} nev={s.evs.length}"
    return s
  | ["capirc", c] => return { s with capirc := c }
  | ["capierr", name, got, want] =>
    IO.println s!"{s.id} kind=E name={name} got={got} want={want} judge={if got == want then "ok" else "FAIL"}"
    return s
  | ["run", "lossy"] => IO.println (runLossy s); return s
  | ["run", "render"] => IO.println (runRender s); return s
  | ["run", "hl"] => IO.println (runHl s); return s
  | ["caps", c] => return { s with caps := parseCaps c }
  | ["run", "merge"] => IO.println (runMerge s); return s
  | ["layer", _, d, c] => return { s with defs := s.defs.push { depth := natOf d, caps := parseRCaps c } }
  | ["top", t] => return { s with top := parseNats t }
  | ["lcaps", c] => return { s with lcaps := parseLCaps c }
  | ["fdef", _, lang, d, rs, c] =>
    return { s with fdefs := s.fdefs.push { lang := natOf lang, depth := natOf d, ranges := parseRgs rs, caps := parseFCaps c } }
  | ["fnew", lang, d, rs, ids] =>
    return { s with fnews := s.fnews.push { lang := natOf lang, depth := natOf d, ranges := parseRgs rs, ids := parseNats ids } }
  | ["ftop", root, t] => IO.println (runFMerge s (natOf root) (parseNats t)); return s
  | ["run", "lmerge"] => IO.println (runLMerge s); return s
  | ["ir", incl, ps, ns, res, real] =>
    -- with the re-export hook: the REAL private intersect_ranges' answer as well
    let ok := irEqual incl ps ns res && irEqual incl ps ns real
    return { s with irTotal := s.irTotal + 1, irReal := s.irReal + 1, irBad := s.irBad + (if ok then 0 else 1) }
  | ["ir", incl, ps, ns, res] =>
    return { s with irTotal := s.irTotal + 1, irBad := s.irBad + (if irEqual incl ps ns res then 0 else 1) }
  | ["run", "mmerge"] => IO.println (runMMerge s); return s
  | _ => return s

def main : IO Unit := do
  let _ ← foldLines (← IO.getStdin) ({} : St) step
