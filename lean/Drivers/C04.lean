-- Driver stub for C04 (replaced when the property's model driver is written).
def main : IO Unit := IO.println "C04: no driver yet"
