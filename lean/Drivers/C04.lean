import TsVerif.Common.IO
import TsVerif.C04.Judge
import TsVerif.C04.Ends
import TsVerif.C04.Reach
/-!
Driver for C04.  Line protocol (see harness/src/bin/c04.rs, harness/csrc/cunit_c04.c):

function level (answers must equal those of `tsv-cunit_c04` on the same lines):
  `F <id> add <k> (sb sr sc eb er ec)*k`                → `<id> out=<ranges>`
  `F <id> isect <n> (range)*n <startIndex> <sb> <eb>`   → `<id> out=0|1`
  `F <id> symdiff <no> (range)*no <nn> (range)*nn`      → `<id> out=<ranges>`
system level:
  `lang <id>` … `sym …` / `aliases <maxLen> v…` … `endlang`
  `case <cid> <lang>`, `len <n>`, `old` dump `end`, `new` dump `end`, `reported <n> (range)*n`, `run`
    → `<cid> corr=… judge=… mono=… msound=… nr=… diffbytes=… rchg=… fuel=…`
-/
open TsVerif TsVerif.C04 TsGen

def rangeOf : List Nat → Option (TSRange × List Nat)
  | sb :: sr :: sc :: eb :: er :: ec :: rest =>
    some ({ start_byte := sb, end_byte := eb, start_point := ⟨sr, sc⟩, end_point := ⟨er, ec⟩ }, rest)
  | _ => none

def rangesOf : Nat → List Nat → Option (List TSRange × List Nat)
  | 0, ws => some ([], ws)
  | k + 1, ws => do
    let (r, ws) ← rangeOf ws
    let (rs, ws) ← rangesOf k ws
    return (r :: rs, ws)

def outStr (rs : List TSRange) : String := if rs.isEmpty then "-" else fmtRanges rs

def runF (id op : String) (ws : List Nat) : String :=
  let bad := s!"{id} out=BADINPUT"
  match op, ws with
  | "add", k :: rest =>
    match rangesOf k rest with
    | some (rs, _) =>
      let out := rs.foldl (fun acc r => add acc ⟨r.start_byte, r.start_point⟩ ⟨r.end_byte, r.end_point⟩) []
      s!"{id} out={outStr out}"
    | none => bad
  | "isect", n :: rest =>
    match rangesOf n rest with
    | some (rs, [i, a, b]) => s!"{id} out={if intersects rs i a b then 1 else 0}"
    | _ => bad
  | "symdiff", no :: rest =>
    match rangesOf no rest with
    | some (old, nn :: rest) =>
      match rangesOf nn rest with
      | some (new, _) => s!"{id} out={outStr (symDiff old new)}"
      | none => bad
    | _ => bad
  | _, _ => bad

structure St where
  langs : List (String × LangInfo) := []
  curLang : String := ""
  li : LangInfo := {}
  id : String := ""
  lang : String := ""
  len : Nat := 0
  old : Array String := #[]
  new : Array String := #[]
  reported : List TSRange := []
  mode : Nat := 0   -- 0 none, 1 old, 2 new, 3 lang
  fixed : Bool := false

def runCase (s : St) : String :=
  match s.langs.lookup s.lang, parseDump s.old.toList, parseDump s.new.toList with
  | some li, some o, some n =>
    -- both variants of the included-range override (Iter.lean, `fixed`); which one /repo has is decided
    -- BEHAVIOURALLY by checks/c04.py: the variant that reproduces the implementation on the cases of this run
    let chF := treeChangedRanges li.alias true o n
    let chA := treeChangedRanges li.alias false o n
    let corrOf := fun (c : Changed) => if c.fuelOut then "DIFF fuel"
      else if decide (c.ranges = s.reported) then "ok"
      else s!"DIFF model:{outStr c.ranges} impl:{outStr s.reported}"
    let corrF := corrOf chF
    let corrA := corrOf chA
    let ch := if corrF == "ok" || corrA != "ok" then chF else chA
    let corr := if corrF == "ok" || corrA == "ok" then "ok" else corrF
    let v := judgeChanged li o n s.reported s.len
    let j := match v.fail with
      | none => "ok"
      | some m => s!"FAIL {m}"
    -- classify a failure: is it exactly what fixes/C04-range-override-in-padding.diff repairs?
    -- (the port with the fixed override span, on the same two trees, satisfies the judge)
    let fixedV := judgeChanged li o n (treeChangedRanges li.alias true o n).ranges s.len
    let cause := match v.fail with
      | none => "-"
      | some _ =>
        if fixedV.fail.isNone && !decide (o.ranges = n.ranges)
        then "override-span-in-padding"
        else if v.uncovered > 0 && v.uncoveredInToken == 0 && !decide (o.ranges = n.ranges) && rangesOrdered s.reported
          && !s.reported.any (fun r => r.end_byte > max s.len (max o.root.totalBytes n.root.totalBytes))
        then "padding-byte-after-range-change"
        else "other"
    let fixmsg := match v.fail, fixedV.fail with
      | some _, some m => s!" fixedmodel={m}"
      | _, _ => ""
    let mono := if traceAdmissible [] (ch.main ++ ch.post) then "ok"
      else "bad:" ++ ",".intercalate ((ch.main ++ ch.post).map fun (a, b) => s!"{a.bytes}-{b.bytes}")
    let ms := if matchSound li o n ch.matched then "ok" else "bad"
    -- hypotheses of `changed_covers_partial` on this case (model spans, the judge's stacks)
    let nS := max o.root.totalBytes n.root.totalBytes
    let soA := scopeStacks li o.root nS
    let snA := scopeStacks li n.root nS
    let lo0 := match ch.spans with
      | (sp, _, _) :: _ => sp.bytes
      | [] => 0
    let hGrow := traceGrow [] (ch.main ++ ch.post)
    let hTile := spansMono ch.spans   -- contiguity is a theorem (`spans_contiguous`)
    let hSound := ch.spans.all fun (a, b, l) => l == 0 || Id.run do
      for p in [a.bytes:min b.bytes nS] do
        if soA.getD p [] != snA.getD p [] then return false
      return true
    let cov := if hGrow && hTile && hSound then "ok"
      else "na:" ++ (if hGrow then "" else "grow") ++ (if hTile then "" else "tile") ++ (if hSound then "" else "sound")
    let rchg := if decide (o.ranges = n.ranges) then 0 else 1
    -- premises of `changed_sorted_bounded` / `changed_covers` (Props.lean) on this case
    let pSO := allSizedB o.root
    let pSN := allSizedB n.root
    let pEntry := entryOK o.root n.root
    let prem := if pSO && pSN && pEntry && !ch.fuelOut then "ok"
      else "na:" ++ (if pSO then "" else "sizedOld") ++ (if pSN then "" else "sizedNew") ++ (if pEntry then "" else "entry") ++ (if ch.fuelOut then "fuel" else "")
    -- … and its conclusions, evaluated (an instance of the theorem: must hold whenever the premises do)
    let hiB := max o.root.totalBytes n.root.totalBytes
    let concl := traceAdmissible [] (ch.main ++ ch.post) && hGrow && hTile && ch.ranges.all (fun r => decide (r.end_byte ≤ hiB))
      && ch.ranges.all (fun r => decide (r.start_byte < r.end_byte))
    -- `walk_reaches_end` (needs, in addition, visible roots): the walk reaches the end of the shorter tree
    let pRoot := rootOK o.root && rootOK n.root
    let reach := decide (spansEnd (loopStart o.root n.root) ch.spans ≥ min o.root.totalBytes n.root.totalBytes)
    s!"{s.id} corr={corr} corrF={if corrF == "ok" then "ok" else "DIFF"} corrA={if corrA == "ok" then "ok" else "DIFF"} corrmsg={corrF} judge={j} cause={cause} mono={mono} msound={ms} cov={cov} prem={prem} concl={if concl then "ok" else "bad"} reach={if reach then 1 else 0} root={if pRoot then 1 else 0} nr={s.reported.length} diffbytes={v.diffBytes} uncov={v.uncovered} uncovtok={v.uncoveredInToken} uncovlist={v.uncoveredBytes} same={v.coveredSame} rchg={rchg} calls={ch.main.length + ch.post.length} matched={ch.matched.length}{fixmsg}"
  | _, _, _ => s!"{s.id} corr=BADINPUT judge=BADINPUT"

def step (s : St) (line : String) : IO St := do
  if s.mode == 1 then
    if line == "end" then return { s with mode := 0 } else return { s with old := s.old.push line }
  if s.mode == 2 then
    if line == "end" then return { s with mode := 0 } else return { s with new := s.new.push line }
  if s.mode == 3 then
    match line.splitOn " " with
    | ["endlang"] => return { s with mode := 0, langs := (s.curLang, s.li) :: s.langs }
    | "sym" :: id :: _v :: _n :: _st :: pub :: name =>
      let i := natOf id
      let pm := (s.li.publicMap ++ Array.replicate (i + 1 - s.li.publicMap.size) 0).set! i (natOf pub)
      let nm := (s.li.names ++ Array.replicate (i + 1 - s.li.names.size) "").set! i (" ".intercalate name)
      return { s with li := { s.li with publicMap := pm, names := nm } }
    | "aliases" :: maxLen :: vs =>
      return { s with li := { s.li with alias := { maxLen := natOf maxLen, seqs := (vs.map natOf).toArray } } }
    | _ => return s
  match line.splitOn " " with
  | "F" :: id :: op :: ws => IO.println (runF id op (ws.map natOf)); return s
  | ["lang", id] => return { s with mode := 3, curLang := id, li := {} }
  | ["variant", v] => return { s with fixed := v == "override-compared-end" }
  | ["case", id, lang] => return { s with id := id, lang := lang, old := #[], new := #[], reported := [], len := 0 }
  | ["len", n] => return { s with len := natOf n }
  | ["old"] => return { s with mode := 1 }
  | ["new"] => return { s with mode := 2 }
  | "reported" :: n :: ws =>
    match rangesOf (natOf n) (ws.map natOf) with
    | some (rs, _) => return { s with reported := rs }
    | none => return s
  | ["run"] => IO.println (runCase s); return s
  | _ => return s

def main (args : List String) : IO Unit := do
  let _ ← foldLines (← IO.getStdin) ({ fixed := args.contains "--override-compared-end" } : St) step
