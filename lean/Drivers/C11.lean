-- Driver stub for C11 (replaced when the property's model driver is written).
def main : IO Unit := IO.println "C11: no driver yet"
